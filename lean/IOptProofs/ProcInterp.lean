import IOptProofs.ProcInterpDefs
import IOptProofs.ProcessToy
/-!
# The control skeleton of `process.py`, taken from the SOURCE TEXT, is the model's `doGlobalIteration` / `solve`

`IOptGen/ProcessSrc.lean` (regenerated from `iOpt/method/process.py` on every run) holds the bodies of `Process.DoGlobalIteration`
and `Process.Solve` as statement trees.  `IOptProofs/ProcInterpDefs.lean` interprets such trees, generically, over the model's
primitive steps.  Here:

* `commit_eq_parts`: `AGP.commit` = `FinalizeIteration ∘ RenewSearchData ∘ UpdateOptimum ∘` (the end of `CalculateFunctionals`),
  in the order of the source;
* `doGlobalIteration_src`: interpretation of the generated tree of `DoGlobalIteration` = `Proc.doGlobalIteration p f number ps []`;
* `whileLoop_spec`: `try: while …: self.DoGlobalIteration() except BaseException: print(…)` = `Proc.solveLoop` at the same fuel;
* `solve_src_fuel`, `solve_src`: interpretation of the generated tree of `Solve` = `Proc.solve p f refine ps`;
* `Examples`: runs of the interpreter on the generated trees over `ℚ`, and seeded edits of the trees (`UpdateOptimum` /
  `RenewSearchData` swapped, the flag not reset, the `while` outside the `try`, the first iteration outside the `try`) on which
  the interpretation is NOT the model.

Correspondence of result types: `POut.done g` ~ `Proc.Res` with `s = g.ps`, `raised = none`; `POut.raised g e` ~ `s = g.ps`,
`raised = some e` (`POut.ofRes`, `POut.toRes`); `g.first` is the field `__first_iteration`, which the model encodes as
`ps.m = none` (`Glob.ofP`); the theorems start from an object in which the two agree (true after `Process.__init__`) and say that
they agree again at the end.
-/

set_option linter.unusedSectionVars false

section
variable {α : Type} [Add α] [Sub α] [Mul α] [Div α] [Neg α] [LT α] [LE α]
  [DecidableLT α] [DecidableLE α] [OfNat α 0] [OfNat α 1] [OfNat α 2] [OfNat α 4] [Fns α]

namespace ProcInterp
open AGP Proc Gen.ProcSrc

theorem commit_eq_parts (p : Params α) (pr : Prep α) (z : α) :
    commit p pr z = finalizeIteration (renewSearchData p pr z (updateOptimum pr z (recordTrial pr.s))) := by
  unfold commit finalizeIteration renewSearchData updateOptimum recordTrial
  simp only []
  cases hfi : findItem pr.s.items pr.s.best with
  | none => rfl
  | some it =>
    simp only [Option.map_some]
    by_cases hz : z < it.z
    · simp only [hz, decide_true, ↓reduceIte]
    · simp only [hz, decide_false, Bool.false_eq_true, ↓reduceIte]

/-! ### table look-ups on the strings of the generated trees -/
theorem lk_before : primTable.lookup ([], "listener.BeforeMethodStart", ["self.method"]) = some .beforeMethodStart := by decide
theorem lk_first : primTable.lookup ([], "self.method.FirstIteration", []) = some .firstIteration := by decide
theorem lk_appendLast : primTable.lookup ([], "savedNewPoints.append", ["self.searchData.GetLastItem()"]) = some .appendLast := by decide
theorem lk_calcPoint : primTable.lookup (["newpoint", "oldpoint"], "self.method.CalculateIterationPoint", []) = some .calcIterationPoint := by decide
theorem lk_appendNew : primTable.lookup ([], "savedNewPoints.append", ["newpoint"]) = some .appendNew := by decide
theorem lk_calcF : primTable.lookup ([], "self.method.CalculateFunctionals", ["newpoint"]) = some .calcFunctionals := by decide
theorem lk_upd : primTable.lookup ([], "self.method.UpdateOptimum", ["newpoint"]) = some .updateOptimum := by decide
theorem lk_renew : primTable.lookup ([], "self.method.RenewSearchData", ["newpoint", "oldpoint"]) = some .renewSearchData := by decide
theorem lk_fin : primTable.lookup ([], "self.method.FinalizeIteration", []) = some .finalizeIteration := by decide
theorem lk_onEnd : primTable.lookup ([], "listener.OnEndIteration", ["savedNewPoints", "self.GetResults()"]) = some .onEndIteration := by decide
theorem lk_cFirst : condTable.lookup "self.__first_iteration is True" = some .firstIter := by decide
theorem lk_aSaved : assignTable.lookup ("savedNewPoints", "[]") = some .savedEmpty := by decide
theorem lk_aFirst : assignTable.lookup ("self.__first_iteration", "False") = some .firstFalse := by decide

/-- the body of the `for _ in range(number)` loop of a `DoGlobalIteration`-shaped function -/
def loopBodyOf : List Stmt → List Stmt
  | [_, .forRange _ _ b, _] => b
  | _ => []

/-- what one pass of the loop body must do, in terms of `Proc.oneIteration` -/
def BodySpec (c : Ctx α) (b : IState α → Out α) : Prop :=
  ∀ (ps : PState α) (l : Locals α) (sv : List Nat), l.saved = some sv →
    match oneIteration c.p c.f ps with
    | .error (ps', e) => ∃ l', b ⟨Glob.ofP ps, l⟩ = .raised ⟨Glob.ofP ps', l'⟩ e
    | .ok (ps', id) => ∃ l', b ⟨Glob.ofP ps, l⟩ = .normal ⟨Glob.ofP ps', l'⟩ ∧ l'.saved = some (sv ++ [id])

theorem body_spec (c : Ctx α) (env : ProcEnv α) (fuel : Nat) :
    BodySpec c (fun s => execList c env fuel false (loopBodyOf Gen.ProcSrc.doGlobalIteration) s) := by
  intro ps l sv hl
  simp only [loopBodyOf, Gen.ProcSrc.doGlobalIteration]
  unfold oneIteration
  cases hm : ps.m with
  | none =>
    simp only [execList, execStmt, lk_cFirst, evalCond, Glob.ofP, hm, Option.isNone_none, ↓reduceIte, and_self, lk_before,
      Prim.allowed, execPrim, IState.setPs, lk_first, Bool.not_false]
    cases hf : c.f (ps.calls + 1 - 1) (firstPoint c.p) with
    | none => simp only []; exact ⟨_, rfl⟩
    | some z =>
      simp only [lk_appendLast, ↓reduceIte, hl, lk_aFirst, Bool.false_eq_true, execAssign]
      exact ⟨_, rfl, rfl⟩
  | some s =>
    simp only [execList, execStmt, lk_cFirst, evalCond, Glob.ofP, hm, Option.isNone_some, Bool.false_eq_true, ↓reduceIte,
      lk_calcPoint, Prim.allowed, execPrim, IState.setPs, Bool.not_false]
    cases hp : prepare c.p s with
    | error e => obtain ⟨s', e⟩ := e; simp only []; exact ⟨_, rfl⟩
    | ok pr =>
      simp only [lk_appendNew, ↓reduceIte, hl, lk_calcF]
      cases hf : c.f (ps.calls + 1 - 1) pr.point with
      | none => simp only []; exact ⟨_, rfl⟩
      | some z =>
        simp only [lk_upd, lk_renew, lk_fin, ↓reduceIte, commit_eq_parts]
        exact ⟨_, rfl, rfl⟩

/-- what follows the loop in `DoGlobalIteration`: the `OnEndIteration` round; a raise propagates -/
def finishDgi (o : Out α) : POut α :=
  match o with
  | .normal st =>
    match st.l.saved with
    | some sv => .done { st.g with ps := { st.g.ps with log := st.g.ps.log ++ [Event.endIteration sv] } }
    | none => .stuck
  | .returned st => .done st.g
  | .raised st e => .raised st.g e
  | .stuck => .stuck

/-- `for _ in range(k)` over a body that does `Proc.oneIteration`, followed by the notification, is `Proc.doGlobalIteration k` -/
theorem loopN_spec (c : Ctx α) (b : IState α → Out α) (hb : BodySpec c b) :
    ∀ (k : Nat) (ps : PState α) (l : Locals α) (sv : List Nat), l.saved = some sv →
      finishDgi (loopN k b ⟨Glob.ofP ps, l⟩) = POut.ofRes (Proc.doGlobalIteration c.p c.f k ps sv) := by
  intro k
  induction k with
  | zero => intro ps l sv hl; simp only [loopN, finishDgi, hl, Proc.doGlobalIteration, POut.ofRes, Glob.ofP]
  | succ k ih =>
    intro ps l sv hl
    have h := hb ps l sv hl
    rw [Proc.doGlobalIteration, loopN]
    cases ho : oneIteration c.p c.f ps with
    | error pe =>
      obtain ⟨ps', e⟩ := pe
      rw [ho] at h
      obtain ⟨l', hl'⟩ := h
      simp only [hl', finishDgi, POut.ofRes]
    | ok pi =>
      obtain ⟨ps', id⟩ := pi
      rw [ho] at h
      obtain ⟨l', hl', hsv⟩ := h
      simp only [hl']
      exact ih ps' l' _ hsv

theorem ev_number (number : Nat) : evalNat [("number", number)] "number" = some number := by
  have h : intLits.lookup "number" = none := by decide
  simp only [evalNat, h, List.lookup, beq_self_eq_true]

/-- the generated tree has the shape "initialise `savedNewPoints`; `for _ in range(number)`: body; notify" -/
theorem dgi_shape : Gen.ProcSrc.doGlobalIteration =
    [.assign "savedNewPoints" "[]", .forRange "_" "number" (loopBodyOf Gen.ProcSrc.doGlobalIteration),
     .forEach "listener" "self.__listeners" [.call [] "listener.OnEndIteration" ["savedNewPoints", "self.GetResults()"]]] := rfl

/-- a function of that shape, whatever its loop body -/
theorem run_dgi_shape (c : Ctx α) (depth fuel number : Nat) (body : List Stmt) (g : Glob α) :
    run c depth fuel [.assign "savedNewPoints" "[]", .forRange "_" "number" body,
      .forEach "listener" "self.__listeners" [.call [] "listener.OnEndIteration" ["savedNewPoints", "self.GetResults()"]]]
      [("number", number)] g =
    finishDgi (loopN number (fun s => execList c (envN c fuel depth) fuel false body s)
      ⟨g, { ints := [("number", number)], saved := some [] }⟩) := by
  simp only [run, runBody, execList, execStmt, lk_aSaved, execAssign, ev_number, ↓reduceIte,
    Bool.false_eq_true, and_self, lk_onEnd, Prim.allowed, execPrim, IState.setPs, finishDgi]
  cases loopN number _ _ with
  | normal st => cases hs : st.l.saved <;> simp only [hs]
  | returned st => rfl
  | raised st e => rfl
  | stuck => rfl

/-- **`DoGlobalIteration`, source tree = model.**  The interpretation of the statement tree generated from the source text of
`Process.DoGlobalIteration`, run with `number` bound to any value on an object whose `__first_iteration` flag agrees with the
model state, is `Proc.doGlobalIteration p f number ps []`: same final state (and flag), same exception (or none), for every call
depth and every `while`-fuel (the tree has no `while` and calls no function of `process.py`). -/
theorem doGlobalIteration_src (c : Ctx α) (depth fuel number : Nat) (ps : PState α) :
    run c depth fuel Gen.ProcSrc.doGlobalIteration [("number", number)] (Glob.ofP ps) =
      POut.ofRes (Proc.doGlobalIteration c.p c.f number ps []) := by
  have h1 := run_dgi_shape c depth fuel number (loopBodyOf Gen.ProcSrc.doGlobalIteration) (Glob.ofP ps)
  rw [← dgi_shape] at h1
  rw [h1]
  exact loopN_spec c _ (body_spec c (envN c fuel depth) fuel) number ps _ [] rfl

/-! ### `Solve` -/
theorem lk_now : primTable.lookup (["startTime"], "datetime.now", []) = some .now := by decide
theorem lk_print : primTable.lookup ([], "print", ["'Exception was thrown'"]) = some .printExc := by decide
theorem lk_dlr : primTable.lookup ([], "self.DoLocalRefinement", ["-1"]) = some .doLocalRefinement := by decide
theorem lk_getRes : primTable.lookup (["result"], "self.GetResults", []) = some .getResults := by decide
theorem lk_total : primTable.lookup (["result.solvingTime"], "(datetime.now() - startTime).total_seconds", []) = some .totalSeconds := by decide
theorem lk_check : primTable.lookup (["status"], "self.method.CheckStopCondition", []) = some .checkStop := by decide
theorem lk_stop : primTable.lookup ([], "listener.OnMethodStop", ["self.searchData", "self.GetResults()", "status"]) = some .onMethodStop := by decide
theorem lk_dgi : primTable.lookup ([], "self.DoGlobalIteration", []) = none := by decide
theorem lk_cNotStop : condTable.lookup "not self.method.CheckStopCondition()" = some .notStop := by decide
theorem lk_cRefine : condTable.lookup "self.parameters.refineSolution" = some .refineRequested := by decide
theorem lk_procDgi : procTable.lookup "self.DoGlobalIteration" =
    some (doGlobalIterationParams, doGlobalIterationDefaults, Gen.ProcSrc.doGlobalIteration) := by rfl

/-- `self.DoGlobalIteration()` binds `number` to its default `1`, whatever the caller's locals -/
theorem bind_dgi (ints : List (String × Nat)) :
    bindArgs doGlobalIterationParams doGlobalIterationDefaults [] ints = some [("number", 1)] := by
  have h : intLits.lookup "1" = some 1 := by decide
  simp [bindArgs, doGlobalIterationParams, doGlobalIterationDefaults, bindAll, evalNat, h]

/-- the statement `self.DoGlobalIteration()` at call depth `d+1` is `Proc.doGlobalIteration p f 1 ps []`; the caller's locals survive -/
theorem call_dgi (c : Ctx α) (d fuel : Nat) (ps : PState α) (l : Locals α) :
    execList c (envN c fuel (d+1)) fuel false [.call [] "self.DoGlobalIteration" []] ⟨Glob.ofP ps, l⟩ =
      match (Proc.doGlobalIteration c.p c.f 1 ps []).raised with
      | none => .normal ⟨Glob.ofP (Proc.doGlobalIteration c.p c.f 1 ps []).s, l⟩
      | some e => .raised ⟨Glob.ofP (Proc.doGlobalIteration c.p c.f 1 ps []).s, l⟩ e := by
  have h := doGlobalIteration_src c d fuel 1 ps
  simp only [run] at h
  simp only [execList, execStmt, lk_dgi, envN, lk_procDgi, bind_dgi, and_self, ↓reduceIte, h, POut.ofRes]
  cases (Proc.doGlobalIteration c.p c.f 1 ps []).raised <;> rfl

/-- `try: while not stop: body  except BaseException: handler`, for a body that is `doGlobalIteration 1` and a handler that
prints, is `Proc.solveLoop` at the same fuel -/
theorem whileLoop_spec (c : Ctx α) (b h : IState α → Out α)
    (hb : ∀ ps l, b ⟨Glob.ofP ps, l⟩ =
      match (Proc.doGlobalIteration c.p c.f 1 ps []).raised with
      | none => .normal ⟨Glob.ofP (Proc.doGlobalIteration c.p c.f 1 ps []).s, l⟩
      | some e => .raised ⟨Glob.ofP (Proc.doGlobalIteration c.p c.f 1 ps []).s, l⟩ e)
    (hh : ∀ (ps : PState α) l, h ⟨Glob.ofP ps, l⟩ = .normal ⟨Glob.ofP { ps with log := ps.log ++ [Event.exceptionPrinted] }, l⟩) :
    ∀ (fuel : Nat) (ps : PState α) (l : Locals α),
      (match whileLoop fuel (evalCond c .notStop) b ⟨Glob.ofP ps, l⟩ with
       | .raised st' _ => h st'
       | o => o) = .normal ⟨Glob.ofP (solveLoop c.p c.f fuel ps).1, l⟩ := by
  intro fuel
  induction fuel with
  | zero => intro ps l; rfl
  | succ fuel ih =>
    intro ps l
    rw [whileLoop, solveLoop]
    cases hs : stopNow c.p ps with
    | true => simp [evalCond, Glob.ofP, hs]
    | false =>
      simp only [evalCond, Glob.ofP, hs, Bool.not_false, ↓reduceIte, Bool.false_eq_true]
      have hb' := hb ps l
      simp only [Glob.ofP] at hb'
      rw [hb']
      cases hr : (Proc.doGlobalIteration c.p c.f 1 ps []).raised with
      | none => simp only []; exact ih _ l
      | some e => simp only []; exact hh _ l

/-- what `Proc.solve` does after the loop: refinement if the oracle answers, then the `OnMethodStop` round -/
def finishSolve (p : Params α) (refine : PState α → Option (LocalResult α)) (ps : PState α) : PState α :=
  let ps := match refine ps with
    | some lr => Proc.doLocalRefinement ps lr
    | none => ps
  { ps with log := ps.log ++ [Event.methodStop (stopNow p ps)] }

theorem solve_eq_finish (p : Params α) (f : Nat → List α → Option α) (refine : PState α → Option (LocalResult α)) (ps : PState α) :
    Proc.solve p f refine ps = finishSolve p refine (solveLoop p f (p.itersLimit + 1) ps).1 := rfl

theorem doLocalRefinement_isNone (ps : PState α) (lr : LocalResult α) : (Proc.doLocalRefinement ps lr).m.isNone = ps.m.isNone := by
  unfold Proc.doLocalRefinement; split <;> simp_all

/-- the while-body and the handler of a `Solve`-shaped function -/
def tryPartsOf : List Stmt → List Stmt × List Stmt
  | _ :: .tryExcept [.while _ wb] _ hd :: _ => (wb, hd)
  | _ => ([], [])

theorem solve_shape : Gen.ProcSrc.solve =
    [.call ["startTime"] "datetime.now" [],
     .tryExcept [.while "not self.method.CheckStopCondition()" (tryPartsOf Gen.ProcSrc.solve).1] "BaseException"
       (tryPartsOf Gen.ProcSrc.solve).2,
     .ite "self.parameters.refineSolution" [.call [] "self.DoLocalRefinement" ["-1"]] [],
     .call ["result"] "self.GetResults" [],
     .call ["result.solvingTime"] "(datetime.now() - startTime).total_seconds" [],
     .forEach "listener" "self.__listeners" [
       .call ["status"] "self.method.CheckStopCondition" [],
       .call [] "listener.OnMethodStop" ["self.searchData", "self.GetResults()", "status"]],
     .ret "result"] := rfl

/-- a function of the shape of `Solve`, whatever the body of its `while` and its handler, when the `try` statement ends normally -/
theorem run_solve_shape (c : Ctx α) (depth fuel : Nat) (wb hd : List Stmt) (g : Glob α) (ps' : PState α)
    (htry : (match whileLoop fuel (evalCond c .notStop) (fun s => execList c (envN c fuel depth) fuel false wb s)
                ⟨g, { startTime := true }⟩ with
             | .raised st' _ => (fun s => execList c (envN c fuel depth) fuel false hd s) st'
             | o => o) = .normal ⟨Glob.ofP ps', { startTime := true }⟩) :
    run c depth fuel
      [.call ["startTime"] "datetime.now" [],
       .tryExcept [.while "not self.method.CheckStopCondition()" wb] "BaseException" hd,
       .ite "self.parameters.refineSolution" [.call [] "self.DoLocalRefinement" ["-1"]] [],
       .call ["result"] "self.GetResults" [],
       .call ["result.solvingTime"] "(datetime.now() - startTime).total_seconds" [],
       .forEach "listener" "self.__listeners" [
         .call ["status"] "self.method.CheckStopCondition" [],
         .call [] "listener.OnMethodStop" ["self.searchData", "self.GetResults()", "status"]],
       .ret "result"] [] g =
    .done (Glob.ofP (finishSolve c.p c.refine ps')) := by
  have e1 : execList c (envN c fuel depth) fuel false
      [.tryExcept [.while "not self.method.CheckStopCondition()" wb] "BaseException" hd] ⟨g, { startTime := true }⟩ =
      .normal ⟨Glob.ofP ps', { startTime := true }⟩ := by
    rw [← htry]
    simp only [execList, execStmt, lk_cNotStop, ↓reduceIte]
    cases whileLoop fuel _ _ _ <;> simp only []
    cases execList c (envN c fuel depth) fuel false hd _ <;> rfl
  have e0 : execStmt c (envN c fuel depth) fuel false (.call ["startTime"] "datetime.now" []) ⟨g, { }⟩ =
      .normal ⟨g, { startTime := true }⟩ := by
    simp only [execStmt, lk_now, Prim.allowed, Bool.not_false, ↓reduceIte, execPrim]
  rw [run, runBody, execList, e0]
  simp only []
  rw [execList] at e1
  rw [execList]
  revert e1
  cases execStmt c (envN c fuel depth) fuel false (.tryExcept [.while "not self.method.CheckStopCondition()" wb] "BaseException" hd) ⟨g, { startTime := true }⟩ with
  | normal st =>
    intro e1
    simp only [execList, Out.normal.injEq] at e1
    subst e1
    simp only []
    have hret : retTable.contains "result" = true := by decide
    cases hr : c.refine ps' with
    | none =>
      simp only [execList, execStmt, lk_cRefine, evalCond, Glob.ofP, hr, Option.isSome_none, Bool.false_eq_true, ↓reduceIte,
        lk_getRes, lk_total, lk_check, lk_stop, Prim.allowed, Bool.not_false, execPrim, IState.setPs, Bool.and_self, and_self,
        hret, finishSolve]
    | some lr =>
      simp only [execList, execStmt, lk_cRefine, evalCond, Glob.ofP, hr, Option.isSome_some, ↓reduceIte, lk_dlr,
        lk_getRes, lk_total, lk_check, lk_stop, Prim.allowed, Bool.not_false, execPrim, IState.setPs, Bool.and_self, and_self,
        hret, finishSolve, doLocalRefinement_isNone]
  | returned st => intro e1; simp only [reduceCtorEq] at e1
  | raised st e => intro e1; simp only [reduceCtorEq] at e1
  | stuck => intro e1; simp only [reduceCtorEq] at e1

theorem handler_print (c : Ctx α) (env : ProcEnv α) (fuel : Nat) (ps : PState α) (l : Locals α) :
    execList c env fuel false [.call [] "print" ["'Exception was thrown'"]] ⟨Glob.ofP ps, l⟩ =
      .normal ⟨Glob.ofP { ps with log := ps.log ++ [Event.exceptionPrinted] }, l⟩ := by
  simp only [execList, execStmt, lk_print, Prim.allowed, Bool.not_false, ↓reduceIte, execPrim, IState.setPs, Glob.ofP]

/-- **`Solve`, source tree = model, at every fuel.**  The interpretation of the statement tree generated from the source text of
`Process.Solve` (which calls `self.DoGlobalIteration()` through ITS generated tree, call depth `d+1 ≥ 1`), with `while`-fuel
`fuel`, returns normally, and its final state is what `Proc.solve` computes from `Proc.solveLoop` at the same fuel:
refinement when the oracle answers, then the `OnMethodStop` round. -/
theorem solve_src_fuel (c : Ctx α) (d fuel : Nat) (ps : PState α) :
    run c (d+1) fuel Gen.ProcSrc.solve [] (Glob.ofP ps) =
      .done (Glob.ofP (finishSolve c.p c.refine (solveLoop c.p c.f fuel ps).1)) := by
  have hw := whileLoop_spec c
    (fun s => execList c (envN c fuel (d+1)) fuel false (tryPartsOf Gen.ProcSrc.solve).1 s)
    (fun s => execList c (envN c fuel (d+1)) fuel false (tryPartsOf Gen.ProcSrc.solve).2 s)
    (fun ps l => call_dgi c d fuel ps l) (fun ps l => handler_print c _ fuel ps l) fuel ps { startTime := true }
  have h := run_solve_shape c (d+1) fuel _ _ (Glob.ofP ps) _ hw
  rw [← solve_shape] at h
  exact h

/-- **`Solve`, source tree = model.**  With the fuel of the model (`itersLimit + 1`, which always suffices:
`IOptProps/C03.lean`), the interpretation of the generated tree of `Process.Solve` is `Proc.solve p f refine ps`. -/
theorem solve_src (c : Ctx α) (d : Nat) (ps : PState α) :
    run c (d+1) (c.p.itersLimit + 1) Gen.ProcSrc.solve [] (Glob.ofP ps) =
      .done (Glob.ofP (Proc.solve c.p c.f c.refine ps)) := by
  rw [solve_src_fuel, solve_eq_finish]

/-! ### the same statements through `Proc.Res`, and with `refineSolution` as a Boolean parameter -/

theorem toRes_ofRes (r : Res α) : (POut.ofRes r).toRes = some r := by
  obtain ⟨s, raised⟩ := r
  cases raised <;> rfl

/-- `doGlobalIteration_src` read through `POut.toRes`: the tree is not stuck and yields exactly the model's `Res` -/
theorem doGlobalIteration_src_res (c : Ctx α) (depth fuel number : Nat) (ps : PState α) :
    (run c depth fuel Gen.ProcSrc.doGlobalIteration [("number", number)] (Glob.ofP ps)).toRes =
      some (Proc.doGlobalIteration c.p c.f number ps []) := by
  rw [doGlobalIteration_src, toRes_ofRes]

/-- How `self.parameters.refineSolution` is connected to the model's oracle `refine : PState α → Option (LocalResult α)`:
the condition is interpreted as `(refine ps).isSome` at the state in which it is tested, and `self.DoLocalRefinement(-1)` (only
reached when the condition holds, on the same state) as `Proc.doLocalRefinement ps lr` for `refine ps = some lr`.  For a solver
with the Boolean parameter `refineSolution` and a total description `oracle` of what scipy's Nelder–Mead returns, the oracle
is `fun ps => if refineSolution then some (oracle ps) else none`; then the condition is the parameter itself … -/
theorem refine_cond_flag (p : Params α) (f : Nat → List α → Option α) (refineSolution : Bool) (oracle : PState α → LocalResult α)
    (st : IState α) :
    evalCond { p := p, f := f, refine := fun ps => if refineSolution then some (oracle ps) else none } .refineRequested st =
      refineSolution := by
  cases refineSolution <;> rfl

/-- … and `solve_src` specialises to it. -/
theorem solve_src_flag (p : Params α) (f : Nat → List α → Option α) (refineSolution : Bool) (oracle : PState α → LocalResult α)
    (d : Nat) (ps : PState α) :
    run { p := p, f := f, refine := fun ps => if refineSolution then some (oracle ps) else none } (d+1) (p.itersLimit + 1)
        Gen.ProcSrc.solve [] (Glob.ofP ps) =
      .done (Glob.ofP (Proc.solve p f (fun ps => if refineSolution then some (oracle ps) else none) ps)) :=
  solve_src { p := p, f := f, refine := fun ps => if refineSolution then some (oracle ps) else none } d ps

end ProcInterp
end

/-! ## Non-vacuity, and what the ties exclude: concrete runs over `ℚ` (`ProcToy`) -/

namespace ProcInterp.Examples
open AGP Proc ProcToy
open Gen.ProcSrc (Stmt)

/-- toy context: one dimension, `r = 2`, `eps = 1/100`, budget `lim` -/
def C (lim : Nat) (f : Nat → List Rat → Option Rat) (refine : PState Rat → Option (LocalResult Rat) := noRefine) : Ctx Rat :=
  { p := P lim (1/100), f := f, refine := refine }

/-- a decidable view of an outcome: log, calls, `numberOfLocalTrials`, flag, exception, (id, characteristic) of every item -/
structure View where
  log : List Event
  calls : Nat
  nLocal : Nat
  first : Bool
  exc : Option Raise
  items : Option (List (Nat × Option Rat))
deriving DecidableEq

def viewG (g : Glob Rat) (e : Option Raise) : View :=
  { log := g.ps.log, calls := g.ps.calls, nLocal := g.ps.nLocal, first := g.first, exc := e,
    items := g.ps.m.map fun s => s.items.map fun it => (it.id, it.R) }

/-- `none`: stuck -/
def view (o : POut Rat) : Option View :=
  match o with
  | .done g => some (viewG g none)
  | .raised g e => some (viewG g (some e))
  | .stuck => none

/-- a refinement oracle that answers -/
def someRefine : PState Rat → Option (LocalResult Rat) := fun _ => some { x := [1/3], fx := 0, nfev := 7 }

/-- the interpreter RUN on the generated tree of `DoGlobalIteration` (3 iterations from a fresh solver) gives the model's result -/
example : view (run (C 5 F) 0 0 Gen.ProcSrc.doGlobalIteration [("number", 3)] (Glob.ofP {})) =
    view (POut.ofRes (Proc.doGlobalIteration (P 5 (1/100)) F 3 {} [])) ∧
    (view (run (C 5 F) 0 0 Gen.ProcSrc.doGlobalIteration [("number", 3)] (Glob.ofP {}))).map (·.log) =
      some [Event.beforeStart, Event.endIteration [2, 3, 4]] := by decide +kernel

/-- … with an objective that raises at its third call: the exception leaves `DoGlobalIteration`, no `OnEndIteration` -/
example : view (run (C 5 (failAt 2)) 0 0 Gen.ProcSrc.doGlobalIteration [("number", 3)] (Glob.ofP {})) =
    view (POut.ofRes (Proc.doGlobalIteration (P 5 (1/100)) (failAt 2) 3 {} [])) ∧
    (view (run (C 5 (failAt 2)) 0 0 Gen.ProcSrc.doGlobalIteration [("number", 3)] (Glob.ofP {}))).map (fun v => (v.log, v.exc)) =
      some ([Event.beforeStart], some Raise.objective) := by decide +kernel

/-- the interpreter RUN on the generated tree of `Solve`: total objective; objective raising at its 4th call; with refinement -/
example : view (run (C 5 F) 1 6 Gen.ProcSrc.solve [] (Glob.ofP {})) = view (.done (Glob.ofP (Proc.solve (P 5 (1/100)) F noRefine {}))) ∧
    view (run (C 5 (failAt 3)) 1 6 Gen.ProcSrc.solve [] (Glob.ofP {})) =
      view (.done (Glob.ofP (Proc.solve (P 5 (1/100)) (failAt 3) noRefine {}))) ∧
    view (run (C 5 (failAt 3) someRefine) 1 6 Gen.ProcSrc.solve [] (Glob.ofP {})) =
      view (.done (Glob.ofP (Proc.solve (P 5 (1/100)) (failAt 3) someRefine {}))) ∧
    (view (run (C 5 (failAt 3) someRefine) 1 6 Gen.ProcSrc.solve [] (Glob.ofP {}))).map (fun v => (v.log, v.calls, v.nLocal)) =
      some ([Event.beforeStart, Event.endIteration [2], Event.endIteration [3], Event.endIteration [4],
             Event.exceptionPrinted, Event.methodStop false], 4, 7) := by decide +kernel

/-- the tie theorems instantiated at these runs -/
example := doGlobalIteration_src (C 5 (failAt 2)) 0 0 3 {}
example := solve_src (C 5 (failAt 3) someRefine) 0 {}

/-- a `Solve` tree at call depth 0 cannot call `self.DoGlobalIteration`: stuck (the hypothesis `d+1` of `solve_src` is needed) -/
example : view (run (C 5 F) 0 6 Gen.ProcSrc.solve [] (Glob.ofP {})) = none := by decide +kernel

/-- a statement outside the fragment is not silently accepted -/
example : view (run (C 5 F) 0 0 [.other "self.method.recalc = False"] [] (Glob.ofP {})) = none ∧
    view (run (C 5 F) 0 0 [.call [] "self.method.RenewSearchData" ["oldpoint", "newpoint"]] [] (Glob.ofP {})) = none ∧
    view (run (C 5 F) 0 0 Gen.ProcSrc.doLocalRefinement [("number", 1)] (Glob.ofP {})) = none := by decide +kernel

/-! ### seeded edits of the source are NOT equal to the model -/

/-- `DoGlobalIteration` with `UpdateOptimum` and `RenewSearchData` swapped -/
def dgiSwapped : List Stmt :=
  [
    .assign "savedNewPoints" "[]",
    .forRange "_" "number" [
      .ite "self.__first_iteration is True" [
        .forEach "listener" "self.__listeners" [
          .call [] "listener.BeforeMethodStart" ["self.method"]],
        .call [] "self.method.FirstIteration" [],
        .call [] "savedNewPoints.append" ["self.searchData.GetLastItem()"],
        .assign "self.__first_iteration" "False"] [
        .call ["newpoint", "oldpoint"] "self.method.CalculateIterationPoint" [],
        .call [] "savedNewPoints.append" ["newpoint"],
        .call [] "self.method.CalculateFunctionals" ["newpoint"],
        .call [] "self.method.RenewSearchData" ["newpoint", "oldpoint"],
        .call [] "self.method.UpdateOptimum" ["newpoint"],
        .call [] "self.method.FinalizeIteration" []]],
    .forEach "listener" "self.__listeners" [
      .call [] "listener.OnEndIteration" ["savedNewPoints", "self.GetResults()"]]]

/-- **the tie is sensitive to the order `UpdateOptimum`; `RenewSearchData`**: on the swapped tree the interpreter is not stuck,
and its result differs from the model (the second trial improves the optimum, and the characteristics of the two new intervals
are computed with the stale `Z`: `13/24`, `625/2304` instead of `1/2`, `529/2304`) -/
theorem swapped_not_model :
    run (C 5 F) 0 0 dgiSwapped [("number", 2)] (Glob.ofP {}) ≠ POut.ofRes (Proc.doGlobalIteration (P 5 (1/100)) F 2 {} []) := by
  intro h
  have h' := congrArg (fun o => (view o).map (·.items)) h
  revert h'
  decide +kernel

example : (view (run (C 5 F) 0 0 dgiSwapped [("number", 2)] (Glob.ofP {}))).map (·.items) =
    some (some [(0, none), (3, some (13/24)), (2, some (625/2304)), (1, some 1)]) := by decide +kernel

/-- `DoGlobalIteration` without the reset of `__first_iteration` (a stale flag) -/
def dgiStaleFlag : List Stmt :=
  [
    .assign "savedNewPoints" "[]",
    .forRange "_" "number" [
      .ite "self.__first_iteration is True" [
        .forEach "listener" "self.__listeners" [
          .call [] "listener.BeforeMethodStart" ["self.method"]],
        .call [] "self.method.FirstIteration" [],
        .call [] "savedNewPoints.append" ["self.searchData.GetLastItem()"]] [
        .call ["newpoint", "oldpoint"] "self.method.CalculateIterationPoint" [],
        .call [] "savedNewPoints.append" ["newpoint"],
        .call [] "self.method.CalculateFunctionals" ["newpoint"],
        .call [] "self.method.UpdateOptimum" ["newpoint"],
        .call [] "self.method.RenewSearchData" ["newpoint", "oldpoint"],
        .call [] "self.method.FinalizeIteration" []]],
    .forEach "listener" "self.__listeners" [
      .call [] "listener.OnEndIteration" ["savedNewPoints", "self.GetResults()"]]]

/-- **the flag is a field of its own**: without `self.__first_iteration = False` the second pass takes the first-iteration
branch again (a second `BeforeMethodStart` round, then `FirstIteration` on a started method, which the model does not describe) -/
theorem staleFlag_not_model :
    run (C 5 F) 0 0 dgiStaleFlag [("number", 2)] (Glob.ofP {}) ≠ POut.ofRes (Proc.doGlobalIteration (P 5 (1/100)) F 2 {} []) := by
  intro h
  have h' := congrArg (fun o => (view o).isSome) h
  revert h'
  decide +kernel

/-- `Solve` with the `while` loop OUTSIDE the `try` (the `try` inside the loop body) -/
def solveWhileOutside : List Stmt :=
  [
    .call ["startTime"] "datetime.now" [],
    .while "not self.method.CheckStopCondition()" [
      .tryExcept [
        .call [] "self.DoGlobalIteration" []] "BaseException" [
        .call [] "print" ["'Exception was thrown'"]]],
    .ite "self.parameters.refineSolution" [
      .call [] "self.DoLocalRefinement" ["-1"]] [],
    .call ["result"] "self.GetResults" [],
    .call ["result.solvingTime"] "(datetime.now() - startTime).total_seconds" [],
    .forEach "listener" "self.__listeners" [
      .call ["status"] "self.method.CheckStopCondition" [],
      .call [] "listener.OnMethodStop" ["self.searchData", "self.GetResults()", "status"]],
    .ret "result"]

/-- **the tie is sensitive to the nesting of `while` and `try`**: with the loop outside, the search goes on after the
exception (objective raising at its 4th call only): two more trials, status `true` -/
theorem whileOutside_not_model :
    run (C 5 (failAt 3)) 1 6 solveWhileOutside [] (Glob.ofP {}) ≠ .done (Glob.ofP (Proc.solve (P 5 (1/100)) (failAt 3) noRefine {})) := by
  intro h
  have h' := congrArg (fun o => (view o).map (·.log)) h
  revert h'
  decide +kernel

example : (view (run (C 5 (failAt 3)) 1 6 solveWhileOutside [] (Glob.ofP {}))).map (·.log) =
    some [Event.beforeStart, Event.endIteration [2], Event.endIteration [3], Event.endIteration [4], Event.exceptionPrinted,
          Event.endIteration [5], Event.endIteration [6], Event.methodStop true] := by decide +kernel

/-- `Solve` with the first `DoGlobalIteration` moved out of the `try` -/
def solveFirstOutside : List Stmt :=
  [
    .call ["startTime"] "datetime.now" [],
    .call [] "self.DoGlobalIteration" [],
    .tryExcept [
      .while "not self.method.CheckStopCondition()" [
        .call [] "self.DoGlobalIteration" []]] "BaseException" [
      .call [] "print" ["'Exception was thrown'"]],
    .ite "self.parameters.refineSolution" [
      .call [] "self.DoLocalRefinement" ["-1"]] [],
    .call ["result"] "self.GetResults" [],
    .call ["result.solvingTime"] "(datetime.now() - startTime).total_seconds" [],
    .forEach "listener" "self.__listeners" [
      .call ["status"] "self.method.CheckStopCondition" [],
      .call [] "listener.OnMethodStop" ["self.searchData", "self.GetResults()", "status"]],
    .ret "result"]

/-- **the tie is sensitive to what is inside the `try`**: an objective raising at its first call makes this `Solve` raise
(no printed line, no `OnMethodStop`), whereas the model (and the real `Solve`) returns -/
theorem firstOutside_not_model :
    run (C 5 (failAt 0)) 1 6 solveFirstOutside [] (Glob.ofP {}) ≠ .done (Glob.ofP (Proc.solve (P 5 (1/100)) (failAt 0) noRefine {})) := by
  intro h
  have h' := congrArg (fun o => (view o).map (·.exc)) h
  revert h'
  decide +kernel

example : (view (run (C 5 (failAt 0)) 1 6 solveFirstOutside [] (Glob.ofP {}))).map (fun v => (v.log, v.exc)) =
    some ([Event.beforeStart], some Raise.objective) := by decide +kernel

end ProcInterp.Examples
