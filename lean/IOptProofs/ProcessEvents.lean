import IOptProofs.ProcessBatch
/-!
# The event log (listener notifications)
-/

set_option linter.unusedSectionVars false

namespace Proc

/-- the trial ids carried by the `OnEndIteration` notifications of a log, concatenated in order -/
def idsOf : List Event → List Nat
  | [] => []
  | e :: t => (match e with | .endIteration ids => ids | _ => []) ++ idsOf t

theorem idsOf_append (l1 l2 : List Event) : idsOf (l1 ++ l2) = idsOf l1 ++ idsOf l2 := by
  induction l1 with
  | nil => rfl
  | cons e t ih => simp [idsOf, ih]

theorem idsOf_endEach (ids : List Nat) : idsOf (endEach ids) = ids := by
  induction ids with
  | nil => rfl
  | cons i t ih =>
    have : endEach (i :: t) = Event.endIteration [i] :: endEach t := rfl
    rw [this]; simp only [idsOf]; rw [ih]; rfl

/-- `OnEndIteration` notification? -/
def Event.isEnd : Event → Bool
  | .endIteration _ => true
  | _ => false

theorem idsOf_of_no_end {l : List Event} (h : ∀ e ∈ l, e.isEnd = false) : idsOf l = [] := by
  induction l with
  | nil => rfl
  | cons e t ih =>
    have he := h e List.mem_cons_self
    have := ih (fun e' he' => h e' (List.mem_cons_of_mem _ he'))
    cases e <;> simp_all [idsOf, Event.isEnd]

/-- every `OnEndIteration` in the log comes after a `BeforeMethodStart` -/
def Ordered (log : List Event) : Prop :=
  ∀ n ids, log[n]? = some (Event.endIteration ids) → Event.beforeStart ∈ log.take n

theorem Ordered.nil : Ordered [] := by intro n ids h; simp at h

theorem Ordered.append {l l2 : List Event} (h : Ordered l)
    (h2 : (∃ e ∈ l2, e.isEnd = true) → Event.beforeStart ∈ l) : Ordered (l ++ l2) := by
  intro n ids hn
  rcases Nat.lt_or_ge n l.length with hlt | hge
  · rw [List.getElem?_append_left hlt] at hn
    have := h n ids hn
    rw [List.take_append_of_le_length (Nat.le_of_lt hlt)]
    exact this
  · rw [List.getElem?_append_right hge] at hn
    have hmem : Event.endIteration ids ∈ l2 := List.mem_of_getElem? hn
    have hb := h2 ⟨_, hmem, rfl⟩
    rw [List.take_append, List.take_of_length_le hge]
    exact List.mem_append_left _ hb

end Proc

section
variable {α : Type} [Add α] [Sub α] [Mul α] [Div α] [Neg α] [LT α] [LE α]
  [DecidableLT α] [DecidableLE α] [OfNat α 0] [OfNat α 1] [OfNat α 2] [OfNat α 4] [Fns α]

namespace Proc
open AGP AGP.Ctl

theorem firstMark_of_none {ps : PState α} {a : Nat} (hm : ps.m = none) (ha : 0 < a) : firstMark ps a = [Event.beforeStart] := by
  simp [firstMark, hm, ha]

theorem firstMark_of_some {ps : PState α} {a : Nat} (hm : ps.m ≠ none) : firstMark ps a = [] := by
  cases h : ps.m with
  | none => exact absurd h hm
  | some s => simp [firstMark, h]

theorem firstMark_zero (ps : PState α) : firstMark ps 0 = [] := by simp [firstMark]

theorem firstMark_pos (ps : PState α) {a : Nat} (ha : 0 < a) : firstMark ps a = firstMark ps 1 := by
  simp [firstMark, ha]

theorem idsOf_firstMark (ps : PState α) (a : Nat) : idsOf (firstMark ps a) = [] := by
  rcases firstMark_cases ps a with h | h <;> rw [h] <;> rfl

/-- the log after a raising batch -/
theorem iterN_error_log {p : Params α} {f : Nat → List α → Option α} {k : Nat} {ps pe : PState α} {e : Raise}
    (h : iterN p f k ps = .error (pe, e)) : pe.log = ps.log ++ firstMark ps 1 := by
  obtain ⟨j, psj, ids, -, hj, he⟩ := iterN_error h
  have hl := iterN_log hj
  obtain ⟨-, -, hh⟩ := oneIteration_error he
  cases hm : ps.m with
  | some s =>
    have hm' : ps.m ≠ none := by simp [hm]
    have hmj := (iterN_ok_some hm' hj)
    rw [(oneIteration_error_some hmj.1 he).2, hmj.2, firstMark_of_some hm']; simp
  | none =>
    rcases Nat.eq_zero_or_pos j with rfl | hpos
    · simp only [iterN, Except.ok.injEq, Prod.mk.injEq] at hj
      obtain ⟨rfl, -⟩ := hj
      rcases hh with ⟨-, -, pt, -, ⟨-, -, -, hl'⟩ | ⟨s, pr, hms, -⟩⟩ | ⟨-, -, -, s, s', hms, -⟩
      · rw [hl', firstMark_of_none hm (by omega)]
      · rw [hm] at hms; cases hms
      · rw [hm] at hms; cases hms
    · have hmj : psj.m ≠ none := by
        intro h0
        have h1 := (iterN_counters hj).1
        have : psj.iters = 0 := by simp [PState.iters, h0]
        have : ps.iters = 0 := by simp [PState.iters, hm]
        omega
      rw [(oneIteration_error_some hmj he).2, hl, firstMark_pos ps hpos]

theorem oneIteration_error_none {p : Params α} {f : Nat → List α → Option α} {ps pe : PState α} {e : Raise}
    (hm : ps.m = none) (h : oneIteration p f ps = .error (pe, e)) :
    e = .objective ∧ pe.m = none ∧ pe.calls = ps.calls + 1 := by
  obtain ⟨-, -, hh⟩ := oneIteration_error h
  rcases hh with ⟨he, hc, pt, -, ⟨-, -, hm', -⟩ | ⟨s, pr, hms, -⟩⟩ | ⟨-, -, -, s, s', hms, -⟩
  · exact ⟨he, hm', hc⟩
  · rw [hm] at hms; cases hms
  · rw [hm] at hms; cases hms

theorem m_ne_none_of_iters {ps : PState α} (h : 0 < ps.iters) : ps.m ≠ none := by
  intro h0; simp [PState.iters, h0] at h

theorem iterN_m_ne_none {p : Params α} {f : Nat → List α → Option α} {k : Nat} {ps ps' : PState α} {ids : List Nat}
    (h : iterN p f k ps = .ok (ps', ids)) (hk : 0 < k) : ps'.m ≠ none :=
  m_ne_none_of_iters (by rw [(iterN_counters h).1]; omega)

/-- Abstract description of what one user operation does to the log and the counters.
`R` = "the operation is a `DoGlobalIteration` that raised" (its new trials are then reported by no notification). -/
def Step (R : Prop) (ps ps' : PState α) : Prop :=
  ∃ (a j j' : Nat) (rest : List Event),
    ps'.log = ps.log ++ firstMark ps a ++ rest ∧
    Event.beforeStart ∉ rest ∧
    idsOf rest = List.range' ps.nextId j' ∧
    (j' = j ∨ (j' = 0 ∧ R)) ∧
    ((∃ e ∈ rest, e.isEnd = true) → 0 < a) ∧
    ps'.nTrials = ps.nTrials + j ∧
    ps'.evals.length = ps.evals.length + j ∧
    ps.calls + j ≤ ps'.calls ∧
    (ps'.m = none → ps.m = none ∧ j = 0) ∧
    (0 < a → ps.m = none → ps'.m = none → ps.calls + 1 ≤ ps'.calls) ∧
    (a = 0 → ps'.calls = ps.calls) ∧
    (0 < j → 0 < a) ∧
    (ps.m = none → ps'.m ≠ none → 0 < j)

/-- what a `DoGlobalIteration(k)` that does not raise appends to the log: `BeforeMethodStart` if it made the first
iteration ever, then exactly one `OnEndIteration` carrying the `k` new trial ids, in order -/
theorem dgi_events_ok {p : Params α} {f : Nat → List α → Option α} {k : Nat} {ps : PState α}
    (h : (doGlobalIteration p f k ps []).raised = none) :
    ∃ ps', iterN p f k ps = .ok (ps', List.range' ps.nextId k) ∧
      (doGlobalIteration p f k ps []).s = ps'.appendLog [Event.endIteration (List.range' ps.nextId k)] ∧
      (doGlobalIteration p f k ps []).s.log =
        ps.log ++ firstMark ps k ++ [Event.endIteration (List.range' ps.nextId k)] := by
  obtain ⟨ps', ids, hi, hs⟩ := doGlobalIteration_ok h
  have hids := (iterN_ids_evals hi).1
  subst hids
  refine ⟨ps', hi, by rw [hs]; rfl, ?_⟩
  rw [hs]; simp [iterN_log hi]

/-- a `DoGlobalIteration` that raises appends no `OnEndIteration` (only `BeforeMethodStart` if it attempted the first iteration ever) -/
theorem dgi_events_raise {p : Params α} {f : Nat → List α → Option α} {k : Nat} {ps : PState α} {e : Raise}
    (h : (doGlobalIteration p f k ps []).raised = some e) :
    (doGlobalIteration p f k ps []).s.log = ps.log ++ firstMark ps 1 :=
  iterN_error_log (doGlobalIteration_raised h)

theorem dgi_step {p : Params α} {f : Nat → List α → Option α} {k : Nat} (hk : 1 ≤ k) (ps : PState α) :
    Step ((doGlobalIteration p f k ps []).raised ≠ none) ps (doGlobalIteration p f k ps []).s := by
  cases hr : (doGlobalIteration p f k ps []).raised with
  | none =>
    obtain ⟨ps', hi, hs, hl⟩ := dgi_events_ok hr
    obtain ⟨c1, c2, c3, c4, -⟩ := iterN_counters hi
    have hm' : ps'.m ≠ none := iterN_m_ne_none hi (by omega)
    refine ⟨k, k, k, [Event.endIteration (List.range' ps.nextId k)], hl, by simp, by simp [idsOf], .inl rfl,
      fun _ => by omega, ?_, ?_, ?_, ?_, ?_, ?_, fun h => h, fun _ _ => by omega⟩
    · rw [hs]; exact c2
    · rw [hs]; exact c4
    · rw [hs]; exact Nat.le_of_eq c3.symm
    · rw [hs]; intro h; exact absurd h hm'
    · rw [hs]; intro _ _ h; exact absurd h hm'
    · intro h; omega
  | some e =>
    have hl := dgi_events_raise hr
    have hi := doGlobalIteration_raised hr
    obtain ⟨j, psj, ids, hjk, hj, he⟩ := iterN_error hi
    obtain ⟨c1, c2, c3, c4, -⟩ := iterN_counters hj
    obtain ⟨e1, e2, -, e4, -, e5, -⟩ := oneIteration_error_counters he
    have hnone : (doGlobalIteration p f k ps []).s.m = none → ps.m = none ∧ j = 0 ∧
        (doGlobalIteration p f k ps []).s.calls = ps.calls + 1 := by
      intro h0
      have hpsj : psj.m = none := by
        cases hmj : psj.m with
        | none => rfl
        | some s => exact absurd h0 (oneIteration_error_some (by simp [hmj]) he).1
      have hj0 : j = 0 := by
        rcases Nat.eq_zero_or_pos j with h | h
        · exact h
        · exact absurd hpsj (iterN_m_ne_none hj h)
      subst hj0
      simp only [iterN, Except.ok.injEq, Prod.mk.injEq] at hj
      obtain ⟨rfl, -⟩ := hj
      exact ⟨hpsj, rfl, (oneIteration_error_none hpsj he).2.2⟩
    refine ⟨1, j, 0, [], by simpa using hl, by simp, by simp [idsOf], .inr ⟨rfl, by simp⟩, by simp, ?_, ?_, ?_, ?_, ?_,
      by omega, fun _ => by omega, ?_⟩
    · rw [e2, c2]
    · rw [e4, c4]
    · rw [e5, c3]; omega
    · intro h0; exact ⟨(hnone h0).1, (hnone h0).2.1⟩
    · intro _ _ h0; rw [(hnone h0).2.2]; omega
    · intro hm hm'
      rcases Nat.eq_zero_or_pos j with h | h
      · subst h
        simp only [iterN, Except.ok.injEq, Prod.mk.injEq] at hj
        obtain ⟨rfl, -⟩ := hj
        exact absurd (oneIteration_error_none hm he).2.1 hm'
      · exact h

/-- what `Solve` appends to the log: `BeforeMethodStart` if it made (or attempted) the first iteration ever, one
`OnEndIteration` per completed iteration with that single new trial id, the printed line if the loop was ended by
an exception, and finally exactly one `OnMethodStop` -/
theorem solve_events (p : Params α) (f : Nat → List α → Option α) (refine : PState α → Option (LocalResult α)) (ps : PState α) :
    ∃ (j : Nat) (X : PState α) (exc : List Event) (a : Nat),
      solve p f refine ps = (refineStep refine X).appendLog [Event.methodStop (stopNow p X)] ∧
      (solve p f refine ps).log = ps.log ++ firstMark ps a ++ endEach (List.range' ps.nextId j) ++ exc ++
        [Event.methodStop (stopNow p X)] ∧
      ((exc = [] ∧ a = j ∧ (solveLoop p f (p.itersLimit + 1) ps).2 = false ∧ stopNow p X = true ∧
          ∃ psj, iterN p f j ps = .ok (psj, List.range' ps.nextId j) ∧ X.core = psj.core) ∨
       (exc = [Event.exceptionPrinted] ∧ a = j + 1 ∧ (solveLoop p f (p.itersLimit + 1) ps).2 = true ∧
          ∃ psj pe e, iterN p f j ps = .ok (psj, List.range' ps.nextId j) ∧ oneIteration p f psj = .error (pe, e) ∧
            X.core = pe.core)) := by
  have hfuel : remaining p ps < p.itersLimit + 1 := Nat.lt_succ_of_le (remaining_le p _)
  obtain ⟨j, psj, ids, hpre, hcase⟩ := solveLoop_spec p f _ ps hfuel
  have hids := (iterN_ids_evals hpre.run).1
  subst hids
  have hlj := iterN_log hpre.run
  have hsolve : ∀ X b, solveLoop p f (p.itersLimit + 1) ps = (X, b) →
      solve p f refine ps = (refineStep refine X).appendLog [Event.methodStop (stopNow p X)] := by
    intro X b hX
    rw [solve_eq, hX]; simp only []
    rw [(refineStep_fields (p := p) refine X).2.2.2.2.2.2.2.1]
  rcases hcase with ⟨hst, -, X, hsl, hc, hl⟩ | ⟨hst, pe, e, X, herr, -, hsl, hc, hl⟩
  · refine ⟨j, X, [], j, hsolve X _ hsl, ?_, .inl ⟨rfl, rfl, by rw [hsl], by rw [stopNow_congr hc]; exact hst, psj, hpre.run, hc⟩⟩
    rw [hsolve X _ hsl]
    simp only [PState.appendLog_log, (refineStep_fields (p := p) refine X).1, hl, hlj, List.append_nil]
  · have herrN : iterN p f (j + 1) ps = .error (pe, e) := by rw [iterN_succ', hpre.run]; simp only []; rw [herr]
    have hle := iterN_error_log herrN
    refine ⟨j, X, [Event.exceptionPrinted], j + 1, hsolve X _ hsl, ?_,
      .inr ⟨rfl, rfl, by rw [hsl], psj, pe, e, hpre.run, herr, hc⟩⟩
    rw [hsolve X _ hsl]
    simp only [PState.appendLog_log, (refineStep_fields (p := p) refine X).1, hl, hle]
    rw [firstMark_pos ps (Nat.succ_pos j)]

theorem solve_step (p : Params α) (f : Nat → List α → Option α) (refine : PState α → Option (LocalResult α)) (ps : PState α) :
    Step False ps (solve p f refine ps) := by
  obtain ⟨j, X, exc, a, hs, hl, hcase⟩ := solve_events p f refine ps
  have hmX : (solve p f refine ps).m = none ↔ X.m = none := by
    rw [hs]; exact (refineStep_fields (p := p) refine X).2.2.2.2.2.2.2.2
  have hnt : (solve p f refine ps).nTrials = X.nTrials := by
    rw [hs]; exact (refineStep_fields (p := p) refine X).2.2.2.2.1
  have hev : (solve p f refine ps).evals = X.evals := by
    rw [hs]; exact (refineStep_fields (p := p) refine X).2.1
  have hca : (solve p f refine ps).calls = X.calls := by
    rw [hs]; exact (refineStep_fields (p := p) refine X).2.2.1
  have hends : (∃ e ∈ endEach (List.range' ps.nextId j) ++ exc ++ [Event.methodStop (stopNow p X)], e.isEnd = true) → 0 < j := by
    rintro ⟨e, he, hend⟩
    rcases Nat.eq_zero_or_pos j with rfl | h
    · rcases hcase with ⟨rfl, -⟩ | ⟨rfl, -⟩
      · simp [endEach] at he; subst he; simp [Event.isEnd] at hend
      · simp [endEach] at he
        rcases he with rfl | rfl <;> simp [Event.isEnd] at hend
    · exact h
  have hnb : Event.beforeStart ∉ endEach (List.range' ps.nextId j) ++ exc ++ [Event.methodStop (stopNow p X)] := by
    rcases hcase with ⟨rfl, -⟩ | ⟨rfl, -⟩ <;> simp [endEach]
  have hidsOf : idsOf (endEach (List.range' ps.nextId j) ++ exc ++ [Event.methodStop (stopNow p X)]) = List.range' ps.nextId j := by
    rcases hcase with ⟨rfl, -⟩ | ⟨rfl, -⟩ <;> simp [idsOf_append, idsOf_endEach, idsOf]
  rcases hcase with ⟨rfl, rfl, -, -, psj, hj, hc⟩ | ⟨rfl, rfl, -, psj, pe, e, hj, herr, hc⟩
  · obtain ⟨c1, c2, c3, c4, -⟩ := iterN_counters hj
    obtain ⟨k1, k2, -, k4, -⟩ := PState.core_eq_iff.1 hc
    have hXn : X.nTrials = psj.nTrials := by simp [PState.nTrials, k1]
    refine ⟨a, a, a, _, by rw [hl]; simp, hnb, hidsOf, .inl rfl, fun h => hends h, ?_, ?_, ?_, ?_, ?_, ?_, fun h => h, ?_⟩
    · rw [hnt, hXn, c2]
    · rw [hev, k2, c4]
    · rw [hca, k4, c3]; omega
    · intro h0
      rw [hmX, k1] at h0
      rcases Nat.eq_zero_or_pos a with rfl | h
      · simp only [iterN, Except.ok.injEq, Prod.mk.injEq] at hj
        obtain ⟨rfl, -⟩ := hj
        exact ⟨h0, rfl⟩
      · exact absurd h0 (iterN_m_ne_none hj h)
    · intro ha _ h0
      rw [hmX, k1] at h0
      exact absurd h0 (iterN_m_ne_none hj ha)
    · intro ha; subst ha
      simp only [iterN, Except.ok.injEq, Prod.mk.injEq] at hj
      obtain ⟨rfl, -⟩ := hj
      rw [hca, k4]
    · intro hm hm'
      rw [Ne, hmX, k1] at hm'
      rcases Nat.eq_zero_or_pos a with rfl | h
      · simp only [iterN, Except.ok.injEq, Prod.mk.injEq] at hj
        obtain ⟨rfl, -⟩ := hj
        exact absurd hm hm'
      · exact h
  · obtain ⟨c1, c2, c3, c4, -⟩ := iterN_counters hj
    obtain ⟨e1, e2, -, e4, -, e5, -⟩ := oneIteration_error_counters herr
    obtain ⟨k1, k2, -, k4, -⟩ := PState.core_eq_iff.1 hc
    have hXn : X.nTrials = pe.nTrials := by simp [PState.nTrials, k1]
    have hnone : X.m = none → ps.m = none ∧ j = 0 ∧ X.calls = ps.calls + 1 := by
      intro h0
      rw [k1] at h0
      have hpsj : psj.m = none := by
        cases hmj : psj.m with
        | none => rfl
        | some s => exact absurd h0 (oneIteration_error_some (by simp [hmj]) herr).1
      have hj0 : j = 0 := by
        rcases Nat.eq_zero_or_pos j with h | h
        · exact h
        · exact absurd hpsj (iterN_m_ne_none hj h)
      subst hj0
      simp only [iterN, Except.ok.injEq, Prod.mk.injEq] at hj
      obtain ⟨rfl, -⟩ := hj
      exact ⟨hpsj, rfl, by rw [k4]; exact (oneIteration_error_none hpsj herr).2.2⟩
    refine ⟨j + 1, j, j, _, by rw [hl]; simp, hnb, hidsOf, .inl rfl, fun _ => Nat.succ_pos j, ?_, ?_, ?_, ?_, ?_,
      fun h => by omega, fun _ => Nat.succ_pos j, ?_⟩
    · rw [hnt, hXn, e2, c2]
    · rw [hev, k2, e4, c4]
    · rw [hca, k4, e5, c3]; omega
    · intro h0; rw [hmX] at h0; exact ⟨(hnone h0).1, (hnone h0).2.1⟩
    · intro _ _ h0; rw [hmX] at h0; rw [hca, (hnone h0).2.2]; omega
    · intro hm hm'
      rw [Ne, hmX, k1] at hm'
      rcases Nat.eq_zero_or_pos j with h | h
      · subst h
        simp only [iterN, Except.ok.injEq, Prod.mk.injEq] at hj
        obtain ⟨rfl, -⟩ := hj
        exact absurd (oneIteration_error_none hm herr).2.1 hm'
      · exact h

/-! ### invariants of the log along any sequence of operations -/

/-- what holds of the log and the counters after any sequence of operations on a fresh solver -/
structure EvInv (ps : PState α) : Prop where
  cons : Consistent ps
  /-- once the first iteration is done, `BeforeMethodStart` has been notified -/
  started : ps.m ≠ none → Event.beforeStart ∈ ps.log
  ordered : Ordered ps.log
  /-- the reported ids are among the ids of the evaluated trials, in order -/
  ids : (idsOf ps.log).Sublist (List.range' 2 ps.nTrials)
  /-- `BeforeMethodStart` is repeated only after a failed first evaluation -/
  count : ps.log.count Event.beforeStart + ps.evals.length ≤ ps.calls + (if ps.m.isNone then 0 else 1)
  /-- no call of the objective before `BeforeMethodStart` -/
  called : ps.calls = 0 ∨ Event.beforeStart ∈ ps.log
  pos : ps.m ≠ none → 1 ≤ ps.nTrials

theorem EvInv.fresh : EvInv ({} : PState α) where
  cons := Consistent.fresh
  started := by intro h; exact absurd rfl h
  ordered := Ordered.nil
  ids := by show ([] : List Nat).Sublist _; exact List.nil_sublist _
  count := by show 0 + 0 ≤ 0 + 0; omega
  called := .inl rfl
  pos := by intro h; exact absurd rfl h

theorem count_firstMark (ps : PState α) (a : Nat) :
    (firstMark ps a).count Event.beforeStart = if ps.m.isNone && decide (0 < a) then 1 else 0 := by
  unfold firstMark; split <;> simp

theorem EvInv.step {R : Prop} {ps ps' : PState α} (h : EvInv ps) (hc' : Consistent ps') (hs : Step R ps ps') : EvInv ps' := by
  obtain ⟨a, j, j', rest, s1, s2, s3, s4, s5, s6, s7, s8, s9, s10, s11, s12, s14⟩ := hs
  have hbs : (0 < a ∨ ps.m ≠ none) → Event.beforeStart ∈ ps.log ++ firstMark ps a := by
    intro hh
    cases hm : ps.m with
    | none =>
      rcases hh with ha | hne
      · rw [firstMark_of_none hm ha]; simp
      · exact absurd hm hne
    | some s => exact List.mem_append_left _ (h.started (by simp [hm]))
  constructor
  · exact hc'
  · intro hm'
    rw [s1]
    apply List.mem_append_left
    cases hm : ps.m with
    | none => exact hbs (.inl (s12 (s14 hm hm')))
    | some s => exact hbs (.inr (by simp [hm]))
  · rw [s1]
    apply Ordered.append
    · apply h.ordered.append
      rintro ⟨e, he, hend⟩
      rcases firstMark_cases ps a with h0 | h0 <;> rw [h0] at he <;> simp at he
      subst he; simp [Event.isEnd] at hend
    · intro hend; exact hbs (.inl (s5 hend))
  · rw [s1, idsOf_append, idsOf_append, idsOf_firstMark, s3, s6, h.cons.nextId, List.append_nil]
    have hsplit : List.range' 2 (ps.nTrials + j) = List.range' 2 ps.nTrials ++ List.range' (ps.nTrials + 2) j := by
      rw [Nat.add_comm ps.nTrials 2]; exact (List.range'_append_1 (s := 2) (m := ps.nTrials) (n := j)).symm
    rw [hsplit]
    rcases s4 with rfl | ⟨rfl, -⟩
    · exact List.Sublist.append h.ids (List.Sublist.refl _)
    · simp only [List.range'_zero, List.append_nil]
      exact h.ids.trans (List.sublist_append_left _ _)
  · rw [s1, List.count_append, List.count_append, List.count_eq_zero_of_not_mem s2, count_firstMark, s7]
    have hcount := h.count
    cases hm : ps.m with
    | some s =>
      have hm' : ps'.m ≠ none := fun h0 => by have := (s9 h0).1; rw [hm] at this; cases this
      obtain ⟨s', hs'⟩ : ∃ s', ps'.m = some s' := by
        cases h' : ps'.m with
        | none => exact absurd h' hm'
        | some x => exact ⟨x, rfl⟩
      rw [hm] at hcount
      rw [hs']
      have e1 : (if (some s).isNone = true then 0 else 1) = 1 := rfl
      have e2 : (if (some s').isNone = true then 0 else 1) = 1 := rfl
      have e3 : (if ((some s).isNone && decide (0 < a)) = true then 1 else 0) = 0 := rfl
      rw [e1] at hcount
      rw [e2, e3]
      omega
    | none =>
      rw [hm] at hcount
      have e1 : (if (none : Option (State α)).isNone = true then 0 else 1) = 0 := rfl
      rw [e1] at hcount
      rcases Nat.eq_zero_or_pos a with rfl | ha
      · have hj : j = 0 := by
          rcases Nat.eq_zero_or_pos j with h | h
          · exact h
          · exact absurd (s12 h) (Nat.lt_irrefl 0)
        have hcalls := s11 rfl
        have e3 : (if ((none : Option (State α)).isNone && decide (0 < 0)) = true then 1 else 0) = 0 := rfl
        rw [e3]
        cases hm' : ps'.m with
        | none =>
          have e2 : (if (none : Option (State α)).isNone = true then 0 else 1) = 0 := rfl
          rw [e2]; omega
        | some s' => exact absurd (s14 hm (by simp [hm'])) (by omega)
      · have e3 : (if ((none : Option (State α)).isNone && decide (0 < a)) = true then 1 else 0) = 1 := by simp [ha]
        rw [e3]
        cases hm' : ps'.m with
        | none =>
          have h10 := s10 ha hm hm'
          have h9 := (s9 hm').2
          have e2 : (if (none : Option (State α)).isNone = true then 0 else 1) = 0 := rfl
          rw [e2]; omega
        | some s' =>
          have e2 : (if (some s').isNone = true then 0 else 1) = 1 := rfl
          rw [e2]; omega
  · rcases Nat.eq_zero_or_pos ps'.calls with h0 | hpos
    · exact .inl h0
    · right
      rw [s1]
      apply List.mem_append_left
      rcases h.called with hc0 | hmem
      · apply hbs
        left
        rcases Nat.eq_zero_or_pos a with rfl | ha
        · have := s11 rfl; omega
        · exact ha
      · exact List.mem_append_left _ hmem
  · intro hm'
    rw [s6]
    cases hm : ps.m with
    | none => have := s14 hm hm'; omega
    | some s => have := h.pos (by simp [hm]); omega

/-- if the operation was not a raising `DoGlobalIteration`, no trial id is lost -/
theorem ids_full_step {R : Prop} {ps ps' : PState α} (hc : Consistent ps)
    (hfull : idsOf ps.log = List.range' 2 ps.nTrials) (hs : Step R ps ps') (hR : ¬ R) :
    idsOf ps'.log = List.range' 2 ps'.nTrials := by
  obtain ⟨a, j, j', rest, s1, s2, s3, s4, s5, s6, -⟩ := hs
  rw [s1, idsOf_append, idsOf_append, idsOf_firstMark, s3, s6, hc.nextId, List.append_nil, hfull]
  rcases s4 with rfl | ⟨-, hr⟩
  · rw [Nat.add_comm ps.nTrials 2]; exact List.range'_append_1 (s := 2) (m := ps.nTrials) (n := j')
  · exact absurd hr hR

theorem Step.mono {R R' : Prop} {ps ps' : PState α} (h : Step R ps ps') (hR : R → R') : Step R' ps ps' := by
  obtain ⟨a, j, j', rest, s1, s2, s3, s4, s5⟩ := h
  refine ⟨a, j, j', rest, s1, s2, s3, ?_, s5⟩
  rcases s4 with h | ⟨h, r⟩
  · exact .inl h
  · exact .inr ⟨h, hR r⟩

/-- all batch sizes are at least 1 (`DoGlobalIteration(0)` on a fresh solver would notify `OnEndIteration([])`
without any `BeforeMethodStart`) -/
def OpsOK (ops : List Op) : Prop := ∀ k, Op.iter k ∈ ops → 1 ≤ k

/-- the operation is a `DoGlobalIteration` that raises -/
def iterRaises (p : Params α) (f : Nat → List α → Option α) (op : Op) (ps : PState α) : Prop :=
  ∃ k, op = Op.iter k ∧ (doGlobalIteration p f k ps []).raised ≠ none

/-- no `DoGlobalIteration` of the sequence raises (a raising `Solve` is allowed) -/
def NoIterRaise (p : Params α) (f : Nat → List α → Option α) (refine : PState α → Option (LocalResult α)) : List Op → PState α → Prop
  | [], _ => True
  | op :: ops, ps => ¬ iterRaises p f op ps ∧ NoIterRaise p f refine ops (runOp p f refine op ps)

theorem runOp_step {p : Params α} {f : Nat → List α → Option α} {refine : PState α → Option (LocalResult α)}
    (op : Op) (hk : ∀ k, op = Op.iter k → 1 ≤ k) (ps : PState α) :
    Step (iterRaises p f op ps) ps (runOp p f refine op ps) := by
  cases op with
  | iter k => exact (dgi_step (hk k rfl) ps).mono (fun h => ⟨k, rfl, h⟩)
  | solve => exact (solve_step p f refine ps).mono (fun h => h.elim)

theorem EvInv.runOps_pres {p : Params α} {f : Nat → List α → Option α} {refine : PState α → Option (LocalResult α)}
    {ps : PState α} (h : EvInv ps) (ops : List Op) (hops : OpsOK ops) : EvInv (runOps p f refine ops ps) := by
  induction ops generalizing ps with
  | nil => exact h
  | cons op ops ih =>
    simp only [runOps]
    apply ih
    · exact h.step (h.cons.runOp_pres op).1 (runOp_step op (fun k hk => hops k (by rw [hk]; exact List.mem_cons_self)) ps)
    · intro k hk; exact hops k (List.mem_cons_of_mem _ hk)

theorem ids_full_runOps {p : Params α} {f : Nat → List α → Option α} {refine : PState α → Option (LocalResult α)}
    {ps : PState α} (h : EvInv ps) (hfull : idsOf ps.log = List.range' 2 ps.nTrials)
    (ops : List Op) (hops : OpsOK ops) (hnr : NoIterRaise p f refine ops ps) :
    idsOf (runOps p f refine ops ps).log = List.range' 2 (runOps p f refine ops ps).nTrials := by
  induction ops generalizing ps with
  | nil => exact hfull
  | cons op ops ih =>
    simp only [runOps]
    have hstep := runOp_step (p := p) (f := f) (refine := refine) op
      (fun k hk => hops k (by rw [hk]; exact List.mem_cons_self)) ps
    apply ih
    · exact h.step (h.cons.runOp_pres op).1 hstep
    · exact ids_full_step h.cons hfull hstep hnr.1
    · intro k hk; exact hops k (List.mem_cons_of_mem _ hk)
    · exact hnr.2

end Proc
end
