import IOptProofs.S3Real
import Mathlib.Analysis.Complex.ExponentialBounds
import Mathlib.Tactic.GCongr
/-!
# StronginC3: soundness of the fixed-point enclosures of `e^{-s}` over ℝ
-/

namespace S3

@[simp] theorem forceNat_eq {α : Type} (n : Nat) (k : Nat → α) : forceNat n k = k n := by
  cases n <;> rfl

theorem ONE_cast : ((ONE : Nat) : ℝ) = 2 ^ 64 := by norm_num [ONE]
theorem U_cast : ((U : Nat) : ℝ) = 2 ^ 26 := by norm_num [U]

theorem shr_eq (n k : Nat) : Nat.shiftRight n k = n / 2 ^ k := Nat.shiftRight_eq_div_pow n k

theorem shr_le (n k : Nat) : ((Nat.shiftRight n k : Nat) : ℝ) ≤ (n : ℝ) / 2 ^ k := by
  rw [shr_eq]
  have := @Nat.cast_div_le ℝ _ _ _ n (2 ^ k)
  simpa using this

theorem le_shr_succ (n k : Nat) : (n : ℝ) / 2 ^ k ≤ ((Nat.add (Nat.shiftRight n k) 1 : Nat) : ℝ) := by
  rw [shr_eq]
  have hp : 0 < 2 ^ k := Nat.pos_of_ne_zero (by positivity)
  have h : n < 2 ^ k * (n / 2 ^ k + 1) := Nat.lt_mul_div_succ n hp
  have h' : (n : ℝ) < (2 : ℝ) ^ k * ((n / 2 ^ k + 1 : Nat) : ℝ) := by exact_mod_cast h
  show (n : ℝ) / 2 ^ k ≤ ((n / 2 ^ k + 1 : Nat) : ℝ)
  rw [div_le_iff₀ (by positivity)]
  linarith

theorem div_le_real (n d : Nat) : ((Nat.div n d : Nat) : ℝ) ≤ (n : ℝ) / d := by
  have := @Nat.cast_div_le ℝ _ _ _ n d
  exact this

theorem le_div_succ (n d : Nat) (hd : 0 < d) : (n : ℝ) / d ≤ ((Nat.add (Nat.div n d) 1 : Nat) : ℝ) := by
  have h : n < d * (n / d + 1) := Nat.lt_mul_div_succ n hd
  have h' : (n : ℝ) < (d : ℝ) * ((n / d + 1 : Nat) : ℝ) := by exact_mod_cast h
  have hdR : (0 : ℝ) < d := by exact_mod_cast hd
  show (n : ℝ) / d ≤ ((n / d + 1 : Nat) : ℝ)
  rw [div_le_iff₀ hdR]
  linarith

/-- squarings rounded up keep an upper bound -/
theorem sqUp_sound : ∀ (k y : Nat) (c : ℝ), 0 ≤ c → c * 2 ^ 64 ≤ y → c ^ (2 ^ k) * 2 ^ 64 ≤ (sqUp k y : ℝ)
  | 0, y, c, _, h => by simpa [sqUp] using h
  | k + 1, y, c, hc, h => by
    simp only [sqUp, forceNat_eq]
    have hstep : c ^ 2 * 2 ^ 64 ≤ ((Nat.add (Nat.shiftRight (Nat.mul y y) 64) 1 : Nat) : ℝ) := by
      refine le_trans ?_ (le_shr_succ (Nat.mul y y) 64)
      have hy : (0 : ℝ) ≤ y := Nat.cast_nonneg _
      have h2 : (c * 2 ^ 64) ^ 2 ≤ (y : ℝ) ^ 2 := pow_le_pow_left₀ (by positivity) h 2
      rw [le_div_iff₀ (by positivity)]
      show c ^ 2 * 2 ^ 64 * 2 ^ 64 ≤ ((y * y : Nat) : ℝ)
      push_cast
      nlinarith
    have := sqUp_sound k _ (c ^ 2) (by positivity) hstep
    rw [← pow_mul, ← pow_succ'] at this
    exact this

/-- squarings rounded down keep a lower bound -/
theorem sqDn_sound : ∀ (k y : Nat) (c : ℝ), (y : ℝ) ≤ c * 2 ^ 64 → (sqDn k y : ℝ) ≤ c ^ (2 ^ k) * 2 ^ 64
  | 0, y, c, h => by simpa [sqDn] using h
  | k + 1, y, c, h => by
    simp only [sqDn, forceNat_eq]
    have hstep : ((Nat.shiftRight (Nat.mul y y) 64 : Nat) : ℝ) ≤ c ^ 2 * 2 ^ 64 := by
      refine le_trans (shr_le (Nat.mul y y) 64) ?_
      have hy : (0 : ℝ) ≤ y := Nat.cast_nonneg _
      have h2 : (y : ℝ) ^ 2 ≤ (c * 2 ^ 64) ^ 2 := pow_le_pow_left₀ hy h 2
      rw [div_le_iff₀ (by positivity)]
      show ((y * y : Nat) : ℝ) ≤ c ^ 2 * 2 ^ 64 * 2 ^ 64
      push_cast
      nlinarith
    have := sqDn_sound k _ (c ^ 2) hstep
    rw [← pow_mul, ← pow_succ'] at this
    exact this

theorem exp_neg_pow (r : ℝ) (n : Nat) : Real.exp (-r) ^ n = Real.exp (-((n : ℝ) * r)) := by
  rw [← Real.exp_nat_mul]; congr 1; ring

theorem quad_le (R : Nat) : ((quad R : Nat) : ℝ) ≤ Real.exp ((R : ℝ) / 2 ^ 64) * 2 ^ 64 := by
  have hr : (0 : ℝ) ≤ (R : ℝ) / 2 ^ 64 := by positivity
  have hq := Real.quadratic_le_exp_of_nonneg hr
  have h1 : ((quad R : Nat) : ℝ) ≤ (2 : ℝ) ^ 64 + R + ((R * R : Nat) : ℝ) / 2 ^ 65 := by
    show ((ONE + R + Nat.shiftRight (Nat.mul R R) 65 : Nat) : ℝ) ≤ _
    push_cast
    have := shr_le (Nat.mul R R) 65
    have e : ((Nat.mul R R : Nat) : ℝ) = (R : ℝ) * R := by show ((R * R : Nat) : ℝ) = _; push_cast; ring
    rw [e] at this
    rw [ONE_cast]
    linarith
  refine le_trans h1 ?_
  have : (2 : ℝ) ^ 64 + R + ((R * R : Nat) : ℝ) / 2 ^ 65
      = (1 + (R : ℝ) / 2 ^ 64 + ((R : ℝ) / 2 ^ 64) ^ 2 / 2) * 2 ^ 64 := by
    push_cast; field_simp
  rw [this]
  exact mul_le_mul_of_nonneg_right hq (by positivity)

theorem quad_pos (R : Nat) : 0 < quad R := by
  show 0 < ONE + R + _
  have : 0 < ONE := by decide
  omega

/-- `enUp S ≥ e^{-s}·2^64` whenever `s ≥ S/2^64` -/
theorem enUp_sound (S : Nat) (s : ℝ) (h : (S : ℝ) / 2 ^ 64 ≤ s) : Real.exp (-s) * 2 ^ 64 ≤ (enUp S : ℝ) := by
  set R := Nat.shiftRight S 20 with hR
  set r : ℝ := (R : ℝ) / 2 ^ 64 with hr
  have hRle : (R : ℝ) ≤ (S : ℝ) / 2 ^ 20 := shr_le S 20
  have hrs : (2 : ℝ) ^ 20 * r ≤ s := by
    refine le_trans ?_ h
    rw [hr]
    have : (2 : ℝ) ^ 20 * ((R : ℝ) / 2 ^ 64) = ((R : ℝ) * 2 ^ 20) / 2 ^ 64 := by ring
    rw [this]
    apply div_le_div_of_nonneg_right _ (by positivity)
    rw [le_div_iff₀ (by positivity)] at hRle
    exact hRle
  have hq := quad_le R
  have hqpos : (0 : ℝ) < quad R := by exact_mod_cast quad_pos R
  -- the start value
  have h0 : Real.exp (-r) * 2 ^ 64 ≤ ((Nat.add (Nat.div (Nat.mul ONE ONE) (quad R)) 1 : Nat) : ℝ) := by
    refine le_trans ?_ (le_div_succ _ _ (quad_pos R))
    rw [le_div_iff₀ hqpos]
    have e : ((Nat.mul ONE ONE : Nat) : ℝ) = 2 ^ 64 * 2 ^ 64 := by
      show ((ONE * ONE : Nat) : ℝ) = _; push_cast; rw [ONE_cast]
    rw [e]
    calc Real.exp (-r) * 2 ^ 64 * (quad R : ℝ) ≤ Real.exp (-r) * 2 ^ 64 * (Real.exp r * 2 ^ 64) :=
          mul_le_mul_of_nonneg_left hq (by positivity)
      _ = (Real.exp (-r) * Real.exp r) * (2 ^ 64 * 2 ^ 64) := by ring
      _ = 2 ^ 64 * 2 ^ 64 := by rw [← Real.exp_add]; simp
  have hs := sqUp_sound 20 _ (Real.exp (-r)) (Real.exp_pos _).le h0
  refine le_trans ?_ hs
  rw [exp_neg_pow]
  apply mul_le_mul_of_nonneg_right _ (by positivity)
  apply Real.exp_le_exp.2
  push_cast
  linarith

/-- `enLo S ≤ e^{-s}·2^64` whenever `s ≤ S/2^64` -/
theorem enLo_sound (S : Nat) (s : ℝ) (h : s ≤ (S : ℝ) / 2 ^ 64) : (enLo S : ℝ) ≤ Real.exp (-s) * 2 ^ 64 := by
  set R := Nat.add (Nat.shiftRight S 20) 1 with hR
  set r : ℝ := (R : ℝ) / 2 ^ 64 with hr
  have hRge : (S : ℝ) / 2 ^ 20 ≤ (R : ℝ) := le_shr_succ S 20
  have hrs : s ≤ (2 : ℝ) ^ 20 * r := by
    refine le_trans h ?_
    rw [hr]
    have : (2 : ℝ) ^ 20 * ((R : ℝ) / 2 ^ 64) = ((R : ℝ) * 2 ^ 20) / 2 ^ 64 := by ring
    rw [this]
    apply div_le_div_of_nonneg_right _ (by positivity)
    rw [div_le_iff₀ (by positivity)] at hRge
    exact hRge
  have h0 : ((Nat.sub ONE R : Nat) : ℝ) ≤ Real.exp (-r) * 2 ^ 64 := by
    have hexp : 1 - r ≤ Real.exp (-r) := by have := Real.add_one_le_exp (-r); linarith
    rcases Nat.le_total R ONE with hle | hle
    · show ((ONE - R : Nat) : ℝ) ≤ _
      rw [Nat.cast_sub hle, ONE_cast]
      have : (2 : ℝ) ^ 64 - R = (1 - r) * 2 ^ 64 := by rw [hr]; field_simp
      rw [this]
      exact mul_le_mul_of_nonneg_right hexp (by positivity)
    · have : Nat.sub ONE R = 0 := Nat.sub_eq_zero_of_le hle
      rw [this]; simp; positivity
  have hs := sqDn_sound 20 _ (Real.exp (-r)) h0
  refine le_trans hs ?_
  rw [exp_neg_pow]
  apply mul_le_mul_of_nonneg_right _ (by positivity)
  apply Real.exp_le_exp.2
  push_cast
  linarith

theorem exp_one_le_EUP : Real.exp 1 ≤ (EUP : ℝ) / 2 ^ 64 := by
  have := Real.exp_one_lt_d9
  refine le_trans this.le ?_
  rw [le_div_iff₀ (by positivity)]
  norm_num [EUP]

theorem ELO_le_exp_one : (ELO : ℝ) / 2 ^ 64 ≤ Real.exp 1 := by
  have := Real.exp_one_gt_d9
  refine le_trans ?_ this.le
  rw [div_le_iff₀ (by positivity)]
  norm_num [ELO]

theorem exp_two_le_E2UP : Real.exp 2 ≤ (E2UP : ℝ) / 2 ^ 64 := by
  have h := Real.exp_one_lt_d9
  have h2 : Real.exp 2 = Real.exp 1 ^ 2 := by
    rw [← Real.exp_nat_mul]; norm_num
  rw [h2]
  have hp : (0 : ℝ) ≤ Real.exp 1 := (Real.exp_pos 1).le
  have : Real.exp 1 ^ 2 ≤ (2.7182818286 : ℝ) ^ 2 := pow_le_pow_left₀ hp h.le 2
  refine le_trans this ?_
  rw [le_div_iff₀ (by positivity)]
  norm_num [E2UP]

end S3
