import IOptProofs.ConsoleInterpDefs
/-!
# What the console listener, taken from the SOURCE TEXT, prints

`IOptGen/ConsoleSrc.lean` (regenerated on every run from `iOpt/method/listener.py` and
`iOpt/output_system/console/console_output.py`) holds the statement trees of `ConsoleFullOutputListener` and
`FunctionConsoleFullOutput` and the `print` statements of `ConsoleOutputer`; `IOptProofs/ConsoleInterpDefs.lean` interprets them,
generically, with SYMBOLIC values (a printed datum is a `FieldRef`: which field of which callback argument).  Here, about the
GENERATED material (`genProg`):

* `printResult_render`, `printBest_render(_num)`, `printIter_render_num`, `printInit_render`: each printer, for ARBITRARY fields in its
  argument positions: which position appears under which label (positional binding of the arguments to the parameter list, then
  the parameter named in each `print`);
* `printFinalResult_run`, `printBestPointInfo_run`, `printIterPointInfo_run`: the methods of `FunctionConsoleFullOutput`, from ANY
  object state (only `self.__outputer` and the counter `self.iterNum` are read): which fields of the `solution` / `savedNewPoints`
  PARAMETER go to which position; the counter is incremented once per call; the `%`-test of `printBestPointInfo`;
* `onMethodStop_run`, `onEndIteration_custom/_full/_other`, `beforeMethodStart_run`, `newListener_run`: the callbacks of the listener;
  `Started` is the part of the object state they read, `Started.bump` its preservation;
* `onEndIterations_custom/_full/_other`: `j` notifications in a row (the schedule of mode `'custom'`, the numbering of mode `'full'`);
* `entries_*`, `shown_*`: the reports as (label, field) lists and as read against the callback's arguments;
* `sites_*`, `site_solution_arg`, `notify_*`: the call sites of the notifications in the generated trees of `process.py`;
* `Examples`: runs on the generated trees, and seeded edits that are stuck or render another report.

NOT covered: `str.format` rendering (padding, rounding), the layout arithmetic, the `print` to `sys.stdout` itself.
-/

namespace ConsoleInterp
open Gen.ProcSrc Gen.Console

/-! ### the printers of `ConsoleOutputer`: positional binding of the arguments to the labels -/

/-- the lines of `printResult`, as a function of the fields bound to its parameters `numberOfGlobalTrials`, `numberOfLocalTrials`,
`solvingTime`, `solutionAccuracy`, `bestTrialPoint`, `bestTrialValue` -/
def resultLines (g l t a p v : FieldRef) : List Line := [
  .deco "'-' * (30 + 20 * dim + 2)", .deco "Result", .deco "'-' * (30 + 20 * dim + 2)",
  .field "global iteration count: " g "|{:>29} {:<{width}}|",
  .field "local iteration count: " l "|{:>29} {:<{width}}|",
  .field "solving time: " t "|{:>29} {:<{width}}|",
  .field "solution point: " p "|{:>29} {:<{width}}|",
  .field "solution value: " v "|{:>29} {:<{width}.8f}|",
  .field "accuracy: " a "|{:>29} {:<{width}.8f}|",
  .deco "'-' * (30 + 20 * dim + 2)"]

/-- the lines of `printBest`, as a function of the fields bound to `numberOfGlobalTrials`, `numberOfLocalTrials`,
`solutionAccuracy`, `bestTrialPoint`, `bestTrialValue`, `iter` -/
def bestLines (g l a p v i : FieldRef) : List Line := [
  .field "current iteration # " i "|{:>29} {:<{width}}|",
  .field "global iteration count: " g "|{:>29} {:<{width}}|",
  .field "local iteration count: " l "|{:>29} {:<{width}}|",
  .field "current best point: " p "|{:>29} {:<{width}}|",
  .field "current best value: " v "|{:>29} {:<{width}.8f}|",
  .field "currant accuracy: " a "|{:>29} {:<{width}.8f}|",
  .deco "'.' * (30 + 20 * dim + 2)"]

/-- the pieces of the line of `printIter`, as a function of the fields bound to `point`, `value`, `iter` -/
def iterLines (p v i : FieldRef) : List Line := [
  .deco "'|'", .field "" i "{:>5}:", .field "" v "{:>19.8f}", .field "" p "{:<{width}}|"]

/-- the lines of `printInit` -/
def initLines (fe fr fR fl nObj nCons : FieldRef) : List Line := [
  .deco "", .deco "'-' * (30 + 20 * dim + 2)", .deco "Task Description", .deco "'-' * (30 + 20 * dim + 2)",
  .field "dimension: " .dim "|{:>29} {:<{width}}|",
  .field "bounds: " .boundsString "|{:>29} {:<{width}}|",
  .field "objective-function count: " nObj "|{:>29} {:<{width}}|",
  .field "constraint-function count: " nCons "|{:>29} {:<{width}}|",
  .deco "'-' * (30 + 20 * dim + 2)", .deco "Method Parameters", .deco "'-' * (30 + 20 * dim + 2)",
  .field "eps: " fe "|{:>29} {:<{width}}|",
  .field "r: " fr "|{:>29} {:<{width}}|",
  .field "epsR: " fR "|{:>29} {:<{width}}|",
  .field "itersLimit: " fl "|{:>29} {:<{width}}|",
  .deco "'-' * (30 + 20 * dim + 2)", .deco "Iterations", .deco "'-' * (30 + 20 * dim + 2)", .deco ""]

/-- **`printResult`, generated print list**: whatever is passed for `solved` (it is not printed) and whatever fields are passed in
the six other positions, the label "global iteration count: " shows the argument in position 2, … -/
theorem printResult_render (s : Val) (g l t a p v : FieldRef) :
    renderPrinter printResultP [s, .field g, .field l, .field t, .field a, .field p, .field v] =
      some (resultLines g l t a p v) := rfl

theorem printBest_render (g l a p v i : FieldRef) :
    renderPrinter printBestP [.field g, .field l, .field a, .field p, .field v, .field i] = some (bestLines g l a p v i) := rfl

/-- the counter is handed over as an integer -/
theorem printBest_render_num (g l a p v : FieldRef) (k : Nat) :
    renderPrinter printBestP [.field g, .field l, .field a, .field p, .field v, .nat k] = some (bestLines g l a p v (.num k)) := rfl

theorem printIter_render_num (p v : FieldRef) (k : Nat) :
    renderPrinter printIterP [.field p, .field v, .nat k] = some (iterLines p v (.num k)) := rfl

set_option maxRecDepth 4000 in
/-- `printInit`: the loop that builds the bounds string needs `floatdim`, the lower and the upper bounds in positions 5, 8, 9 -/
theorem printInit_render (fe fr fR fl nObj nCons : FieldRef) :
    renderPrinter printInitP [.field fe, .field fr, .field fR, .field fl, .field .dim, .field nObj, .field nCons,
      .field .lower, .field .upper] = some (initLines fe fr fR fl nObj nCons) := rfl

/-- a wrong number of arguments is stuck -/
example : renderPrinter printResultP [.field .status, .field .nGlobal, .field .nLocal] = none := by decide

/-! ### table look-ups on the strings of the generated trees -/

theorem lk_mFinal : genProg.meths.lookup "self.__fcfo.printFinalResult" = some ([.attr "__fcfo"],
    .proc .fcfo functionConsoleFullOutput_printFinalResultParams functionConsoleFullOutput_printFinalResult) := rfl
theorem lk_mBestInfo : genProg.meths.lookup "self.__fcfo.printBestPointInfo" = some ([.attr "__fcfo"],
    .proc .fcfo functionConsoleFullOutput_printBestPointInfoParams functionConsoleFullOutput_printBestPointInfo) := rfl
theorem lk_mIterInfo : genProg.meths.lookup "self.__fcfo.printIterPointInfo" = some ([.attr "__fcfo"],
    .proc .fcfo functionConsoleFullOutput_printIterPointInfoParams functionConsoleFullOutput_printIterPointInfo) := rfl
theorem lk_mInitInfo : genProg.meths.lookup "self.__fcfo.printInitInfo" = some ([.attr "__fcfo"],
    .proc .fcfo functionConsoleFullOutput_printInitInfoParams functionConsoleFullOutput_printInitInfo) := rfl
theorem lk_mResult : genProg.meths.lookup "self.__outputer.printResult" = some ([.attr "__outputer"], .printer printResultP) := rfl
theorem lk_mBest : genProg.meths.lookup "self.__outputer.printBest" = some ([.attr "__outputer"], .printer printBestP) := rfl
theorem lk_mIter : genProg.meths.lookup "self.__outputer.printIter" = some ([.attr "__outputer"], .printer printIterP) := rfl
theorem lk_mInit : genProg.meths.lookup "self.__outputer.printInit" = some ([.attr "__outputer"], .printer printInitP) := rfl
theorem lk_cFinal : genProg.ctors.lookup "self.__fcfo.printFinalResult" = none := rfl
theorem lk_cBestInfo : genProg.ctors.lookup "self.__fcfo.printBestPointInfo" = none := rfl
theorem lk_cIterInfo : genProg.ctors.lookup "self.__fcfo.printIterPointInfo" = none := rfl
theorem lk_cResult : genProg.ctors.lookup "self.__outputer.printResult" = none := rfl
theorem lk_cBest : genProg.ctors.lookup "self.__outputer.printBest" = none := rfl
theorem lk_cIter : genProg.ctors.lookup "self.__outputer.printIter" = none := rfl
theorem lk_gFinal : getterTable.lookup ("self.__fcfo.printFinalResult", ["solution", "status"]) = none := by decide
theorem lk_gBestInfo : getterTable.lookup ("self.__fcfo.printBestPointInfo", ["solution", "self.iters"]) = none := by decide
theorem lk_gIterInfo : getterTable.lookup ("self.__fcfo.printIterPointInfo", ["savedNewPoints"]) = none := by decide
theorem lk_gResult : getterTable.lookup ("self.__outputer.printResult", ["status", "solution.numberOfGlobalTrials",
    "solution.numberOfLocalTrials", "solution.solvingTime", "solution.solutionAccuracy", "bestTrialPoint", "bestTrialValue"]) =
    none := by decide
theorem lk_gBest : getterTable.lookup ("self.__outputer.printBest", ["solution.numberOfGlobalTrials",
    "solution.numberOfLocalTrials", "solution.solutionAccuracy", "bestTrialPoint", "bestTrialValue", "self.iterNum"]) =
    none := by decide
theorem lk_gIter : getterTable.lookup ("self.__outputer.printIter", ["point", "value", "self.iterNum"]) = none := by decide
theorem lk_gGetZ : getterTable.lookup ("savedNewPoints[0].GetZ", []) = some ("savedNewPoints", [.get .newValue]) := by decide

/-! ### `FunctionConsoleFullOutput`: which fields are handed to the printer, in which position -/

/-- the final report -/
def finalReport : List Line := resultLines .nGlobal .nLocal .time .accuracy .point .value

/-- **`printFinalResult(solution, status)`, generated tree**: from any object state in which `self.__outputer` is the outputer, the
lines of `finalReport` are printed - each field read from the `solution` PARAMETER - and nothing else changes. -/
theorem printFinalResult_run (d : Nat) (st : St) (h2 : st.heap.get .fcfo "__outputer" = some (.obj .outputer)) :
    runner genProg (d+1) functionConsoleFullOutput_printFinalResultParams functionConsoleFullOutput_printFinalResult
      (.obj .fcfo) [.solution, .field .status] st = some { st with out := st.out ++ finalReport } := by
  simp only [runner, runBody, bindParams, functionConsoleFullOutput_printFinalResultParams, Option.map, bindPos,
    functionConsoleFullOutput_printFinalResult, execList, execStmt, evalExpr, evalParsed, parseExpr, litTable,
    List.lookup, String.reduceBEq, exprTable, BEq.rfl, applyPath, applySel, fieldOwner, ↓reduceIte, assignTo,
    attrTargets, localTargets, List.contains_eq_mem, List.mem_cons, String.reduceEq, List.not_mem_nil, or_self,
    or_false, or_true, decide_true, execCall, lk_gResult, evalArgs, List.lookup_cons_self, lk_cResult, lk_mResult, h2,
    printResult_render, finalReport]

/-- what `printBestPointInfo` prints when the counter is `k` and the period is `n` -/
def customOut (n k : Nat) : List Line :=
  if k % n = 0 then bestLines .nGlobal .nLocal .accuracy .point .value (.num k) else []

/-- **`printBestPointInfo(solution, iters)`, generated tree**: with the counter `self.iterNum = k` and `iters = n ≠ 0`: the block of
`printBest` is printed iff `k % n = 0` - each field read from the `solution` PARAMETER, "current iteration # " being `k` -; in
both cases the counter becomes `k + 1`. -/
theorem printBestPointInfo_run (d : Nat) (st : St) (n k : Nat) (hn : n ≠ 0)
    (h2 : st.heap.get .fcfo "__outputer" = some (.obj .outputer)) (hk : st.heap.get .fcfo "iterNum" = some (.nat k)) :
    runner genProg (d+1) functionConsoleFullOutput_printBestPointInfoParams functionConsoleFullOutput_printBestPointInfo
      (.obj .fcfo) [.solution, .nat n] st =
      some { heap := st.heap.set (.fcfo, "iterNum") (.nat (k+1)), out := st.out ++ customOut n k } := by
  by_cases hd : k % n = 0
  · simp only [runner, runBody, bindParams, functionConsoleFullOutput_printBestPointInfoParams, Option.map,
      bindPos, functionConsoleFullOutput_printBestPointInfo, execList, execStmt, condTable, List.lookup, String.reduceBEq,
      BEq.rfl, evalCond, hk, hn, ↓reduceIte, hd, bne_self_eq_false, evalExpr, evalParsed, parseExpr, litTable, exprTable,
      applyPath, applySel, fieldOwner, assignTo, attrTargets, localTargets, List.contains_eq_mem, List.mem_cons,
      String.reduceEq, List.not_mem_nil, or_self, or_false, or_true, decide_true, execCall, lk_gBest, evalArgs,
      List.lookup_cons_self, lk_cBest, lk_mBest, h2, printBest_render_num, customOut]
  · have hb : (k % n != 0) = true := by simp [hd]
    simp only [runner, runBody, bindParams, functionConsoleFullOutput_printBestPointInfoParams, Option.map,
      bindPos, functionConsoleFullOutput_printBestPointInfo, execList, execStmt, condTable, List.lookup, String.reduceBEq,
      BEq.rfl, evalCond, hk, hn, ↓reduceIte, hb, evalExpr, evalParsed, parseExpr, litTable, exprTable, applyPath, applySel,
      assignTo, attrTargets, customOut, hd, List.append_nil]

/-- **`printIterPointInfo(savedNewPoints)`, generated tree**: with the counter `self.iterNum = k`: the line of `printIter` shows `k`,
then the value and the point of `savedNewPoints[0]`; the counter becomes `k + 1`. -/
theorem printIterPointInfo_run (d : Nat) (st : St) (k : Nat)
    (h2 : st.heap.get .fcfo "__outputer" = some (.obj .outputer)) (hk : st.heap.get .fcfo "iterNum" = some (.nat k)) :
    runner genProg (d+1) functionConsoleFullOutput_printIterPointInfoParams functionConsoleFullOutput_printIterPointInfo
      (.obj .fcfo) [.savedNewPoints] st =
      some { heap := st.heap.set (.fcfo, "iterNum") (.nat (k+1)), out := st.out ++ iterLines .newPoint .newValue (.num k) } := by
  simp only [runner, runBody, bindParams, functionConsoleFullOutput_printIterPointInfoParams, Option.map,
    bindPos, functionConsoleFullOutput_printIterPointInfo, execList, execStmt, evalExpr, evalParsed, parseExpr,
    litTable, List.lookup, String.reduceBEq, exprTable, BEq.rfl, applyPath, applySel, fieldOwner, ↓reduceIte, assignTo,
    attrTargets, localTargets, List.contains_eq_mem, List.mem_cons, String.reduceEq, List.not_mem_nil, or_self,
    or_false, decide_true, execCall, lk_gGetZ, or_true, lk_gIter, evalArgs, hk, lk_cIter, lk_mIter, h2,
    printIter_render_num]

/-! ### the listener: which callback prints what -/

theorem lk_gStop : getterTable.lookup ("self.__fcfo.printFinalResult", ["solution", "status"]) = none := by decide

/-- `OnMethodStop` at any call depth ≥ 2 -/
theorem onMethodStop_runner (d : Nat) (st : St) (h1 : st.heap.get .listener "__fcfo" = some (.obj .fcfo))
    (h2 : st.heap.get .fcfo "__outputer" = some (.obj .outputer)) :
    runner genProg (d+2) consoleFullOutputListener_OnMethodStopParams consoleFullOutputListener_OnMethodStop
      (.obj .listener) [.searchData, .solution, .field .status] st = some { st with out := st.out ++ finalReport } := by
  show runBody genProg (runner genProg (d+1)) _ _ _ _ _ = _
  simp only [runBody, bindParams, consoleFullOutputListener_OnMethodStopParams, Option.map, bindPos,
    consoleFullOutputListener_OnMethodStop, execList, execStmt, execCall, lk_gFinal, evalArgs, evalExpr, evalParsed,
    parseExpr, litTable, List.lookup, String.reduceBEq, exprTable, BEq.rfl, applyPath, lk_cFinal, lk_mFinal, applySel,
    h1, ↓reduceIte, printFinalResult_run d st h2]

/-- **`OnMethodStop(searchData, solution, status)`, generated trees**: from any state of the listener in which `BeforeMethodStart` has
been run (`self.__fcfo` is the `FunctionConsoleFullOutput`, whose `__outputer` is the outputer), the callback prints
`finalReport` - every field read from the `solution` ARGUMENT of the callback - and changes nothing else. -/
theorem onMethodStop_run (st : St) (h1 : st.heap.get .listener "__fcfo" = some (.obj .fcfo))
    (h2 : st.heap.get .fcfo "__outputer" = some (.obj .outputer)) :
    onMethodStop genProg st = some { st with out := st.out ++ finalReport } :=
  onMethodStop_runner 0 st h1 h2

/-- `OnEndIteration` in mode `'custom'`, at any call depth ≥ 2 -/
theorem onEndIteration_custom_runner (d : Nat) (st : St) (n k : Nat) (hn : n ≠ 0)
    (h1 : st.heap.get .listener "__fcfo" = some (.obj .fcfo)) (hm : st.heap.get .listener "mode" = some (.str "custom"))
    (hi : st.heap.get .listener "iters" = some (.nat n))
    (h2 : st.heap.get .fcfo "__outputer" = some (.obj .outputer)) (hk : st.heap.get .fcfo "iterNum" = some (.nat k)) :
    runner genProg (d+2) consoleFullOutputListener_OnEndIterationParams consoleFullOutputListener_OnEndIteration
      (.obj .listener) [.savedNewPoints, .solution] st =
      some { heap := st.heap.set (.fcfo, "iterNum") (.nat (k+1)), out := st.out ++ customOut n k } := by
  show runBody genProg (runner genProg (d+1)) _ _ _ _ _ = _
  simp only [runBody, bindParams, consoleFullOutputListener_OnEndIterationParams, Option.map, bindPos,
    consoleFullOutputListener_OnEndIteration, execList, execStmt, condTable, List.lookup_cons_self, evalCond,
    List.lookup, BEq.rfl, hm, String.reduceBEq, execCall, lk_gBestInfo, evalArgs, evalExpr, evalParsed, parseExpr,
    litTable, exprTable, applyPath, applySel, hi, lk_cBestInfo, lk_mBestInfo, h1, ↓reduceIte,
    printBestPointInfo_run d st n k hn h2 hk]

/-- `OnEndIteration` in mode `'full'`, at any call depth ≥ 2 -/
theorem onEndIteration_full_runner (d : Nat) (st : St) (k : Nat)
    (h1 : st.heap.get .listener "__fcfo" = some (.obj .fcfo)) (hm : st.heap.get .listener "mode" = some (.str "full"))
    (h2 : st.heap.get .fcfo "__outputer" = some (.obj .outputer)) (hk : st.heap.get .fcfo "iterNum" = some (.nat k)) :
    runner genProg (d+2) consoleFullOutputListener_OnEndIterationParams consoleFullOutputListener_OnEndIteration
      (.obj .listener) [.savedNewPoints, .solution] st =
      some { heap := st.heap.set (.fcfo, "iterNum") (.nat (k+1)), out := st.out ++ iterLines .newPoint .newValue (.num k) } := by
  show runBody genProg (runner genProg (d+1)) _ _ _ _ _ = _
  simp only [runBody, bindParams, consoleFullOutputListener_OnEndIterationParams, Option.map, bindPos,
    consoleFullOutputListener_OnEndIteration, execList, execStmt, condTable, List.lookup_cons_self, evalCond,
    List.lookup, BEq.rfl, hm, execCall, lk_gIterInfo, evalArgs, evalExpr, evalParsed, parseExpr, litTable,
    String.reduceBEq, exprTable, applyPath, lk_cIterInfo, lk_mIterInfo, applySel, h1, ↓reduceIte,
    printIterPointInfo_run d st k h2 hk]

/-- `OnEndIteration` in any other mode (`'result'` included): nothing is printed, nothing changes -/
theorem onEndIteration_other_runner (d : Nat) (st : St) (m : String) (hf : m ≠ "full") (hc : m ≠ "custom")
    (hm : st.heap.get .listener "mode" = some (.str m)) :
    runner genProg (d+1) consoleFullOutputListener_OnEndIterationParams consoleFullOutputListener_OnEndIteration
      (.obj .listener) [.savedNewPoints, .solution] st = some st := by
  show runBody genProg (runner genProg d) _ _ _ _ _ = _
  have hf' : (m == "full") = false := by simp [hf]
  have hc' : (m == "custom") = false := by simp [hc]
  by_cases hr : m = "result"
  · subst hr
    simp only [runBody, bindParams, consoleFullOutputListener_OnEndIterationParams, Option.map, bindPos,
      consoleFullOutputListener_OnEndIteration, execList, execStmt, condTable, List.lookup_cons_self, evalCond,
      List.lookup, BEq.rfl, hm, String.reduceBEq]
  · have hr' : (m == "result") = false := by simp [hr]
    simp only [runBody, bindParams, consoleFullOutputListener_OnEndIterationParams, Option.map, bindPos,
      consoleFullOutputListener_OnEndIteration, execList, execStmt, condTable, List.lookup_cons_self, evalCond,
      List.lookup, BEq.rfl, hm, hf', String.reduceBEq, hc', hr']

/-! ### the object state: attributes, and what `BeforeMethodStart` leaves -/

theorem Heap.lookup_set_same (h : Heap) (k : Obj × String) (v : Val) : (h.set k v).lookup k = some v := by
  induction h with
  | nil => simp [Heap.set]
  | cons kv t ih =>
    obtain ⟨k', v'⟩ := kv
    by_cases hk : k' = k
    · simp [Heap.set, hk]
    · have : (k == k') = false := by simp [Ne.symm hk]
      simp [Heap.set, hk, List.lookup, this, ih]

theorem Heap.lookup_set_ne (h : Heap) (k k' : Obj × String) (v : Val) (hne : k' ≠ k) :
    (h.set k v).lookup k' = h.lookup k' := by
  induction h with
  | nil =>
    have : (k' == k) = false := by simp [hne]
    simp [Heap.set, List.lookup, this]
  | cons kv t ih =>
    obtain ⟨k0, v0⟩ := kv
    by_cases hk : k0 = k
    · subst hk
      have : (k' == k0) = false := by simp [hne]
      simp [Heap.set, List.lookup, this]
    · by_cases hk' : k' = k0
      · subst hk'
        simp [Heap.set, hk]
      · have : (k' == k0) = false := by simp [hk']
        simp [Heap.set, hk, List.lookup, this, ih]

theorem Heap.get_set_same (h : Heap) (o : Obj) (a : String) (v : Val) : (h.set (o, a) v).get o a = some v :=
  Heap.lookup_set_same h (o, a) v

theorem Heap.get_set_ne (h : Heap) (o o' : Obj) (a a' : String) (v : Val) (hne : (o', a') ≠ (o, a)) :
    (h.set (o, a) v).get o' a' = h.get o' a' :=
  Heap.lookup_set_ne h (o, a) (o', a') v hne

/-- the attributes of a listener after `__init__`, with `fc` in `self.__fcfo` -/
def listenerHeap (mode : String) (n : Nat) (fc : Val) : Heap :=
  [((.listener, "__fcfo"), fc), ((.listener, "mode"), .str mode), ((.listener, "iters"), .nat n)]

/-- the attributes of the three objects after `BeforeMethodStart`, the counter being `k` -/
def startedHeap (mode : String) (n k : Nat) : Heap :=
  listenerHeap mode n (.obj .fcfo) ++
    [((.fcfo, "problem"), .problem), ((.fcfo, "parameters"), .parameters), ((.fcfo, "__outputer"), .obj .outputer),
     ((.fcfo, "iterNum"), .nat k)]

/-- the block printed by `BeforeMethodStart` -/
def initReport : List Line := initLines .eps .r .epsR .itersLimit .nObjectives .nConstraints

/-- **`ConsoleFullOutputListener(mode, iters)`, generated tree of `__init__`** -/
theorem newListener_run (mode : String) (n : Nat) :
    newListener genProg mode n = some { heap := listenerHeap mode n .none_, out := [] } := rfl

set_option maxRecDepth 8000 in
/-- **`BeforeMethodStart(method)`, generated trees** (the constructor of `FunctionConsoleFullOutput` through the tree of ITS
`__init__`): on a fresh listener it creates the `FunctionConsoleFullOutput` on `method.task.problem` / `method.parameters` with a
`ConsoleOutputer` and the counter `1`, and prints the task description: dimension, bounds, function counts, `eps`, `r`, `epsR`,
`itersLimit`, each under its own label. -/
theorem beforeMethodStart_run (mode : String) (n : Nat) (out : List Line) :
    beforeMethodStart genProg { heap := listenerHeap mode n .none_, out := out } =
      some { heap := startedHeap mode n 1, out := out ++ initReport } := rfl

/-- construction followed by `BeforeMethodStart` -/
theorem start_run (mode : String) (n : Nat) :
    (newListener genProg mode n).bind (beforeMethodStart genProg) =
      some { heap := startedHeap mode n 1, out := initReport } := by
  rw [newListener_run, Option.bind_some, beforeMethodStart_run, List.nil_append]

/-- the part of the object state that the later callbacks read -/
structure Started (mode : String) (n k : Nat) (h : Heap) : Prop where
  fcfo : h.get .listener "__fcfo" = some (.obj .fcfo)
  mode : h.get .listener "mode" = some (.str mode)
  iters : h.get .listener "iters" = some (.nat n)
  outputer : h.get .fcfo "__outputer" = some (.obj .outputer)
  iterNum : h.get .fcfo "iterNum" = some (.nat k)

theorem started_startedHeap (mode : String) (n k : Nat) : Started mode n k (startedHeap mode n k) :=
  ⟨rfl, rfl, rfl, rfl, rfl⟩

theorem Started.bump {mode : String} {n k : Nat} {h : Heap} (hS : Started mode n k h) (k' : Nat) :
    Started mode n k' (h.set (.fcfo, "iterNum") (.nat k')) where
  fcfo := by rw [Heap.get_set_ne _ _ _ _ _ _ (by decide)]; exact hS.fcfo
  mode := by rw [Heap.get_set_ne _ _ _ _ _ _ (by decide)]; exact hS.mode
  iters := by rw [Heap.get_set_ne _ _ _ _ _ _ (by decide)]; exact hS.iters
  outputer := by rw [Heap.get_set_ne _ _ _ _ _ _ (by decide)]; exact hS.outputer
  iterNum := Heap.get_set_same _ _ _ _

/-! ### the callbacks on a started listener -/

/-- the final report is printed whatever the mode, the period and the counter -/
theorem onMethodStop_started {mode : String} {n k : Nat} (st : St) (hS : Started mode n k st.heap) :
    onMethodStop genProg st = some { st with out := st.out ++ finalReport } :=
  onMethodStop_run st hS.fcfo hS.outputer

theorem onEndIteration_custom {n k : Nat} (hn : n ≠ 0) (st : St) (hS : Started "custom" n k st.heap) :
    onEndIteration genProg st =
      some { heap := st.heap.set (.fcfo, "iterNum") (.nat (k+1)), out := st.out ++ customOut n k } :=
  onEndIteration_custom_runner 0 st n k hn hS.fcfo hS.mode hS.iters hS.outputer hS.iterNum

theorem onEndIteration_full {n k : Nat} (st : St) (hS : Started "full" n k st.heap) :
    onEndIteration genProg st =
      some { heap := st.heap.set (.fcfo, "iterNum") (.nat (k+1)), out := st.out ++ iterLines .newPoint .newValue (.num k) } :=
  onEndIteration_full_runner 0 st k hS.fcfo hS.mode hS.outputer hS.iterNum

theorem onEndIteration_other {mode : String} {n k : Nat} (hf : mode ≠ "full") (hc : mode ≠ "custom") (st : St)
    (hS : Started mode n k st.heap) : onEndIteration genProg st = some st :=
  onEndIteration_other_runner 1 st mode hf hc hS.mode

/-- what `j` notifications print in mode `'custom'` when the counter starts at `k` -/
def customOuts (n k : Nat) : Nat → List Line
  | 0 => []
  | j + 1 => customOuts n k j ++ customOut n (k + j)

/-- what `j` notifications print in mode `'full'` when the counter starts at `k` -/
def fullOuts (k : Nat) : Nat → List Line
  | 0 => []
  | j + 1 => fullOuts k j ++ iterLines .newPoint .newValue (.num (k + j))

/-- **the `%`-schedule of mode `'custom'`**: `j` notifications on a listener whose counter is `k` advance the counter to `k + j` and
print, for each `i < j`, the block of `printBest` with "current iteration # " `= k + i` iff `n` divides `k + i`. -/
theorem onEndIterations_custom {n : Nat} (hn : n ≠ 0) (k : Nat) (st : St) (hS : Started "custom" n k st.heap) (j : Nat) :
    ∃ st', onEndIterations genProg j st = some st' ∧ Started "custom" n (k + j) st'.heap ∧
      st'.out = st.out ++ customOuts n k j := by
  induction j with
  | zero => exact ⟨st, rfl, hS, by simp [customOuts]⟩
  | succ j ih =>
    obtain ⟨st', h1, hS', ho⟩ := ih
    refine ⟨{ heap := st'.heap.set (.fcfo, "iterNum") (.nat (k + j + 1)), out := st'.out ++ customOut n (k + j) }, ?_,
      hS'.bump (k + j + 1), ?_⟩
    · simp only [onEndIterations, h1]
      exact onEndIteration_custom hn st' hS'
    · simp only [ho, customOuts, List.append_assoc]

theorem onEndIterations_full {n : Nat} (k : Nat) (st : St) (hS : Started "full" n k st.heap) (j : Nat) :
    ∃ st', onEndIterations genProg j st = some st' ∧ Started "full" n (k + j) st'.heap ∧
      st'.out = st.out ++ fullOuts k j := by
  induction j with
  | zero => exact ⟨st, rfl, hS, by simp [fullOuts]⟩
  | succ j ih =>
    obtain ⟨st', h1, hS', ho⟩ := ih
    refine ⟨{ heap := st'.heap.set (.fcfo, "iterNum") (.nat (k + j + 1)),
              out := st'.out ++ iterLines .newPoint .newValue (.num (k + j)) }, ?_, hS'.bump (k + j + 1), ?_⟩
    · simp only [onEndIterations, h1]
      exact onEndIteration_full st' hS'
    · simp only [ho, fullOuts, List.append_assoc]

theorem onEndIterations_other {mode : String} {n k : Nat} (hf : mode ≠ "full") (hc : mode ≠ "custom") (st : St)
    (hS : Started mode n k st.heap) (j : Nat) : onEndIterations genProg j st = some st := by
  induction j with
  | zero => rfl
  | succ j ih => simp only [onEndIterations, ih]; exact onEndIteration_other hf hc st hS

/-! ### what a reader sees -/

theorem entries_finalReport : entries finalReport =
    [("global iteration count: ", .nGlobal), ("local iteration count: ", .nLocal), ("solving time: ", .time),
     ("solution point: ", .point), ("solution value: ", .value), ("accuracy: ", .accuracy)] := by decide

theorem entries_bestLines (k : Nat) : entries (bestLines .nGlobal .nLocal .accuracy .point .value (.num k)) =
    [("current iteration # ", .num k), ("global iteration count: ", .nGlobal), ("local iteration count: ", .nLocal),
     ("current best point: ", .point), ("current best value: ", .value), ("currant accuracy: ", .accuracy)] := rfl

theorem entries_iterLines (k : Nat) : entries (iterLines .newPoint .newValue (.num k)) =
    [("", .num k), ("", .newValue), ("", .newPoint)] := rfl

theorem entries_initReport : entries initReport =
    [("dimension: ", .dim), ("bounds: ", .boundsString), ("objective-function count: ", .nObjectives),
     ("constraint-function count: ", .nConstraints), ("eps: ", .eps), ("r: ", .r), ("epsR: ", .epsR),
     ("itersLimit: ", .itersLimit)] := by decide

/-- the final report, read against the arguments of the callback: the data of the solution HANDED OVER -/
theorem shown_finalReport {V P : Type} (a : Args V P) : shownEntries a finalReport =
    [("global iteration count: ", .nat a.solution.nGlobal), ("local iteration count: ", .nat a.solution.nLocal),
     ("solving time: ", .val a.solution.time), ("solution point: ", .pt a.solution.point),
     ("solution value: ", .val a.solution.value), ("accuracy: ", .val a.solution.accuracy)] := rfl

theorem shown_bestLines {V P : Type} (a : Args V P) (k : Nat) :
    shownEntries a (bestLines .nGlobal .nLocal .accuracy .point .value (.num k)) =
    [("current iteration # ", .nat k), ("global iteration count: ", .nat a.solution.nGlobal),
     ("local iteration count: ", .nat a.solution.nLocal), ("current best point: ", .pt a.solution.point),
     ("current best value: ", .val a.solution.value), ("currant accuracy: ", .val a.solution.accuracy)] := rfl

theorem shown_iterLines {V P : Type} (a : Args V P) (k : Nat) :
    shownEntries a (iterLines .newPoint .newValue (.num k)) = [("", .nat k), ("", .val a.newValue), ("", .pt a.newPoint)] := rfl

/-! ### the call sites in `process.py` -/

/-- the only notification in `Solve` -/
theorem sites_solve : sitesList Gen.ProcSrc.solve =
    [("listener.OnMethodStop", ["self.searchData", "self.GetResults()", "status"])] := by decide

/-- the notifications in `DoGlobalIteration` -/
theorem sites_doGlobalIteration : sitesList Gen.ProcSrc.doGlobalIteration =
    [("listener.BeforeMethodStart", ["self.method"]), ("listener.OnEndIteration", ["savedNewPoints", "self.GetResults()"])] := by
  decide

/-- no notification elsewhere in `process.py` -/
theorem sites_rest : sitesList Gen.ProcSrc.doLocalRefinement = [] ∧ sitesList Gen.ProcSrc.getResults = [] ∧
    sitesList Gen.ProcSrc.problemCalculate = [] := by decide

/-- at both call sites the parameter `solution` of the callback receives the expression `self.GetResults()` -/
theorem site_solution_arg :
    siteArgFor ("listener.OnMethodStop", ["self.searchData", "self.GetResults()", "status"]) "solution" = some "self.GetResults()" ∧
    siteArgFor ("listener.OnEndIteration", ["savedNewPoints", "self.GetResults()"]) "solution" = some "self.GetResults()" := by
  decide

/-- the notifications as issued at the call sites are the callbacks run on the opaque arguments -/
theorem notify_stop (st : St) :
    notify genProg ("listener.OnMethodStop", ["self.searchData", "self.GetResults()", "status"]) st = onMethodStop genProg st := rfl

theorem notify_end (st : St) :
    notify genProg ("listener.OnEndIteration", ["savedNewPoints", "self.GetResults()"]) st = onEndIteration genProg st := rfl

theorem notify_before (st : St) :
    notify genProg ("listener.BeforeMethodStart", ["self.method"]) st = beforeMethodStart genProg st := rfl

end ConsoleInterp

/-! ## Non-vacuity, and what the ties exclude: runs of the interpreter on the generated trees and on edited trees -/

namespace ConsoleInterp.Examples
open Gen.ProcSrc Gen.Console

/-- a started listener (mode `'result'`, nothing printed yet) -/
def S0 : St := { heap := startedHeap "result" 100 1, out := [] }

/-- the interpreter RUN on the generated trees: `__init__`, `BeforeMethodStart`, four `OnEndIteration` in mode `'custom'` with
period 2, `OnMethodStop`: the init block, the best-point blocks numbered 2 and 4, the final report; the counter ends at 5 -/
example :
    ((((newListener genProg "custom" 2).bind (beforeMethodStart genProg)).bind (onEndIterations genProg 4)).bind
        (onMethodStop genProg)) =
      some { heap := startedHeap "custom" 2 5,
             out := initReport ++ bestLines .nGlobal .nLocal .accuracy .point .value (.num 2) ++
               bestLines .nGlobal .nLocal .accuracy .point .value (.num 4) ++ finalReport } := by decide +kernel

/-- mode `'full'`: one line per notification, numbered 1, 2, 3 -/
example :
    (((newListener genProg "full" 100).bind (beforeMethodStart genProg)).bind (onEndIterations genProg 3)).map (entries ·.out) =
      some (entries initReport ++ [("", .num 1), ("", .newValue), ("", .newPoint), ("", .num 2), ("", .newValue), ("", .newPoint),
        ("", .num 3), ("", .newValue), ("", .newPoint)]) := by decide +kernel

/-- mode `'result'`: the notifications print nothing; the final report is the whole output after the init block -/
example :
    ((((newListener genProg "result" 100).bind (beforeMethodStart genProg)).bind (onEndIterations genProg 7)).bind
        (onMethodStop genProg)).map (·.out) = some (initReport ++ finalReport) := by decide +kernel

/-- the tie theorems instantiated (their hypotheses hold on the state that `BeforeMethodStart` leaves) -/
example := onMethodStop_started S0 (started_startedHeap "result" 100 1)
example := onEndIterations_custom (n := 3) (by decide) 1 { heap := startedHeap "custom" 3 1 } (started_startedHeap "custom" 3 1) 10

/-- a listener that was never told `BeforeMethodStart` (attached after the first iteration): `self.__fcfo` is `None`, every later
callback is stuck (Python: `AttributeError: 'NoneType' object has no attribute 'printFinalResult'`) -/
example : (newListener genProg "result" 100).bind (onMethodStop genProg) = none ∧
    (newListener genProg "full" 100).bind (onEndIteration genProg) = none ∧
    (newListener genProg "result" 100).bind (onEndIteration genProg) = newListener genProg "result" 100 := by decide +kernel

/-- mode `'custom'` with `iters = 0`: stuck (Python: `ZeroDivisionError` in `self.iterNum % iters`) -/
example : ((newListener genProg "custom" 0).bind (beforeMethodStart genProg)).bind (onEndIteration genProg) = none := by
  decide +kernel

/-- the chain needs two call levels; with one, the callback cannot call the method of `FunctionConsoleFullOutput` -/
example : runner genProg 1 consoleFullOutputListener_OnMethodStopParams consoleFullOutputListener_OnMethodStop
    (.obj .listener) [.searchData, .solution, .field .status] S0 = none := by decide +kernel

/-- arity mismatch at the call site is stuck: `OnMethodStop(solution, status)` -/
example : callback genProg consoleFullOutputListener_OnMethodStopParams consoleFullOutputListener_OnMethodStop
    [.solution, .field .status] S0 = none := by decide +kernel

/-! ### seeded edits -/

/-- replace a method of the program -/
def withMeth (name : String) (recv : List Sel) (c : Callee) : Prog :=
  { genProg with meths := (name, (recv, c)) :: genProg.meths }

/-- (1) `printFinalResult` passing `numberOfLocalTrials` and `numberOfGlobalTrials` in the other order -/
def printFinalResultSwapped : List Stmt :=
  [
    .assign "bestTrialPoint" "solution.bestTrials[0].point.floatVariables",
    .assign "bestTrialValue" "solution.bestTrials[0].functionValues[0].value",
    .call [] "self.__outputer.printResult" ["status", "solution.numberOfLocalTrials", "solution.numberOfGlobalTrials", "solution.solvingTime", "solution.solutionAccuracy", "bestTrialPoint", "bestTrialValue"]]

/-- … the two counts appear under each other's label -/
example : (onMethodStop (withMeth "self.__fcfo.printFinalResult" [.attr "__fcfo"]
      (.proc .fcfo functionConsoleFullOutput_printFinalResultParams printFinalResultSwapped)) S0).map (entries ·.out) =
    some [("global iteration count: ", .nLocal), ("local iteration count: ", .nGlobal), ("solving time: ", .time),
      ("solution point: ", .point), ("solution value: ", .value), ("accuracy: ", .accuracy)] := by decide +kernel

/-- (2) `printFinalResult` reading a cached trial `self.best` instead of `solution.bestTrials[0]` -/
def printFinalResultCached : List Stmt :=
  [
    .assign "bestTrialPoint" "self.best.point.floatVariables",
    .assign "bestTrialValue" "self.best.functionValues[0].value",
    .call [] "self.__outputer.printResult" ["status", "solution.numberOfGlobalTrials", "solution.numberOfLocalTrials", "solution.solvingTime", "solution.solutionAccuracy", "bestTrialPoint", "bestTrialValue"]]

/-- … stuck: the expression is not a field of the argument -/
example : onMethodStop (withMeth "self.__fcfo.printFinalResult" [.attr "__fcfo"]
      (.proc .fcfo functionConsoleFullOutput_printFinalResultParams printFinalResultCached)) S0 = none := by decide +kernel

/-- (3) `printResult` printing `numberOfLocalTrials` under the label "global iteration count: " -/
def printResultWrongLabel : Printer :=
  { printResultP with prints := printResultPrints.map fun p =>
      if p.args = ["'global iteration count: '", "numberOfGlobalTrials"] then
        { p with args := ["'global iteration count: '", "numberOfLocalTrials"] } else p }

/-- … the local count is shown twice, the global count nowhere -/
example : (onMethodStop (withMeth "self.__outputer.printResult" [.attr "__outputer"] (.printer printResultWrongLabel)) S0).map
      (entries ·.out) =
    some [("global iteration count: ", .nLocal), ("local iteration count: ", .nLocal), ("solving time: ", .time),
      ("solution point: ", .point), ("solution value: ", .value), ("accuracy: ", .accuracy)] := by decide +kernel

/-- (4) `OnMethodStop` passing `status, solution` in the other order -/
def onMethodStopSwapped : List Stmt :=
  [
    .call [] "self.__fcfo.printFinalResult" ["status", "solution"]]

/-- … stuck: `printFinalResult` then reads `bestTrials[0]` of the status flag -/
example : callback genProg consoleFullOutputListener_OnMethodStopParams onMethodStopSwapped
    [.searchData, .solution, .field .status] S0 = none := by decide +kernel

/-- (5) the call site passing the search data where the solution belongs (`OnMethodStop(solution, searchData, status)`) -/
example : callback genProg consoleFullOutputListener_OnMethodStopParams consoleFullOutputListener_OnMethodStop
    [.solution, .searchData, .field .status] S0 = none := by decide +kernel

/-- (6) `printBestPointInfo` without the increment of the counter: every notification prints (period 1) or none does -/
def printBestPointInfoNoIncrement : List Stmt :=
  [
    .ite "self.iterNum % iters != 0" [] [
      .assign "bestTrialPoint" "solution.bestTrials[0].point.floatVariables",
      .assign "bestTrialValue" "solution.bestTrials[0].functionValues[0].value",
      .call [] "self.__outputer.printBest" ["solution.numberOfGlobalTrials", "solution.numberOfLocalTrials", "solution.solutionAccuracy", "bestTrialPoint", "bestTrialValue", "self.iterNum"]]]

example : (onEndIterations (withMeth "self.__fcfo.printBestPointInfo" [.attr "__fcfo"]
      (.proc .fcfo functionConsoleFullOutput_printBestPointInfoParams printBestPointInfoNoIncrement)) 4
      { heap := startedHeap "custom" 2 1 }).map (·.out) = some [] ∧
    (onEndIterations genProg 4 { heap := startedHeap "custom" 2 1 }).map (·.out) = some (customOuts 2 1 4) ∧
    customOuts 2 1 4 ≠ [] := by decide +kernel

/-- (7) `OnEndIteration` in mode `'custom'` handing over a solution kept from an earlier call (`self.last`) -/
def onEndIterationCached : List Stmt :=
  [
    .ite "self.mode == 'full'" [
      .call [] "self.__fcfo.printIterPointInfo" ["savedNewPoints"]] [
      .ite "self.mode == 'custom'" [
        .call [] "self.__fcfo.printBestPointInfo" ["self.last", "self.iters"]] [
        .ite "self.mode == 'result'" [] []]]]

example : callback genProg consoleFullOutputListener_OnEndIterationParams onEndIterationCached
    [.savedNewPoints, .solution] { heap := startedHeap "custom" 1 1 } = none := by decide +kernel

/-- statements outside the tables are not silently accepted -/
example : callback genProg ["self"] [.other "print('x')"] [] S0 = none ∧
    callback genProg ["self"] [.assign "self.iterNum" "0"] [] S0 = none ∧
    callback genProg ["self"] [.assign "dim" "1"] [] S0 = none ∧
    callback genProg ["self"] [.ret "None"] [] S0 = none ∧
    renderPrinter { printResultP with other := ["dim = 0"] } [.field .status, .field .nGlobal, .field .nLocal, .field .time,
      .field .accuracy, .field .point, .field .value] = none ∧
    renderPrinter { printResultP with locals := [("bestTrialValue", "0")] } [.field .status, .field .nGlobal, .field .nLocal,
      .field .time, .field .accuracy, .field .point, .field .value] = none := by decide +kernel

end ConsoleInterp.Examples
