import IOptProofs.ConsoleInterpDefs
/-!
# What the console listener, taken from the SOURCE TEXT, prints
-/

namespace ConsoleInterp
open Gen.ProcSrc Gen.Console

/-! ### the printers of `ConsoleOutputer`: positional binding of the arguments to the labels -/

/-- the lines of `printResult`, as a function of the fields bound to its parameters `numberOfGlobalTrials`, `numberOfLocalTrials`,
`solvingTime`, `solutionAccuracy`, `bestTrialPoint`, `bestTrialValue` -/
def resultLines (g l t a p v : FieldRef) : List Line := [
  .deco "'-' * (30 + 20 * dim + 2)", .deco "Result", .deco "'-' * (30 + 20 * dim + 2)",
  .field "global iteration count: " g "|{:>29} {:<{width}}|",
  .field "local iteration count: " l "|{:>29} {:<{width}}|",
  .field "solving time: " t "|{:>29} {:<{width}}|",
  .field "solution point: " p "|{:>29} {:<{width}}|",
  .field "solution value: " v "|{:>29} {:<{width}.8f}|",
  .field "accuracy: " a "|{:>29} {:<{width}.8f}|",
  .deco "'-' * (30 + 20 * dim + 2)"]

/-- the lines of `printBest`, as a function of the fields bound to `numberOfGlobalTrials`, `numberOfLocalTrials`,
`solutionAccuracy`, `bestTrialPoint`, `bestTrialValue`, `iter` -/
def bestLines (g l a p v i : FieldRef) : List Line := [
  .field "current iteration # " i "|{:>29} {:<{width}}|",
  .field "global iteration count: " g "|{:>29} {:<{width}}|",
  .field "local iteration count: " l "|{:>29} {:<{width}}|",
  .field "current best point: " p "|{:>29} {:<{width}}|",
  .field "current best value: " v "|{:>29} {:<{width}.8f}|",
  .field "currant accuracy: " a "|{:>29} {:<{width}.8f}|",
  .deco "'.' * (30 + 20 * dim + 2)"]

/-- the pieces of the line of `printIter`, as a function of the fields bound to `point`, `value`, `iter` -/
def iterLines (p v i : FieldRef) : List Line := [
  .deco "'|'", .field "" i "{:>5}:", .field "" v "{:>19.8f}", .field "" p "{:<{width}}|"]

/-- the lines of `printInit` -/
def initLines (fe fr fR fl nObj nCons : FieldRef) : List Line := [
  .deco "", .deco "'-' * (30 + 20 * dim + 2)", .deco "Task Description", .deco "'-' * (30 + 20 * dim + 2)",
  .field "dimension: " .dim "|{:>29} {:<{width}}|",
  .field "bounds: " .boundsString "|{:>29} {:<{width}}|",
  .field "objective-function count: " nObj "|{:>29} {:<{width}}|",
  .field "constraint-function count: " nCons "|{:>29} {:<{width}}|",
  .deco "'-' * (30 + 20 * dim + 2)", .deco "Method Parameters", .deco "'-' * (30 + 20 * dim + 2)",
  .field "eps: " fe "|{:>29} {:<{width}}|",
  .field "r: " fr "|{:>29} {:<{width}}|",
  .field "epsR: " fR "|{:>29} {:<{width}}|",
  .field "itersLimit: " fl "|{:>29} {:<{width}}|",
  .deco "'-' * (30 + 20 * dim + 2)", .deco "Iterations", .deco "'-' * (30 + 20 * dim + 2)", .deco ""]

/-- **`printResult`, generated print list**: whatever is passed for `solved` (it is not printed) and whatever fields are passed in
the six other positions, the label "global iteration count: " shows the argument in position 2, … -/
theorem printResult_render (s : Val) (g l t a p v : FieldRef) :
    renderPrinter printResultP [s, .field g, .field l, .field t, .field a, .field p, .field v] =
      some (resultLines g l t a p v) := rfl

theorem printBest_render (g l a p v i : FieldRef) :
    renderPrinter printBestP [.field g, .field l, .field a, .field p, .field v, .field i] = some (bestLines g l a p v i) := rfl

/-- the counter is handed over as an integer -/
theorem printBest_render_num (g l a p v : FieldRef) (k : Nat) :
    renderPrinter printBestP [.field g, .field l, .field a, .field p, .field v, .nat k] = some (bestLines g l a p v (.num k)) := rfl

theorem printIter_render_num (p v : FieldRef) (k : Nat) :
    renderPrinter printIterP [.field p, .field v, .nat k] = some (iterLines p v (.num k)) := rfl

set_option maxRecDepth 4000 in
/-- `printInit`: the loop that builds the bounds string needs `floatdim`, the lower and the upper bounds in positions 5, 8, 9 -/
theorem printInit_render (fe fr fR fl nObj nCons : FieldRef) :
    renderPrinter printInitP [.field fe, .field fr, .field fR, .field fl, .field .dim, .field nObj, .field nCons,
      .field .lower, .field .upper] = some (initLines fe fr fR fl nObj nCons) := rfl

/-- a wrong number of arguments is stuck -/
example : renderPrinter printResultP [.field .status, .field .nGlobal, .field .nLocal] = none := by decide

/-! ### table look-ups on the strings of the generated trees -/

theorem lk_mFinal : genProg.meths.lookup "self.__fcfo.printFinalResult" = some ([.attr "__fcfo"],
    .proc .fcfo functionConsoleFullOutput_printFinalResultParams functionConsoleFullOutput_printFinalResult) := rfl
theorem lk_mBestInfo : genProg.meths.lookup "self.__fcfo.printBestPointInfo" = some ([.attr "__fcfo"],
    .proc .fcfo functionConsoleFullOutput_printBestPointInfoParams functionConsoleFullOutput_printBestPointInfo) := rfl
theorem lk_mIterInfo : genProg.meths.lookup "self.__fcfo.printIterPointInfo" = some ([.attr "__fcfo"],
    .proc .fcfo functionConsoleFullOutput_printIterPointInfoParams functionConsoleFullOutput_printIterPointInfo) := rfl
theorem lk_mInitInfo : genProg.meths.lookup "self.__fcfo.printInitInfo" = some ([.attr "__fcfo"],
    .proc .fcfo functionConsoleFullOutput_printInitInfoParams functionConsoleFullOutput_printInitInfo) := rfl
theorem lk_mResult : genProg.meths.lookup "self.__outputer.printResult" = some ([.attr "__outputer"], .printer printResultP) := rfl
theorem lk_mBest : genProg.meths.lookup "self.__outputer.printBest" = some ([.attr "__outputer"], .printer printBestP) := rfl
theorem lk_mIter : genProg.meths.lookup "self.__outputer.printIter" = some ([.attr "__outputer"], .printer printIterP) := rfl
theorem lk_mInit : genProg.meths.lookup "self.__outputer.printInit" = some ([.attr "__outputer"], .printer printInitP) := rfl
theorem lk_cFinal : genProg.ctors.lookup "self.__fcfo.printFinalResult" = none := rfl
theorem lk_cBestInfo : genProg.ctors.lookup "self.__fcfo.printBestPointInfo" = none := rfl
theorem lk_cIterInfo : genProg.ctors.lookup "self.__fcfo.printIterPointInfo" = none := rfl
theorem lk_cResult : genProg.ctors.lookup "self.__outputer.printResult" = none := rfl
theorem lk_cBest : genProg.ctors.lookup "self.__outputer.printBest" = none := rfl
theorem lk_cIter : genProg.ctors.lookup "self.__outputer.printIter" = none := rfl
theorem lk_gFinal : getterTable.lookup ("self.__fcfo.printFinalResult", ["solution", "status"]) = none := by decide
theorem lk_gBestInfo : getterTable.lookup ("self.__fcfo.printBestPointInfo", ["solution", "self.iters"]) = none := by decide
theorem lk_gIterInfo : getterTable.lookup ("self.__fcfo.printIterPointInfo", ["savedNewPoints"]) = none := by decide
theorem lk_gResult : getterTable.lookup ("self.__outputer.printResult", ["status", "solution.numberOfGlobalTrials",
    "solution.numberOfLocalTrials", "solution.solvingTime", "solution.solutionAccuracy", "bestTrialPoint", "bestTrialValue"]) =
    none := by decide
theorem lk_gBest : getterTable.lookup ("self.__outputer.printBest", ["solution.numberOfGlobalTrials",
    "solution.numberOfLocalTrials", "solution.solutionAccuracy", "bestTrialPoint", "bestTrialValue", "self.iterNum"]) =
    none := by decide
theorem lk_gIter : getterTable.lookup ("self.__outputer.printIter", ["point", "value", "self.iterNum"]) = none := by decide
theorem lk_gGetZ : getterTable.lookup ("savedNewPoints[0].GetZ", []) = some ("savedNewPoints", [.get .newValue]) := by decide

/-! ### `FunctionConsoleFullOutput`: which fields are handed to the printer, in which position -/

/-- the final report -/
def finalReport : List Line := resultLines .nGlobal .nLocal .time .accuracy .point .value

/-- **`printFinalResult(solution, status)`, generated tree**: from any object state in which `self.__outputer` is the outputer, the
lines of `finalReport` are printed - each field read from the `solution` PARAMETER - and nothing else changes. -/
theorem printFinalResult_run (d : Nat) (st : St) (h2 : st.heap.get .fcfo "__outputer" = some (.obj .outputer)) :
    runner genProg (d+1) functionConsoleFullOutput_printFinalResultParams functionConsoleFullOutput_printFinalResult
      (.obj .fcfo) [.solution, .field .status] st = some { st with out := st.out ++ finalReport } := by
  simp only [runner, runBody, bindParams, functionConsoleFullOutput_printFinalResultParams, Option.map, bindPos,
    functionConsoleFullOutput_printFinalResult, execList, execStmt, evalExpr, evalParsed, parseExpr, litTable,
    List.lookup, String.reduceBEq, exprTable, BEq.rfl, applyPath, applySel, fieldOwner, ↓reduceIte, assignTo,
    attrTargets, localTargets, List.contains_eq_mem, List.mem_cons, String.reduceEq, List.not_mem_nil, or_self,
    or_false, or_true, decide_true, execCall, lk_gResult, evalArgs, List.lookup_cons_self, lk_cResult, lk_mResult, h2,
    printResult_render, finalReport]

/-- what `printBestPointInfo` prints when the counter is `k` and the period is `n` -/
def customOut (n k : Nat) : List Line :=
  if k % n = 0 then bestLines .nGlobal .nLocal .accuracy .point .value (.num k) else []

/-- **`printBestPointInfo(solution, iters)`, generated tree**: with the counter `self.iterNum = k` and `iters = n ≠ 0`: the block of
`printBest` is printed iff `k % n = 0` - each field read from the `solution` PARAMETER, "current iteration # " being `k` -; in
both cases the counter becomes `k + 1`. -/
theorem printBestPointInfo_run (d : Nat) (st : St) (n k : Nat) (hn : n ≠ 0)
    (h2 : st.heap.get .fcfo "__outputer" = some (.obj .outputer)) (hk : st.heap.get .fcfo "iterNum" = some (.nat k)) :
    runner genProg (d+1) functionConsoleFullOutput_printBestPointInfoParams functionConsoleFullOutput_printBestPointInfo
      (.obj .fcfo) [.solution, .nat n] st =
      some { heap := st.heap.set (.fcfo, "iterNum") (.nat (k+1)), out := st.out ++ customOut n k } := by
  by_cases hd : k % n = 0
  · simp only [runner, runBody, bindParams, functionConsoleFullOutput_printBestPointInfoParams, Option.map,
      bindPos, functionConsoleFullOutput_printBestPointInfo, execList, execStmt, condTable, List.lookup, String.reduceBEq,
      BEq.rfl, evalCond, hk, hn, ↓reduceIte, hd, bne_self_eq_false, evalExpr, evalParsed, parseExpr, litTable, exprTable,
      applyPath, applySel, fieldOwner, assignTo, attrTargets, localTargets, List.contains_eq_mem, List.mem_cons,
      String.reduceEq, List.not_mem_nil, or_self, or_false, or_true, decide_true, execCall, lk_gBest, evalArgs,
      List.lookup_cons_self, lk_cBest, lk_mBest, h2, printBest_render_num, customOut]
  · have hb : (k % n != 0) = true := by simp [hd]
    simp only [runner, runBody, bindParams, functionConsoleFullOutput_printBestPointInfoParams, Option.map,
      bindPos, functionConsoleFullOutput_printBestPointInfo, execList, execStmt, condTable, List.lookup, String.reduceBEq,
      BEq.rfl, evalCond, hk, hn, ↓reduceIte, hb, evalExpr, evalParsed, parseExpr, litTable, exprTable, applyPath, applySel,
      assignTo, attrTargets, customOut, hd, List.append_nil]

/-- **`printIterPointInfo(savedNewPoints)`, generated tree**: with the counter `self.iterNum = k`: the line of `printIter` shows `k`,
then the value and the point of `savedNewPoints[0]`; the counter becomes `k + 1`. -/
theorem printIterPointInfo_run (d : Nat) (st : St) (k : Nat)
    (h2 : st.heap.get .fcfo "__outputer" = some (.obj .outputer)) (hk : st.heap.get .fcfo "iterNum" = some (.nat k)) :
    runner genProg (d+1) functionConsoleFullOutput_printIterPointInfoParams functionConsoleFullOutput_printIterPointInfo
      (.obj .fcfo) [.savedNewPoints] st =
      some { heap := st.heap.set (.fcfo, "iterNum") (.nat (k+1)), out := st.out ++ iterLines .newPoint .newValue (.num k) } := by
  simp only [runner, runBody, bindParams, functionConsoleFullOutput_printIterPointInfoParams, Option.map,
    bindPos, functionConsoleFullOutput_printIterPointInfo, execList, execStmt, evalExpr, evalParsed, parseExpr,
    litTable, List.lookup, String.reduceBEq, exprTable, BEq.rfl, applyPath, applySel, fieldOwner, ↓reduceIte, assignTo,
    attrTargets, localTargets, List.contains_eq_mem, List.mem_cons, String.reduceEq, List.not_mem_nil, or_self,
    or_false, decide_true, execCall, lk_gGetZ, or_true, lk_gIter, evalArgs, hk, lk_cIter, lk_mIter, h2,
    printIter_render_num]

/-! ### the listener: which callback prints what -/

theorem lk_gStop : getterTable.lookup ("self.__fcfo.printFinalResult", ["solution", "status"]) = none := by decide

/-- `OnMethodStop` at any call depth ≥ 2 -/
theorem onMethodStop_runner (d : Nat) (st : St) (h1 : st.heap.get .listener "__fcfo" = some (.obj .fcfo))
    (h2 : st.heap.get .fcfo "__outputer" = some (.obj .outputer)) :
    runner genProg (d+2) consoleFullOutputListener_OnMethodStopParams consoleFullOutputListener_OnMethodStop
      (.obj .listener) [.searchData, .solution, .field .status] st = some { st with out := st.out ++ finalReport } := by
  show runBody genProg (runner genProg (d+1)) _ _ _ _ _ = _
  simp only [runBody, bindParams, consoleFullOutputListener_OnMethodStopParams, Option.map, bindPos,
    consoleFullOutputListener_OnMethodStop, execList, execStmt, execCall, lk_gFinal, evalArgs, evalExpr, evalParsed,
    parseExpr, litTable, List.lookup, String.reduceBEq, exprTable, BEq.rfl, applyPath, lk_cFinal, lk_mFinal, applySel,
    h1, ↓reduceIte, printFinalResult_run d st h2]

/-- **`OnMethodStop(searchData, solution, status)`, generated trees**: from any state of the listener in which `BeforeMethodStart` has
been run (`self.__fcfo` is the `FunctionConsoleFullOutput`, whose `__outputer` is the outputer), the callback prints
`finalReport` - every field read from the `solution` ARGUMENT of the callback - and changes nothing else. -/
theorem onMethodStop_run (st : St) (h1 : st.heap.get .listener "__fcfo" = some (.obj .fcfo))
    (h2 : st.heap.get .fcfo "__outputer" = some (.obj .outputer)) :
    onMethodStop genProg st = some { st with out := st.out ++ finalReport } :=
  onMethodStop_runner 0 st h1 h2

/-- `OnEndIteration` in mode `'custom'`, at any call depth ≥ 2 -/
theorem onEndIteration_custom_runner (d : Nat) (st : St) (n k : Nat) (hn : n ≠ 0)
    (h1 : st.heap.get .listener "__fcfo" = some (.obj .fcfo)) (hm : st.heap.get .listener "mode" = some (.str "custom"))
    (hi : st.heap.get .listener "iters" = some (.nat n))
    (h2 : st.heap.get .fcfo "__outputer" = some (.obj .outputer)) (hk : st.heap.get .fcfo "iterNum" = some (.nat k)) :
    runner genProg (d+2) consoleFullOutputListener_OnEndIterationParams consoleFullOutputListener_OnEndIteration
      (.obj .listener) [.savedNewPoints, .solution] st =
      some { heap := st.heap.set (.fcfo, "iterNum") (.nat (k+1)), out := st.out ++ customOut n k } := by
  show runBody genProg (runner genProg (d+1)) _ _ _ _ _ = _
  simp only [runBody, bindParams, consoleFullOutputListener_OnEndIterationParams, Option.map, bindPos,
    consoleFullOutputListener_OnEndIteration, execList, execStmt, condTable, List.lookup_cons_self, evalCond,
    List.lookup, BEq.rfl, hm, String.reduceBEq, execCall, lk_gBestInfo, evalArgs, evalExpr, evalParsed, parseExpr,
    litTable, exprTable, applyPath, applySel, hi, lk_cBestInfo, lk_mBestInfo, h1, ↓reduceIte,
    printBestPointInfo_run d st n k hn h2 hk]

/-- `OnEndIteration` in mode `'full'`, at any call depth ≥ 2 -/
theorem onEndIteration_full_runner (d : Nat) (st : St) (k : Nat)
    (h1 : st.heap.get .listener "__fcfo" = some (.obj .fcfo)) (hm : st.heap.get .listener "mode" = some (.str "full"))
    (h2 : st.heap.get .fcfo "__outputer" = some (.obj .outputer)) (hk : st.heap.get .fcfo "iterNum" = some (.nat k)) :
    runner genProg (d+2) consoleFullOutputListener_OnEndIterationParams consoleFullOutputListener_OnEndIteration
      (.obj .listener) [.savedNewPoints, .solution] st =
      some { heap := st.heap.set (.fcfo, "iterNum") (.nat (k+1)), out := st.out ++ iterLines .newPoint .newValue (.num k) } := by
  show runBody genProg (runner genProg (d+1)) _ _ _ _ _ = _
  simp only [runBody, bindParams, consoleFullOutputListener_OnEndIterationParams, Option.map, bindPos,
    consoleFullOutputListener_OnEndIteration, execList, execStmt, condTable, List.lookup_cons_self, evalCond,
    List.lookup, BEq.rfl, hm, execCall, lk_gIterInfo, evalArgs, evalExpr, evalParsed, parseExpr, litTable,
    String.reduceBEq, exprTable, applyPath, lk_cIterInfo, lk_mIterInfo, applySel, h1, ↓reduceIte,
    printIterPointInfo_run d st k h2 hk]

/-- `OnEndIteration` in any other mode (`'result'` included): nothing is printed, nothing changes -/
theorem onEndIteration_other_runner (d : Nat) (st : St) (m : String) (hf : m ≠ "full") (hc : m ≠ "custom")
    (hm : st.heap.get .listener "mode" = some (.str m)) :
    runner genProg (d+1) consoleFullOutputListener_OnEndIterationParams consoleFullOutputListener_OnEndIteration
      (.obj .listener) [.savedNewPoints, .solution] st = some st := by
  show runBody genProg (runner genProg d) _ _ _ _ _ = _
  have hf' : (m == "full") = false := by simp [hf]
  have hc' : (m == "custom") = false := by simp [hc]
  by_cases hr : m = "result"
  · subst hr
    simp only [runBody, bindParams, consoleFullOutputListener_OnEndIterationParams, Option.map, bindPos,
      consoleFullOutputListener_OnEndIteration, execList, execStmt, condTable, List.lookup_cons_self, evalCond,
      List.lookup, BEq.rfl, hm, String.reduceBEq]
  · have hr' : (m == "result") = false := by simp [hr]
    simp only [runBody, bindParams, consoleFullOutputListener_OnEndIterationParams, Option.map, bindPos,
      consoleFullOutputListener_OnEndIteration, execList, execStmt, condTable, List.lookup_cons_self, evalCond,
      List.lookup, BEq.rfl, hm, hf', String.reduceBEq, hc', hr']

end ConsoleInterp
