import IOptProofs.HillDefs
import IOptProofs.HillReal
import IOptProofs.EnclSoundSum
import IOptProofs.BenchDy
import Mathlib.Tactic.FieldSimp
import Mathlib.Tactic.Push
/-!
# Hill certificate, soundness part A: the coefficient encoding
-/

namespace Hill
open Encl

theorem dyR_eq (d : Dy) : dyR d = (d.1 : ℝ) / 2 ^ d.2 := by
  unfold dyR Dy.toRat; push_cast; rfl

theorem coefOK_spec (d : Dy) (h : coefOK d = true) :
    dyR d = (scaled d : ℝ) / 2 ^ 80 ∧ |(scaled d : ℝ)| < 2 ^ 81 := by
  simp only [coefOK, Bool.and_eq_true, beq_iff_eq, decide_eq_true_eq] at h
  obtain ⟨h1, h2⟩ := h
  have hd : (2:Int) ^ d.2 * scaled d = d.1 * (2:Int) ^ 80 :=
    Int.mul_ediv_cancel' (Int.dvd_of_emod_eq_zero h1)
  have hdR : (2:ℝ) ^ d.2 * (scaled d : ℝ) = (d.1 : ℝ) * 2 ^ 80 := by exact_mod_cast hd
  constructor
  · rw [dyR_eq]
    have : (2:ℝ) ^ d.2 ≠ 0 := by positivity
    field_simp
    linarith
  · have : |(scaled d : ℝ)| = ((scaled d).natAbs : ℝ) := by
      rw [Nat.cast_natAbs, Int.cast_abs]
    rw [this]
    have : ((scaled d).natAbs : ℝ) < (2417851639229258349412352 : ℕ) := by exact_mod_cast h2
    refine this.trans_le ?_
    norm_num

theorem BA_cast : (BA : ℝ) = 2 ^ 89 := by norm_num [BA]
theorem BF_cast : (BF : ℝ) = 2 ^ 160 := by norm_num [BF]

theorem encA_cast (z : Int) (h : |(z : ℝ)| ≤ 2 ^ 89) : ((encA z : ℕ) : ℝ) - (BA : ℝ) = z := by
  unfold encA
  have h0 : (0 : ℝ) ≤ ((z + (BA : Int) : Int) : ℝ) := by
    push_cast; rw [BA_cast]; have := (abs_le.mp h).1; linarith
  have h0' : 0 ≤ z + (BA : Int) := by exact_mod_cast h0
  have h1 : ((z + (BA : Int)).toNat : Int) = z + BA := Int.toNat_of_nonneg h0'
  have h2 : (((z + (BA : Int)).toNat : ℕ) : ℝ) = (z : ℝ) + (BA : ℝ) := by exact_mod_cast h1
  rw [h2]; ring

/-- the six encoded coefficients of index `i ≤ 16`, decoded -/
theorem mkCoef_spec (i : ℕ) (hi : i ≤ 16) (a b : Dy) (ha : coefOK a = true) (hb : coefOK b = true) :
    ((mkCoef i a b).a0 : ℝ) - BA = scaled a ∧ ((mkCoef i a b).b0 : ℝ) - BA = scaled b ∧
    ((mkCoef i a b).a1 : ℝ) - BA = i * scaled a ∧ ((mkCoef i a b).b1 : ℝ) - BA = -(i * scaled b) ∧
    ((mkCoef i a b).a2 : ℝ) - BA = i * i * scaled a ∧ ((mkCoef i a b).b2 : ℝ) - BA = i * i * scaled b := by
  obtain ⟨_, ha⟩ := coefOK_spec a ha
  obtain ⟨_, hb⟩ := coefOK_spec b hb
  have hi' : (i : ℝ) ≤ 16 := by exact_mod_cast hi
  have hi0 : (0 : ℝ) ≤ i := Nat.cast_nonneg _
  have b1 : ∀ s : ℝ, |s| < 2 ^ 81 → |(i : ℝ) * s| ≤ 2 ^ 89 := by
    intro s hs
    rw [abs_mul, abs_of_nonneg hi0]
    calc (i : ℝ) * |s| ≤ 16 * 2 ^ 81 := mul_le_mul hi' hs.le (abs_nonneg _) (by norm_num)
      _ ≤ 2 ^ 89 := by norm_num
  have b2 : ∀ s : ℝ, |s| < 2 ^ 81 → |(i : ℝ) * i * s| ≤ 2 ^ 89 := by
    intro s hs
    rw [abs_mul, abs_of_nonneg (by positivity)]
    calc (i : ℝ) * i * |s| ≤ 16 * 16 * 2 ^ 81 := by gcongr
      _ ≤ 2 ^ 89 := by norm_num
  have b0 : ∀ s : ℝ, |s| < 2 ^ 81 → |s| ≤ 2 ^ 89 := fun s hs => hs.le.trans (by norm_num)
  simp only [mkCoef]
  refine ⟨encA_cast _ (b0 _ ha), encA_cast _ (b0 _ hb), ?_, ?_, ?_, ?_⟩
  · have := encA_cast ((i : Int) * scaled a) (by push_cast; exact b1 _ ha)
    rw [this]; push_cast; ring
  · have := encA_cast (-((i : Int) * scaled b)) (by push_cast; rw [abs_neg]; exact b1 _ hb)
    rw [this]; push_cast; ring
  · have := encA_cast ((i : Int) * i * scaled a) (by push_cast; exact b2 _ ha)
    rw [this]; push_cast; ring
  · have := encA_cast ((i : Int) * i * scaled b) (by push_cast; exact b2 _ hb)
    rw [this]; push_cast; ring

/-- the real coefficient list of a table row -/
noncomputable def rl (a b : List Dy) : List (ℝ × ℝ) := List.zip (a.map dyR) (b.map dyR)

theorem natAbs_cast (z : Int) : ((z.natAbs : ℕ) : ℝ) = |(z : ℝ)| := by
  rw [Nat.cast_natAbs, Int.cast_abs]

theorem mkCoefs_length : ∀ (a b : List Dy) (i : ℕ), a.length = b.length → (mkCoefs i a b).length = a.length
  | [], [], _, _ => rfl
  | [], _ :: _, _, h => by simp at h
  | _ :: _, [], _, h => by simp at h
  | _ :: as, _ :: bs, i, h => by
    simp only [mkCoefs, List.length_cons]
    rw [mkCoefs_length as bs (i + 1) (by simpa using h)]

/-- everything the sums need to know about the encoded coefficient list -/
theorem mkCoefs_spec (θ : ℝ) : ∀ (a b : List Dy) (i : ℕ), i + a.length ≤ 16 →
    allOK a = true → allOK b = true →
    idealSum Coef.a0 Coef.b0 BA (mkCoefs i a b) i θ = tsum (rl a b) i θ ∧
    idealSum Coef.b1 Coef.a1 BA (mkCoefs i a b) i θ = tsum (dcoef (rl a b) i) i θ ∧
    idealSum Coef.a2 Coef.b2 BA (mkCoefs i a b) i θ = -tsum (dcoef (dcoef (rl a b) i) i) i θ ∧
    absSum Coef.a0 Coef.b0 BA (mkCoefs i a b) = sumAbs 0 i a b ∧
    absSum Coef.b1 Coef.a1 BA (mkCoefs i a b) = sumAbs 1 i a b ∧
    absSum Coef.a2 Coef.b2 BA (mkCoefs i a b) = sumAbs 2 i a b ∧
    wsum 3 (rl a b) i = (sumAbs 3 i a b : ℝ) / 2 ^ 80
  | [], _, _, _, _, _ => by simp [mkCoefs, rl, idealSum, tsum, dcoef, absSum, sumAbs, wsum]
  | _ :: _, [], _, _, _, _ => by simp [mkCoefs, rl, idealSum, tsum, dcoef, absSum, sumAbs, wsum]
  | a :: as, b :: bs, i, hlen, ha, hb => by
    simp only [allOK, Bool.and_eq_true] at ha hb
    simp only [List.length_cons] at hlen
    obtain ⟨ih1, ih2, ih3, ih4, ih5, ih6, ih7⟩ := mkCoefs_spec θ as bs (i + 1) (by omega) ha.2 hb.2
    obtain ⟨c1, c2, c3, c4, c5, c6⟩ := mkCoef_spec i (by omega) a b ha.1 hb.1
    obtain ⟨ea, _⟩ := coefOK_spec a ha.1
    obtain ⟨eb, _⟩ := coefOK_spec b hb.1
    have hi0 : (0 : ℝ) ≤ i := Nat.cast_nonneg _
    have rlc : rl (a :: as) (b :: bs) = (dyR a, dyR b) :: rl as bs := rfl
    simp only [mkCoefs, idealSum, absSum, sumAbs, rlc, tsum, dcoef, wsum]
    rw [c1, c2, c3, c4, c5, c6, ih1, ih2, ih3, ih4, ih5, ih6, ih7, ea, eb]
    refine ⟨by ring, by ring, by ring, ?_, ?_, ?_, ?_⟩
    · push_cast; rw [natAbs_cast, natAbs_cast]; ring
    · push_cast; simp only [natAbs_cast, abs_neg, abs_mul, abs_of_nonneg hi0]; ring
    · push_cast; simp only [natAbs_cast, abs_mul, abs_of_nonneg hi0]; ring
    · push_cast; rw [natAbs_cast, natAbs_cast, abs_div, abs_div, abs_of_pos (by positivity : (0:ℝ) < 2 ^ 80)]; ring

end Hill
