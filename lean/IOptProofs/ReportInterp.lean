import IOptProofs.ReportInterpDefs
import IOptProofs.ProcessRefine
import IOptProofs.ProcessReported
import IOptProofs.ProcessToy
/-!
# `Process.GetResults` and `Process.DoLocalRefinement`, taken from the SOURCE TEXT, are the model's `reportedId` / `doLocalRefinement`

`IOptGen/ProcessSrc.lean` (regenerated from `iOpt/method/process.py` on every run) holds the bodies of `GetResults` and
`DoLocalRefinement` as statement trees; `IOptProofs/ReportInterpDefs.lean` interprets them on the model state plus the MUTABLE slot
`solution.bestTrials[0]` (`Glob.slot`: the id of the trial stored there), which the model does not have: the model's
`Proc.reportedId ps s` is a pure function of the state.  Here:

* `getResults_run`: from ANY slot the generated tree of `GetResults` leaves the model state unchanged, returns the `Solution`
  object, and leaves `slotAfter ps s slot` in the slot;
* `slotAfter_best`, `slotAfter_reported`, `slotAfter_refined`: the three possible contents of the slot.  From `Method.best` (what
  `Method.UpdateOptimum` stores in every iteration) and from the reported trial itself the result is `reportedId ps s`; a slot
  holding the trial refined last is KEPT, whether or not that trial is still the reported one;
* `getResults_src`: slot `= s.best` or `= reportedId ps s` before ⟹ slot `= reportedId ps s` after, state unchanged: the pure
  `reportedId` is what every caller of `GetResults()` sees;
* `getResults_src_refined_slot`, `getResults_after_doLocalRefinement`: the third possibility - a slot holding the trial refined
  last is returned unchanged; in particular the `GetResults()` that follows `DoLocalRefinement` returns the trial just refined,
  for any `LocalResult`;
* `doLocalRefinement_run`, `doLocalRefinement_src`, `doLocalRefinement_src_lr`: the generated tree of `DoLocalRefinement` (with
  `self.GetResults()` interpreted through ITS generated tree) is `Proc.doLocalRefinement ps lr`, where `lr` is what the oracles
  (scipy call, re-evaluation) give FROM THE POINT OF THE REPORTED TRIAL; afterwards slot `= __refinedTrial = reportedId ps s`;
* `getResults_noIdentity_run`: dropping the identity test `solution.bestTrials[0] is not refined` changes nothing when `<` is
  irreflexive (a harmless edit);
* over an ordered field: `slotOK_doLocalRefinement` (a refinement obeying the Nelder-Mead contract `RefineLe` leaves the slot on the
  reported trial of the NEW state), `resolved_reachable` (in every state reached by user operations the ids that the two trees
  dereference are stored), `getResults_src_reachable`;
* `Examples`: runs of the interpreter on the generated trees over `ℚ`; seeded edits (`<=` for `<`, the re-pointing dropped, the
  last line of `DoLocalRefinement` dropped, the two overwrites swapped, the `GetResults()` call dropped, `bounds=bounds` dropped)
  that are stuck or differ from the model; and the third possibility: after a refinement that VIOLATES the contract the slot holds
  a refined trial that is not the model's reported one, and the source keeps returning it until the next `UpdateOptimum`
  (reproduced on the Python code: `Solve` with refinement, 3 more iterations, a `DoLocalRefinement` whose minimiser returns `[1.0]`:
  `GetResults()` shows the value `0.444…` while `Method.best` has `0.000485…`; one more iteration and it shows `0.000485…`).

Hypotheses of the ties: `ps.m = some s` (the first iteration has been done; before it the slot holds the placeholder
`Trial([], [])`), `Resolved ps s` (the method's best and the trial refined last are stored: `resolved_reachable`), and the slot
condition.  The scipy call and `problemCalculate` are oracles (`Ctx`); an objective that RAISES during the refinement is outside
the model (`LocalResult` is total) and outside this semantics.
-/

set_option linter.unusedSectionVars false

section
variable {α : Type} [Add α] [Sub α] [Mul α] [Div α] [Neg α] [LT α] [LE α]
  [DecidableLT α] [DecidableLE α] [OfNat α 0] [OfNat α 1] [OfNat α 2] [OfNat α 4] [Fns α]

namespace ReportInterp
open AGP Proc Gen.ProcSrc

/-! ### table look-ups on the strings of the generated trees -/
theorem lk_aSolution : assignTable.lookup ("solution", "self.searchData.solution") = some .bindSolution := by decide
theorem lk_aRefined : assignTable.lookup ("refined", "self.__refinedTrial") = some .bindRefined := by decide
theorem lk_aSlot : assignTable.lookup ("solution.bestTrials[0]", "refined") = some .slotRefined := by decide
theorem lk_cBetter : condTable.lookup
    "refined is not None and solution.bestTrials[0] is not refined and (refined.functionValues[0].value < solution.bestTrials[0].functionValues[0].value)" =
    some (.refinedBetter .lt true) := by decide +kernel
theorem lk_rSolution : retTable.lookup "solution" = some .solution := by decide

/-! ### `GetResults` -/

/-- **`GetResults`, source tree, from ANY slot.**  Whatever trial id the slot `solution.bestTrials[0]` holds, the interpretation of
the statement tree generated from the source text of `Process.GetResults` (any call depth, any caller locals) leaves the model
state untouched, returns THE `Solution` object, and leaves `slotAfter ps s slot` in the slot: the refined trial if there is one,
it is another trial than the one in the slot and its value holder is strictly smaller; else the slot as it was.  (`hres`: if
the value comparison is reached, both trials are stored.) -/
theorem getResults_run (c : Ctx α) (depth : Nat) (ints : List (String × Int)) (ps : PState α) (s : State α) (slot : Nat)
    (hm : ps.m = some s)
    (hres : ∀ r, ps.refined = some r → r ≠ slot → (findItem s.items r).isSome ∧ (findItem s.items slot).isSome) :
    run c depth Gen.ProcSrc.getResults ints ⟨ps, slot⟩ = .done ⟨ps, slotAfter ps s slot⟩ (some .solution) := by
  simp only [run, runBody, Gen.ProcSrc.getResults, execList, execStmt, lk_aSolution, lk_aRefined, lk_cBetter, lk_rSolution,
    execAssign, evalCond]
  cases hr : ps.refined with
  | none => simp only [slotAfter, hr, ↓reduceIte]
  | some r =>
    by_cases hrs : r = slot
    · simp only [slotAfter, hr, hrs, and_self, ↓reduceIte]
    · obtain ⟨h1, h2⟩ := hres r hr hrs
      obtain ⟨ri, hri⟩ := Option.isSome_iff_exists.1 h1
      obtain ⟨bi, hbi⟩ := Option.isSome_iff_exists.1 h2
      simp only [slotAfter, hr, hrs, and_false, ↓reduceIte, hm, hri, hbi, Cmp.holds]
      by_cases hlt : ri.hv < bi.hv
      · simp only [hlt, decide_true, ↓reduceIte, lk_aSlot]
      · simp only [hlt, decide_false, ↓reduceIte]

/-- from the slot that `Method.UpdateOptimum` leaves, `GetResults` re-points the slot to the model's reported trial -/
theorem slotAfter_best (ps : PState α) (s : State α) : slotAfter ps s s.best = reportedId ps s := by
  unfold slotAfter reportedId
  cases ps.refined with
  | none => rfl
  | some r =>
    simp only []
    by_cases hrb : r = s.best
    · subst hrb
      simp only [↓reduceIte, ne_eq, not_true_eq_false, false_and]
      split <;> rfl
    · simp only [hrb, ↓reduceIte, ne_eq, not_false_eq_true, true_and]
      cases findItem s.items r <;> cases findItem s.items s.best <;> rfl

/-- `GetResults` is idempotent on the slot -/
theorem slotAfter_reported (ps : PState α) (s : State α) : slotAfter ps s (reportedId ps s) = reportedId ps s := by
  rcases reportedId_cases ps s with h | ⟨_, _, h, -⟩
  · have h1 := slotAfter_best ps s
    rw [h] at h1 ⊢; exact h1
  · unfold slotAfter; rw [h]; simp only [↓reduceIte]

/-- the third possibility: the slot holds the trial refined last (whether or not it is still the reported one): kept -/
theorem slotAfter_refined (ps : PState α) (s : State α) {r : Nat} (h : ps.refined = some r) : slotAfter ps s r = r := by
  unfold slotAfter; rw [h]; simp only [↓reduceIte]

/-- what `Method.UpdateOptimum` (slot := `Method.best`) and `GetResults` itself leave in the slot -/
def SlotOK (ps : PState α) (s : State α) (slot : Nat) : Prop := slot = s.best ∨ slot = reportedId ps s

theorem slotAfter_of_ok {ps : PState α} {s : State α} {slot : Nat} (h : SlotOK ps s slot) :
    slotAfter ps s slot = reportedId ps s := by
  rcases h with rfl | rfl
  · exact slotAfter_best ps s
  · exact slotAfter_reported ps s

/-- every trial id that `GetResults` can dereference is stored: the method's best and the trial refined last (if any) -/
def Resolved (ps : PState α) (s : State α) : Prop :=
  (findItem s.items s.best).isSome ∧ ∀ r, ps.refined = some r → (findItem s.items r).isSome

theorem Resolved.reported {ps : PState α} {s : State α} (h : Resolved ps s) : (findItem s.items (reportedId ps s)).isSome := by
  rcases reportedId_cases ps s with e | ⟨ri, _, -, -, e, -⟩
  · rw [e]; exact h.1
  · rw [e]; rfl

theorem Resolved.slot {ps : PState α} {s : State α} {slot : Nat} (h : Resolved ps s) (hs : SlotOK ps s slot) :
    ∀ r, ps.refined = some r → r ≠ slot → (findItem s.items r).isSome ∧ (findItem s.items slot).isSome := by
  intro r hr _
  refine ⟨h.2 r hr, ?_⟩
  rcases hs with rfl | rfl
  · exact h.1
  · exact h.reported

/-- **`GetResults`, source tree = model.**  From any object in which the slot holds `Method.best` (what `UpdateOptimum` leaves
in every iteration) OR already holds the reported trial (what a previous `GetResults()` / `DoLocalRefinement` left), the
interpretation of the generated tree of `Process.GetResults` returns the `Solution` object with the slot `= Proc.reportedId ps s`,
and the model state is unchanged.  So the model's pure `reportedId` is what every caller of `GetResults()` sees. -/
theorem getResults_src (c : Ctx α) (depth : Nat) (ints : List (String × Int)) (ps : PState α) (s : State α) (slot : Nat)
    (hm : ps.m = some s) (hres : Resolved ps s) (hslot : slot = s.best ∨ slot = reportedId ps s) :
    run c depth Gen.ProcSrc.getResults ints ⟨ps, slot⟩ = .done ⟨ps, reportedId ps s⟩ (some .solution) := by
  rw [getResults_run c depth ints ps s slot hm (hres.slot hslot), slotAfter_of_ok hslot]

/-! ### `DoLocalRefinement` -/
theorem lk_aIter1 : assignTable.lookup ("self.localMethodIterationCount", "number") = none := by decide
theorem lk_aIter2 : assignTable.lookup ("self.localMethodIterationCount", "self.parameters.itersLimit * 0.05") = none := by decide
theorem lk_nIter1 : noopAssigns.contains ("self.localMethodIterationCount", "number") = true := by decide
theorem lk_nIter2 : noopAssigns.contains ("self.localMethodIterationCount", "self.parameters.itersLimit * 0.05") = true := by decide
theorem lk_cNumber : condTable.lookup "number == -1" = some .numberIsMinus1 := by decide
theorem lk_getRes : primTable.lookup (["result"], "self.GetResults", []) = none := by decide
theorem lk_procGetRes : procTable.lookup "self.GetResults" = some (getResultsParams, getResultsDefaults, Gen.ProcSrc.getResults) := by rfl
theorem lk_tResult : targetTable.lookup "result" = some .result := by decide
theorem lk_aStart : assignTable.lookup ("startPoint", "result.bestTrials[0].point.floatVariables") = some .bindStart := by decide
theorem lk_bounds : primTable.lookup (["bounds"], "Bounds",
    ["self.task.problem.lowerBoundOfFloatVariables", "self.task.problem.upperBoundOfFloatVariables"]) = some .mkBounds := by decide
theorem lk_minimize : primTable.lookup (["nelder_mead"], "scipy.optimize.minimize",
    ["self.problemCalculate", "x0=startPoint", "method='Nelder-Mead'", "options={'maxiter': self.localMethodIterationCount}",
     "bounds=bounds"]) = some .minimize := by decide +kernel
theorem lk_aPoint : assignTable.lookup ("result.bestTrials[0].point.floatVariables", "nelder_mead.x") = some .writePoint := by decide
theorem lk_reEval : primTable.lookup (["result.bestTrials[0].functionValues[0].value"], "self.problemCalculate",
    ["result.bestTrials[0].point.floatVariables"]) = some .reEvaluate := by decide +kernel
theorem lk_aNfev : assignTable.lookup ("result.numberOfLocalTrials", "nelder_mead.nfev") = some .writeNfev := by decide
theorem lk_aRemember : assignTable.lookup ("self.__refinedTrial", "result.bestTrials[0]") = some .rememberRefined := by decide

/-- `self.GetResults()` takes no argument, whatever the caller's locals -/
theorem bind_getRes (ints : List (String × Int)) : bindArgs getResultsParams getResultsDefaults [] ints = some [] := by
  simp [bindArgs, getResultsParams, getResultsDefaults, bindAll]

/-- the statement `result = self.GetResults()` at call depth `d+1` runs the generated tree of `GetResults`: the slot becomes
`slotAfter`, `result` is bound, the other locals survive -/
theorem call_getResults (c : Ctx α) (d : Nat) (ps : PState α) (s : State α) (slot : Nat) (l : Locals α) (hm : ps.m = some s)
    (hres : ∀ r, ps.refined = some r → r ≠ slot → (findItem s.items r).isSome ∧ (findItem s.items slot).isSome) :
    execStmt c (envN c (d+1)) (.call ["result"] "self.GetResults" []) ⟨⟨ps, slot⟩, l⟩ =
      .normal ⟨⟨ps, slotAfter ps s slot⟩, { l with result := true }⟩ := by
  have h := getResults_run c d [] ps s slot hm hres
  simp only [run] at h
  simp only [execStmt, lk_getRes, envN, lk_procGetRes, bind_getRes, h, bindTargets, lk_tResult]

/-- overwriting the point, then the value holder with the objective at the (new) point, is the model's one overwrite -/
theorem setValue_setPoint (c : Ctx α) (slot : Nat) (x0 : List α) (it : Item α) :
    setValue c.evalAt slot (setPoint slot (c.minimize x0).1 it) = refineItem slot (c.lr x0) it := by
  unfold setValue setPoint refineItem Ctx.lr
  cases h : it.id == slot <;> simp [h]

set_option maxRecDepth 4096 in
/-- **`DoLocalRefinement`, source tree, from ANY slot**: the trial refined is the one `GetResults()` leaves in the slot -/
theorem doLocalRefinement_run (c : Ctx α) (d : Nat) (number : Int) (ps : PState α) (s : State α) (slot : Nat)
    (hm : ps.m = some s)
    (hres : ∀ r, ps.refined = some r → r ≠ slot → (findItem s.items r).isSome ∧ (findItem s.items slot).isSome)
    {b : Item α} (hb : findItem s.items (slotAfter ps s slot) = some b) :
    run c (d+1) Gen.ProcSrc.doLocalRefinement [("number", number)] ⟨ps, slot⟩ =
      .done ⟨{ ps with m := some { s with items := s.items.map (refineItem (slotAfter ps s slot) (c.lr b.point)) },
                       nLocal := (c.lr b.point).nfev, refined := some (slotAfter ps s slot) },
             slotAfter ps s slot⟩ none := by
  have hnum : evalCond .numberIsMinus1 (⟨⟨ps, slot⟩, { ints := [("number", number)] }⟩ : IState α) = some (decide (number = -1)) := by
    simp [evalCond, List.lookup]
  simp only [run, runBody, Gen.ProcSrc.doLocalRefinement]
  rw [execList, execStmt]
  simp only [lk_aIter1, lk_nIter1, ↓reduceIte]
  rw [execList, execStmt]
  simp only [lk_cNumber, hnum]
  have hrest :
      (match execList c (envN c (d+1)) [
          .call ["result"] "self.GetResults" [],
          .assign "startPoint" "result.bestTrials[0].point.floatVariables",
          .call ["bounds"] "Bounds" ["self.task.problem.lowerBoundOfFloatVariables", "self.task.problem.upperBoundOfFloatVariables"],
          .call ["nelder_mead"] "scipy.optimize.minimize" ["self.problemCalculate", "x0=startPoint", "method='Nelder-Mead'", "options={'maxiter': self.localMethodIterationCount}", "bounds=bounds"],
          .assign "result.bestTrials[0].point.floatVariables" "nelder_mead.x",
          .call ["result.bestTrials[0].functionValues[0].value"] "self.problemCalculate" ["result.bestTrials[0].point.floatVariables"],
          .assign "result.numberOfLocalTrials" "nelder_mead.nfev",
          .assign "self.__refinedTrial" "result.bestTrials[0]"] ⟨⟨ps, slot⟩, { ints := [("number", number)] }⟩ with
        | .normal st => POut.done st.g none
        | .returned st v => .done st.g (some v)
        | .stuck => .stuck) =
      .done ⟨{ ps with m := some { s with items := s.items.map (refineItem (slotAfter ps s slot) (c.lr b.point)) },
                       nLocal := (c.lr b.point).nfev, refined := some (slotAfter ps s slot) },
             slotAfter ps s slot⟩ none := by
    rw [execList, call_getResults c d ps s slot _ hm hres]
    simp only [execList, execStmt, lk_aStart, execAssign, hm, hb, lk_bounds, execPrim, lk_minimize, lk_aPoint, IState.setPs,
      lk_reEval, lk_aNfev, lk_aRemember, List.map_map]
    have hfun : (setValue c.evalAt (slotAfter ps s slot) ∘ setPoint (slotAfter ps s slot) (c.minimize b.point).1) =
        refineItem (slotAfter ps s slot) (c.lr b.point) := funext fun it => setValue_setPoint c _ _ it
    rw [hfun]
    rfl
  by_cases hn : number = -1
  · have h2 : execList c (envN c (d+1)) [.assign "self.localMethodIterationCount" "self.parameters.itersLimit * 0.05"]
        ⟨⟨ps, slot⟩, { ints := [("number", number)] }⟩ = .normal ⟨⟨ps, slot⟩, { ints := [("number", number)] }⟩ := by
      simp only [execList, execStmt, lk_aIter2, lk_nIter2, ↓reduceIte]
    have hd : decide (number = -1) = true := decide_eq_true hn
    simp only [hd, h2]
    exact hrest
  · have h2 : execList c (envN c (d+1)) [] ⟨⟨ps, slot⟩, { ints := [("number", number)] }⟩ =
        .normal ⟨⟨ps, slot⟩, { ints := [("number", number)] }⟩ := by
      simp only [execList]
    have hd : decide (number = -1) = false := decide_eq_false hn
    simp only [hd, h2]
    exact hrest

/-- **`DoLocalRefinement`, source tree = model.**  From a slot as in `getResults_src`, for every value of `number` (both branches
of `number == -1`), the interpretation of the generated tree of `Process.DoLocalRefinement`, with `self.GetResults()` inside it
interpreted through the generated tree of `GetResults` (call depth `d+1 ≥ 1`), ends normally (returns `None`) in the state
`Proc.doLocalRefinement ps lr`, where `lr = c.lr b.point` is what the oracles give when Nelder-Mead is started from the point of
the REPORTED trial `b`: point returned, objective re-evaluated THERE, `nfev`.  The slot afterwards is `reportedId ps s`, which is
also the new `__refinedTrial`. -/
theorem doLocalRefinement_src (c : Ctx α) (d : Nat) (number : Int) (ps : PState α) (s : State α) (slot : Nat)
    (hm : ps.m = some s) (hres : Resolved ps s) (hslot : slot = s.best ∨ slot = reportedId ps s)
    {b : Item α} (hb : findItem s.items (reportedId ps s) = some b) :
    run c (d+1) Gen.ProcSrc.doLocalRefinement [("number", number)] ⟨ps, slot⟩ =
      .done ⟨Proc.doLocalRefinement ps (c.lr b.point), reportedId ps s⟩ none := by
  have hsa := slotAfter_of_ok hslot
  rw [doLocalRefinement_run c d number ps s slot hm (hres.slot hslot) (b := b) (by rw [hsa]; exact hb), hsa,
    doLocalRefinement_some _ hm]

theorem Ctx.const_lr (lr : LocalResult α) (x0 : List α) : (Ctx.const lr).lr x0 = lr := rfl

/-- **… with the oracle of the model**: whatever `LocalResult` the model is given for the scipy call and the re-evaluation -/
theorem doLocalRefinement_src_lr (lr : LocalResult α) (d : Nat) (number : Int) (ps : PState α) (s : State α) (slot : Nat)
    (hm : ps.m = some s) (hres : Resolved ps s) (hslot : slot = s.best ∨ slot = reportedId ps s) :
    run (Ctx.const lr) (d+1) Gen.ProcSrc.doLocalRefinement [("number", number)] ⟨ps, slot⟩ =
      .done ⟨Proc.doLocalRefinement ps lr, reportedId ps s⟩ none ∧
    (Proc.doLocalRefinement ps lr).refined = some (reportedId ps s) := by
  obtain ⟨b, hb⟩ := Option.isSome_iff_exists.1 hres.reported
  exact ⟨doLocalRefinement_src (Ctx.const lr) d number ps s slot hm hres hslot hb, doLocalRefinement_refined lr hm⟩

/-- **the third possibility**: the slot holds the trial refined last (`ps.refined = some slot`).  Then the identity test fails and
`GetResults()` returns the solution with the slot UNCHANGED, whether or not that trial is the model's `reportedId ps s`; nothing
is dereferenced, so no hypothesis on the stored trials is needed.  It is the reported trial right after a refinement obeying the
contract (`slotOK_doLocalRefinement`); after a refinement that returns a value `≥` the value holder of `Method.best` (refining a
trial other than `Method.best`) it is NOT (`Examples`, `PS3`): there the source reports the refined trial and the model
`Method.best`, until the next `UpdateOptimum` resets the slot. -/
theorem getResults_src_refined_slot (c : Ctx α) (depth : Nat) (ints : List (String × Int)) (ps : PState α) (s : State α)
    (slot : Nat) (hm : ps.m = some s) (hslot : ps.refined = some slot) :
    run c depth Gen.ProcSrc.getResults ints ⟨ps, slot⟩ = .done ⟨ps, slot⟩ (some .solution) := by
  rw [getResults_run c depth ints ps s slot hm, slotAfter_refined ps s hslot]
  intro r hr hne
  rw [hslot] at hr
  exact absurd (Option.some.inj hr).symm hne

/-- the `GetResults()` that follows `DoLocalRefinement` (in `Solve`: `result = self.GetResults()`) returns the trial just refined,
for ANY `LocalResult` -/
theorem getResults_after_doLocalRefinement (c : Ctx α) (depth : Nat) (ints : List (String × Int)) (ps : PState α) (s : State α)
    (lr : LocalResult α) (hm : ps.m = some s) :
    run c depth Gen.ProcSrc.getResults ints ⟨Proc.doLocalRefinement ps lr, reportedId ps s⟩ =
      .done ⟨Proc.doLocalRefinement ps lr, reportedId ps s⟩ (some .solution) :=
  getResults_src_refined_slot c depth ints _ _ _ (by rw [doLocalRefinement_some lr hm]) (doLocalRefinement_refined lr hm)

/-- `DoLocalRefinement` keeps the stored ids, and the trial it remembers is stored -/
theorem Resolved.doLocalRefinement {ps : PState α} {s : State α} (lr : LocalResult α) (hm : ps.m = some s) (h : Resolved ps s) :
    Resolved (Proc.doLocalRefinement ps lr) { s with items := s.items.map (refineItem (reportedId ps s) lr) } := by
  have hsome : ∀ id, (findItem s.items id).isSome →
      (findItem (s.items.map (refineItem (reportedId ps s) lr)) id).isSome := by
    intro id hid
    rw [findItem_map_refineItem]
    obtain ⟨a, ha⟩ := Option.isSome_iff_exists.1 hid
    rw [ha]; rfl
  refine ⟨hsome _ h.1, fun r hr => ?_⟩
  rw [doLocalRefinement_refined lr hm] at hr
  cases hr
  exact hsome _ h.reported

/-! ### the two one-token edits of the condition of `GetResults` -/

/-- `GetResults` without the identity test `solution.bestTrials[0] is not refined` -/
def getResultsNoIdentity : List Stmt :=
  [
    .assign "solution" "self.searchData.solution",
    .assign "refined" "self.__refinedTrial",
    .ite "refined is not None and (refined.functionValues[0].value < solution.bestTrials[0].functionValues[0].value)" [
      .assign "solution.bestTrials[0]" "refined"] [],
    .ret "solution"]

/-- `GetResults` with `<=` for `<` -/
def getResultsLe : List Stmt :=
  [
    .assign "solution" "self.searchData.solution",
    .assign "refined" "self.__refinedTrial",
    .ite "refined is not None and solution.bestTrials[0] is not refined and (refined.functionValues[0].value <= solution.bestTrials[0].functionValues[0].value)" [
      .assign "solution.bestTrials[0]" "refined"] [],
    .ret "solution"]

theorem lk_cNoId : condTable.lookup
    "refined is not None and (refined.functionValues[0].value < solution.bestTrials[0].functionValues[0].value)" =
    some (.refinedBetter .lt false) := by decide +kernel

/-- **the identity test is redundant** when `<` is irreflexive (true for `ℝ`, `ℚ` and for IEEE doubles, `nan < nan` being false):
without it the tree computes the same slot and returns the same object - if the refined trial IS the one in the slot, its value
holder is compared with itself. -/
theorem getResults_noIdentity_run (hirr : ∀ a : α, ¬ a < a) (c : Ctx α) (depth : Nat) (ints : List (String × Int))
    (ps : PState α) (s : State α) (slot : Nat) (hm : ps.m = some s)
    (hres : ∀ r, ps.refined = some r → (findItem s.items r).isSome ∧ (findItem s.items slot).isSome) :
    run c depth getResultsNoIdentity ints ⟨ps, slot⟩ = .done ⟨ps, slotAfter ps s slot⟩ (some .solution) := by
  simp only [run, runBody, getResultsNoIdentity, execList, execStmt, lk_aSolution, lk_aRefined, lk_cNoId, lk_rSolution,
    execAssign, evalCond]
  cases hr : ps.refined with
  | none => simp only [slotAfter, hr, ↓reduceIte]
  | some r =>
    obtain ⟨h1, h2⟩ := hres r hr
    obtain ⟨ri, hri⟩ := Option.isSome_iff_exists.1 h1
    obtain ⟨bi, hbi⟩ := Option.isSome_iff_exists.1 h2
    simp only [Bool.false_eq_true, false_and, ↓reduceIte, hm, hri, hbi, Cmp.holds]
    by_cases hrs : r = slot
    · subst hrs
      rw [hri] at hbi; cases hbi
      simp only [hirr ri.hv, decide_false, slotAfter, hr, ↓reduceIte]
    · simp only [slotAfter, hr, hrs, ↓reduceIte, hri, hbi]
      by_cases hlt : ri.hv < bi.hv
      · simp only [hlt, decide_true, ↓reduceIte, lk_aSlot]
      · simp only [hlt, decide_false, ↓reduceIte]

end ReportInterp
end

/-! ## Reachable states: the hypotheses of the ties hold, and the refinement contract keeps the slot on the reported trial -/

namespace ReportInterp
open AGP AGP.Ctl Proc Gen.ProcSrc
variable {α : Type} [Field α] [LinearOrder α] [IsStrictOrderedRing α] [Fns α]

/-- **a refinement obeying the contract leaves the slot on the reported trial**: `DoLocalRefinement` ends with the slot (and
`__refinedTrial`) `= reportedId ps s`; if the value returned is not larger than the value holder of that trial (the Nelder-Mead
contract `RefineLe`), that trial is the reported one of the NEW state as well, so the next `GetResults()` finds the slot as
`getResults_src` wants it. -/
theorem slotOK_doLocalRefinement {ps : PState α} {s : State α} (lr : LocalResult α) (hm : ps.m = some s) {b : Item α}
    (hb : findItem s.items (reportedId ps s) = some b) (hle : lr.fx ≤ b.hv) :
    ∃ s', (Proc.doLocalRefinement ps lr).m = some s' ∧ reportedId (Proc.doLocalRefinement ps lr) s' = reportedId ps s :=
  ⟨_, by rw [doLocalRefinement_some lr hm], reportedId_refine_of_le lr hm hb hle⟩

/-- the invariant `RepOK` of `ProcessReported.lean` and: the trial refined last is stored -/
def ResOK (p : Params α) (ps : PState α) : Prop :=
  RepOK p ps ∧ ∀ s, ps.m = some s → ∀ r, ps.refined = some r → (findItem s.items r).isSome

theorem resOK_fresh (p : Params α) : ResOK p ({} : PState α) := ⟨repOK_fresh p, fun s hs => absurd hs (by simp)⟩

theorem findItem_isSome_iff (l : List (Item α)) (id : Nat) : (findItem l id).isSome ↔ ∃ a ∈ l, a.id = id := by
  unfold findItem
  rw [List.find?_isSome]
  simp only [beq_iff_eq]

theorem resOK_stepInv {p : Params α} {f : Nat → List α → Option α} (hL : FnsLaws α) (hr : 1 < p.r) (hn : 0 < p.n)
    (htot : ∀ i pt, f i pt ≠ none) : StepInv p f (ResOK p) where
  log := fun ps l h => ⟨(repOK_stepInv hL hr hn htot).log ps l h.1, h.2⟩
  ok := by
    rintro ps ps' id ⟨hOK, hres⟩ hok
    refine ⟨repOK_ok hL hr hn hOK hok, ?_⟩
    intro s' hs' r hr'
    rw [oneIteration_ok_refined hok] at hr'
    obtain ⟨-, -, pt, z, -, -, hcase⟩ := oneIteration_ok hok
    rcases hcase with ⟨hm, -⟩ | ⟨s, pr, hm, hpr, -, hms', -, -⟩
    · rw [hOK.2.1 hm] at hr'; cases hr'
    · rw [hms'] at hs'; cases hs'
      obtain ⟨a, ha, hid⟩ := (findItem_isSome_iff _ _).1 (hres s hm r hr')
      obtain ⟨a', ha', e⟩ := List.mem_map.1 (((commit_ext hpr z).1 (rec4 a)).2 (.inr (List.mem_map_of_mem ha)))
      simp only [rec4, Prod.mk.injEq] at e
      exact (findItem_isSome_iff _ _).2 ⟨a', ha', by rw [e.1]; exact hid⟩
  err := fun _ _ _ h herr => (baseOK_no_error hL hr hn htot h.1.1 herr).elim

theorem resOK_refInv {p : Params α} (hL : FnsLaws α) (hr : 1 < p.r) (hn : 0 < p.n)
    {refine : PState α → Option (LocalResult α)} (href : RefineLe refine) : RefInv (ResOK p) refine := by
  rintro ps lr hlr ⟨hOK, hres⟩
  refine ⟨repOK_refInv hL hr hn href ps lr hlr hOK, ?_⟩
  intro s' hs' r hr'
  cases hm : ps.m with
  | none =>
    rw [doLocalRefinement_none lr hm] at hs'
    rw [hm] at hs'; cases hs'
  | some s =>
    rw [doLocalRefinement_some lr hm] at hs' hr'
    simp only [Option.some.injEq] at hs' hr'
    subst hs' hr'
    obtain ⟨it, hit, -⟩ := hOK.reported hL hr hn hm
    show (findItem (s.items.map (refineItem (reportedId ps s) lr)) (reportedId ps s)).isSome
    rw [findItem_map_refineItem, hit]; rfl

/-- **every reachable state resolves**: after any sequence of `DoGlobalIteration(k)` / `Solve` calls on a fresh solver (objective
never raises, refinements obey the contract) the method's best and the trial refined last are stored trials - the hypothesis
`Resolved` of `getResults_src` / `doLocalRefinement_src` -/
theorem resolved_reachable (p : Params α) (f : Nat → List α → Option α) (refine : PState α → Option (LocalResult α))
    (hL : FnsLaws α) (hr : 1 < p.r) (hn : 0 < p.n) (htot : ∀ k pt, f k pt ≠ none) (href : RefineLe refine)
    (ops : List Op) (s : State α) (hm : (runOps p f refine ops {}).m = some s) :
    Resolved (runOps p f refine ops {}) s := by
  have hOK : ResOK p (runOps p f refine ops {}) :=
    (resOK_stepInv hL hr hn htot).runOps (resOK_refInv hL hr hn href) ops (resOK_fresh p)
  exact ⟨by obtain ⟨bi, hbi, -⟩ := (hOK.1.1.facts hL hr hn hm).best; rw [hbi]; rfl, hOK.2 s hm⟩

/-- **`GetResults()` on every reachable state**: the generated tree, run on the state after any sequence of operations with the
slot as `UpdateOptimum` or a previous `GetResults()` left it, returns the solution with the slot on the model's reported trial -/
theorem getResults_src_reachable (p : Params α) (f : Nat → List α → Option α) (refine : PState α → Option (LocalResult α))
    (hL : FnsLaws α) (hr : 1 < p.r) (hn : 0 < p.n) (htot : ∀ k pt, f k pt ≠ none) (href : RefineLe refine)
    (ops : List Op) (s : State α) (hm : (runOps p f refine ops {}).m = some s)
    (c : Ctx α) (depth : Nat) (ints : List (String × Int)) (slot : Nat)
    (hslot : slot = s.best ∨ slot = reportedId (runOps p f refine ops {}) s) :
    run c depth Gen.ProcSrc.getResults ints ⟨runOps p f refine ops {}, slot⟩ =
      .done ⟨runOps p f refine ops {}, reportedId (runOps p f refine ops {}) s⟩ (some .solution) :=
  getResults_src c depth ints _ s slot hm (resolved_reachable p f refine hL hr hn htot href ops s hm) hslot

end ReportInterp

/-! ## Non-vacuity, and what the ties exclude: concrete runs over `ℚ` (`ProcToy`: `N = 1`, objective `(x - 1/3)^2`) -/

namespace ReportInterp.Examples
open AGP Proc ProcToy
open Gen.ProcSrc (Stmt)

/-- a decidable view of an outcome: slot, returned value, `__refinedTrial`, `numberOfLocalTrials`, `Method.best`,
(id, point, value holder) of every stored trial -/
structure View where
  slot : Nat
  ret : Option Val
  refined : Option Nat
  nLocal : Nat
  best : Option Nat
  items : Option (List (Nat × List Rat × Rat))
deriving DecidableEq

def viewG (g : Glob Rat) (ret : Option Val) : View :=
  { slot := g.slot, ret := ret, refined := g.ps.refined, nLocal := g.ps.nLocal, best := g.ps.m.map (·.best),
    items := g.ps.m.map fun s => s.items.map fun it => (it.id, it.point, it.hv) }

/-- `none`: stuck -/
def view (o : POut Rat) : Option View :=
  match o with
  | .done g ret => some (viewG g ret)
  | .stuck => none

/-- a Boolean form of `Resolved` -/
def resolvedB (ps : PState Rat) (s : State Rat) : Bool :=
  (findItem s.items s.best).isSome && match ps.refined with
    | none => true
    | some r => (findItem s.items r).isSome

theorem resolved_of_check {ps : PState Rat} {s : State Rat} (h : resolvedB ps s = true) : Resolved ps s := by
  unfold resolvedB at h
  rw [Bool.and_eq_true] at h
  refine ⟨h.1, fun r hr => ?_⟩
  have h2 := h.2
  rw [hr] at h2
  exact h2

/-- the refinement of the examples of `IOptProps/C04reported.lean`: the reported trial moves to `x = 1/3`, value `0` -/
def exRefine : PState Rat → Option (LocalResult Rat) := fun _ => some { x := [1/3], fx := 0, nfev := 7 }

/-- `Solve()` with budget 3, no refinement: trials 2, 3, 4; `Method.best` = 3; nothing refined -/
def PS0 : PState Rat := solve (P 3 (1/10)) F noRefine {}
/-- `Solve()` with budget 5 and refinement (trial 6 gets the value `0`), then three more global iterations: `Method.best` moves to
trial 9 (value `130321/268435456 > 0`), the refined trial 6 stays the reported one (the scenario of defect F14) -/
def PS1 : PState Rat := doGlobalIteration (P 5 (1/10)) F 3 (solve (P 5 (1/10)) F exRefine {}) [] |>.s

def S0 : State Rat := PS0.m.get (by decide +kernel)
def S1 : State Rat := PS1.m.get (by decide +kernel)
theorem hm0 : PS0.m = some S0 := (Option.some_get _).symm
theorem hm1 : PS1.m = some S1 := (Option.some_get _).symm

example : S0.best = 3 ∧ PS0.refined = none ∧ reportedId PS0 S0 = 3 ∧
    S1.best = 9 ∧ PS1.refined = some 6 ∧ reportedId PS1 S1 = 6 := by decide +kernel

theorem res0 : Resolved PS0 S0 := resolved_of_check (by decide +kernel)
theorem res1 : Resolved PS1 S1 := resolved_of_check (by decide +kernel)

/-- oracles that are NOT constant: Nelder-Mead moves the start point by `1/100` (11 evaluations), `problemCalculate` is the objective -/
def C : Ctx Rat := { minimize := fun x0 => (x0.map (· + 1/100), 11), evalAt := fun y => (y.headD 0 - 1/3) * (y.headD 0 - 1/3) }

/-- the interpreter RUN on the generated tree of `GetResults`: nothing refined - the slot keeps `Method.best`; refined trial 6
better than `Method.best` = 9 - the slot is re-pointed from 9 to 6 and stays there at the next call; the object is returned and the
model state is untouched -/
example :
    view (run C 0 Gen.ProcSrc.getResults [] ⟨PS0, 3⟩) = some (viewG ⟨PS0, 3⟩ (some .solution)) ∧
    view (run C 0 Gen.ProcSrc.getResults [] ⟨PS1, 9⟩) = some (viewG ⟨PS1, 6⟩ (some .solution)) ∧
    view (run C 0 Gen.ProcSrc.getResults [] ⟨PS1, 6⟩) = some (viewG ⟨PS1, 6⟩ (some .solution)) := by decide +kernel

/-- the interpreter RUN on the generated tree of `DoLocalRefinement` (`GetResults` through its own tree, depth 1): the model's
result for the `LocalResult` that the oracles give from the point of the REPORTED trial (`[1/4]` for trial 3, `[1/3]` for trial 6,
not `Method.best` = 9), for `number = -1` and `number = 20` -/
example :
    view (run C 1 Gen.ProcSrc.doLocalRefinement [("number", -1)] ⟨PS0, 3⟩) =
      some (viewG ⟨Proc.doLocalRefinement PS0 (C.lr [1/4]), 3⟩ none) ∧
    view (run C 1 Gen.ProcSrc.doLocalRefinement [("number", 20)] ⟨PS1, 9⟩) =
      some (viewG ⟨Proc.doLocalRefinement PS1 (C.lr [1/3]), 6⟩ none) ∧
    (view (run C 1 Gen.ProcSrc.doLocalRefinement [("number", 20)] ⟨PS1, 9⟩)).map (fun v => (v.slot, v.refined, v.nLocal)) =
      some (6, some 6, 11) ∧
    ((view (run C 1 Gen.ProcSrc.doLocalRefinement [("number", 20)] ⟨PS1, 9⟩)).bind (·.items)).map (·.filter (·.1 == 6)) =
      some [(6, [103/300], 1/10000)] := by decide +kernel

/-- the tie theorems instantiated at these runs (their hypotheses hold) -/
example := getResults_src C 0 [] PS1 S1 9 hm1 res1 (.inl (by decide +kernel))
example := getResults_src C 0 [] PS1 S1 6 hm1 res1 (.inr (by decide +kernel))
example := getResults_src C 0 [] PS0 S0 3 hm0 res0 (.inl (by decide +kernel))
example := doLocalRefinement_src_lr ({ x := [1/3], fx := 0, nfev := 7 } : LocalResult Rat) 0 (-1) PS1 S1 9 hm1 res1 (.inl (by decide +kernel))

/-- `DoLocalRefinement` at call depth 0 cannot call `self.GetResults`: stuck (the hypothesis `d+1` is needed); before the first
iteration (`m = none`) the tree is stuck too (the slot holds the placeholder `Trial([], [])`, which has no value holder) -/
example : view (run C 0 Gen.ProcSrc.doLocalRefinement [("number", -1)] ⟨PS1, 9⟩) = none ∧
    view (run C 1 Gen.ProcSrc.doLocalRefinement [("number", -1)] ⟨{}, 0⟩) = none := by decide +kernel

/-- statements outside the tables are not silently accepted: the other trees of `process.py`, an unknown assignment, the scipy
call without `bounds=bounds` (defect F5) -/
example : view (run C 1 Gen.ProcSrc.solve [] ⟨PS1, 9⟩) = none ∧
    view (run C 1 Gen.ProcSrc.problemCalculate [] ⟨PS1, 9⟩) = none ∧
    view (run C 1 [.assign "solution.bestTrials[0]" "self.method.best"] [] ⟨PS1, 9⟩) = none ∧
    view (run C 1 [
      .call ["result"] "self.GetResults" [],
      .assign "startPoint" "result.bestTrials[0].point.floatVariables",
      .call ["bounds"] "Bounds" ["self.task.problem.lowerBoundOfFloatVariables", "self.task.problem.upperBoundOfFloatVariables"],
      .call ["nelder_mead"] "scipy.optimize.minimize" ["self.problemCalculate", "x0=startPoint", "method='Nelder-Mead'",
        "options={'maxiter': self.localMethodIterationCount}"]] [] ⟨PS1, 9⟩) = none := by decide +kernel

/-! ### seeded edits of the source are NOT equal to the model (or provably harmless) -/

/-- the state for the `<=` edit: as `PS1`, but the first refinement returns exactly the value that trial 9 will have -/
def eqRefine : PState Rat → Option (LocalResult Rat) := fun _ => some { x := [1/3], fx := 130321/268435456, nfev := 7 }
def PS2 : PState Rat := doGlobalIteration (P 5 (1/10)) F 3 (solve (P 5 (1/10)) F eqRefine {}) [] |>.s
def S2 : State Rat := PS2.m.get (by decide +kernel)

/-- **`<` replaced by `<=`**: the edited tree runs and re-points the slot to the refined trial 6, whose value holder EQUALS that of
`Method.best` = 9; the model (and the source) keep reporting trial 9 -/
theorem le_not_model : run C 0 getResultsLe [] ⟨PS2, 9⟩ ≠ .done ⟨PS2, reportedId PS2 S2⟩ (some .solution) := by
  intro h
  have h' := congrArg (fun o => (view o).map (·.slot)) h
  revert h'
  decide +kernel

example : (view (run C 0 getResultsLe [] ⟨PS2, 9⟩)).map (·.slot) = some 6 ∧ reportedId PS2 S2 = 9 ∧
    (view (run C 0 Gen.ProcSrc.getResults [] ⟨PS2, 9⟩)).map (·.slot) = some 9 := by decide +kernel

/-- **the identity test dropped**: harmless (`getResults_noIdentity_run`); here the run -/
example : view (run C 0 getResultsNoIdentity [] ⟨PS1, 9⟩) = view (run C 0 Gen.ProcSrc.getResults [] ⟨PS1, 9⟩) ∧
    view (run C 0 getResultsNoIdentity [] ⟨PS1, 6⟩) = view (run C 0 Gen.ProcSrc.getResults [] ⟨PS1, 6⟩) := by decide +kernel

/-- `GetResults` without the re-pointing `solution.bestTrials[0] = refined` (the code before the repair of F14) -/
def getResultsNoRepoint : List Stmt :=
  [
    .assign "solution" "self.searchData.solution",
    .assign "refined" "self.__refinedTrial",
    .ite "refined is not None and solution.bestTrials[0] is not refined and (refined.functionValues[0].value < solution.bestTrials[0].functionValues[0].value)" [] [],
    .ret "solution"]

/-- **the re-pointing dropped**: the tree runs and reports `Method.best` = 9 (value `> 0`) instead of the refined trial 6 (value 0) -/
theorem noRepoint_not_model : run C 0 getResultsNoRepoint [] ⟨PS1, 9⟩ ≠ .done ⟨PS1, reportedId PS1 S1⟩ (some .solution) := by
  intro h
  have h' := congrArg (fun o => (view o).map (·.slot)) h
  revert h'
  decide +kernel

/-- `DoLocalRefinement` without its last line -/
def dlrNoRemember : List Stmt :=
  [
    .assign "self.localMethodIterationCount" "number",
    .ite "number == -1" [
      .assign "self.localMethodIterationCount" "self.parameters.itersLimit * 0.05"] [],
    .call ["result"] "self.GetResults" [],
    .assign "startPoint" "result.bestTrials[0].point.floatVariables",
    .call ["bounds"] "Bounds" ["self.task.problem.lowerBoundOfFloatVariables", "self.task.problem.upperBoundOfFloatVariables"],
    .call ["nelder_mead"] "scipy.optimize.minimize" ["self.problemCalculate", "x0=startPoint", "method='Nelder-Mead'", "options={'maxiter': self.localMethodIterationCount}", "bounds=bounds"],
    .assign "result.bestTrials[0].point.floatVariables" "nelder_mead.x",
    .call ["result.bestTrials[0].functionValues[0].value"] "self.problemCalculate" ["result.bestTrials[0].point.floatVariables"],
    .assign "result.numberOfLocalTrials" "nelder_mead.nfev"]

/-- **the last line `self.__refinedTrial = result.bestTrials[0]` dropped**: the tree runs, the trial is refined, but
`__refinedTrial` stays `None` where the model has `some 3` -/
theorem noRemember_not_model :
    run C 1 dlrNoRemember [("number", -1)] ⟨PS0, 3⟩ ≠ .done ⟨Proc.doLocalRefinement PS0 (C.lr [1/4]), 3⟩ none := by
  intro h
  have h' := congrArg (fun o => (view o).map (·.refined)) h
  revert h'
  decide +kernel

example : (view (run C 1 dlrNoRemember [("number", -1)] ⟨PS0, 3⟩)).map (fun v => (v.refined, v.nLocal)) = some (none, 11) := by
  decide +kernel

/-- `DoLocalRefinement` with the re-evaluation BEFORE the overwrite of the point -/
def dlrEvalFirst : List Stmt :=
  [
    .assign "self.localMethodIterationCount" "number",
    .ite "number == -1" [
      .assign "self.localMethodIterationCount" "self.parameters.itersLimit * 0.05"] [],
    .call ["result"] "self.GetResults" [],
    .assign "startPoint" "result.bestTrials[0].point.floatVariables",
    .call ["bounds"] "Bounds" ["self.task.problem.lowerBoundOfFloatVariables", "self.task.problem.upperBoundOfFloatVariables"],
    .call ["nelder_mead"] "scipy.optimize.minimize" ["self.problemCalculate", "x0=startPoint", "method='Nelder-Mead'", "options={'maxiter': self.localMethodIterationCount}", "bounds=bounds"],
    .call ["result.bestTrials[0].functionValues[0].value"] "self.problemCalculate" ["result.bestTrials[0].point.floatVariables"],
    .assign "result.bestTrials[0].point.floatVariables" "nelder_mead.x",
    .assign "result.numberOfLocalTrials" "nelder_mead.nfev",
    .assign "self.__refinedTrial" "result.bestTrials[0]"]

/-- **the two overwrites swapped**: the value holder gets the objective at the OLD point (`1/144` at `[1/4]`) and not at the point
stored with it (`49/90000` at `[13/50]`) -/
theorem evalFirst_not_model :
    run C 1 dlrEvalFirst [("number", -1)] ⟨PS0, 3⟩ ≠ .done ⟨Proc.doLocalRefinement PS0 (C.lr [1/4]), 3⟩ none := by
  intro h
  have h' := congrArg (fun o => (view o).map (·.items)) h
  revert h'
  decide +kernel

/-- `DoLocalRefinement` starting from `Method.best` instead of `GetResults()` cannot even be written with the strings of the
tables; dropping the call `result = self.GetResults()` leaves `result` unbound: stuck -/
example : view (run C 1 (Gen.ProcSrc.doLocalRefinement.eraseIdx 2) [("number", -1)] ⟨PS1, 9⟩) = none := by decide +kernel

/-! ### the third possibility: the slot holds a refined trial that is no longer the reported one -/

/-- a refinement that VIOLATES the Nelder-Mead contract (`RefineLe`): from `PS1` (reported trial 6, value 0) it returns the
value 1 -/
def PS3 : PState Rat := Proc.doLocalRefinement PS1 { x := [1/3], fx := 1, nfev := 7 }
def S3 : State Rat := PS3.m.get (by decide +kernel)

/-- after it `DoLocalRefinement` leaves the refined trial 6 in the slot, the model's `reportedId` is `Method.best` = 9 (value
`130321/268435456 < 1`), and `GetResults()` - source tree - returns the slot unchanged (`solution.bestTrials[0] is refined`): trial 6
with the value 1, until the next `UpdateOptimum` resets the slot.  Source and model part here; the contract excludes it
(`slotOK_doLocalRefinement`). -/
example : (view (run (Ctx.const { x := [1/3], fx := 1, nfev := 7 }) 1 Gen.ProcSrc.doLocalRefinement [("number", -1)] ⟨PS1, 9⟩)).map
      (fun v => (v.slot, v.refined)) = some (6, some 6) ∧
    reportedId PS3 S3 = 9 ∧
    (view (run C 0 Gen.ProcSrc.getResults [] ⟨PS3, 6⟩)).map (·.slot) = some 6 ∧
    (view (run C 0 Gen.ProcSrc.getResults [] ⟨PS3, 9⟩)).map (·.slot) = some 9 := by decide +kernel

end ReportInterp.Examples
