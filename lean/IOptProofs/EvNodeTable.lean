import IOptModel.Evolvent
import IOptGen.NodeTable
/-!
The hand-written `Ev.node` / `Ev.numbr` coincide, on their WHOLE domain for N = 2..7, with the
input/output tables of `Evolvent.__CalculateNode` / `__CalculateNumbr` that the translator extracts
from the running Python code on every run (`IOptGen/NodeTable.lean`).  A change of either function
in /repo changes the regenerated table and breaks these kernel-decided equalities.
-/
namespace Ev

def nodeTableOf (n : Nat) : List (Nat × List Int × List Int) := (List.range (2^n)).map (node n)

def numbrRowOK (n : Nat) (row : List Int × Nat × Nat × List Int) : Bool :=
  numbr n row.1 == (row.2.1, row.2.2.1, row.2.2.2)

theorem node_table2 : nodeTableOf 2 = Gen.nodeTable2 := by decide +kernel
theorem node_table3 : nodeTableOf 3 = Gen.nodeTable3 := by decide +kernel
theorem node_table4 : nodeTableOf 4 = Gen.nodeTable4 := by decide +kernel
theorem node_table5 : nodeTableOf 5 = Gen.nodeTable5 := by decide +kernel
theorem node_table6 : nodeTableOf 6 = Gen.nodeTable6 := by decide +kernel
theorem node_table7 : nodeTableOf 7 = Gen.nodeTable7 := by decide +kernel

theorem numbr_table2 : Gen.numbrTable2.length = 2^2 ∧ Gen.numbrTable2.all (numbrRowOK 2) = true := by decide +kernel
theorem numbr_table3 : Gen.numbrTable3.length = 2^3 ∧ Gen.numbrTable3.all (numbrRowOK 3) = true := by decide +kernel
theorem numbr_table4 : Gen.numbrTable4.length = 2^4 ∧ Gen.numbrTable4.all (numbrRowOK 4) = true := by decide +kernel
theorem numbr_table5 : Gen.numbrTable5.length = 2^5 ∧ Gen.numbrTable5.all (numbrRowOK 5) = true := by decide +kernel
theorem numbr_table6 : Gen.numbrTable6.length = 2^6 ∧ Gen.numbrTable6.all (numbrRowOK 6) = true := by decide +kernel
theorem numbr_table7 : Gen.numbrTable7.length = 2^7 ∧ Gen.numbrTable7.all (numbrRowOK 7) = true := by decide +kernel

end Ev
