import IOptProofs.GrishDefs
/-! kernel-evaluated certificates (V), (G), (P) of the Grishagin functions 91..95 (one block per file, identical template;
one theorem per function so that the kernel's reduction cache is released between functions) -/
namespace Grish
set_option maxRecDepth 100000
theorem grish_ok_91 : grishOK 91 = true := by decide +kernel
theorem grish_ok_92 : grishOK 92 = true := by decide +kernel
theorem grish_ok_93 : grishOK 93 = true := by decide +kernel
theorem grish_ok_94 : grishOK 94 = true := by decide +kernel
theorem grish_ok_95 : grishOK 95 = true := by decide +kernel
theorem grish_block_18 : ∀ k ∈ List.range' 91 5, grishOK k = true := by
  intro k hk
  simp only [List.mem_range'_1] at hk
  obtain ⟨h1, h2⟩ := hk
  have : k = 91 ∨ k = 92 ∨ k = 93 ∨ k = 94 ∨ k = 95 := by omega
  rcases this with rfl | rfl | rfl | rfl | rfl
  · exact grish_ok_91
  · exact grish_ok_92
  · exact grish_ok_93
  · exact grish_ok_94
  · exact grish_ok_95
end Grish
