import IOptProofs.ProcessRefine
import IOptProofs.MethodRun
/-!
# Compositions (worker m), part 1: invariants that survive EVERY sequence of user operations

`Proc.StepInv p f I`: a predicate `I` on process states that is preserved by one pass of
`DoGlobalIteration` (whether it succeeds or raises), by `DoLocalRefinement` and by writing to the event
log.  Such a predicate holds after any sequence of `DoGlobalIteration(k)` / `Solve` calls on a fresh
solver (`Proc.runOps`), also when the objective raises in between.

`Proc.CurveInv p ps`: every recorded evaluation was made at `p.image x` for a curve coordinate
`0 < x < 1`, and all stored curve coordinates lie in `[0, 1]`.  No law of the library functions, no
assumption on `r`, `eps` is needed: the range test of `CalculateNextPointCoordinate` itself guarantees it.
-/
set_option linter.unusedSectionVars false

namespace AGP
variable {α : Type} [Field α] [LinearOrder α] [IsStrictOrderedRing α] [Fns α]

/-! ## list helpers -/

theorem leftOf_mem : ∀ (l : List (Item α)) (id : Nat) (a : Item α), leftOf l id = some a → a ∈ l
  | [], _, _, h => by simp [leftOf] at h
  | [_], _, _, h => by simp [leftOf] at h
  | c :: b :: t, id, a, h => by
    rw [leftOf] at h
    split at h
    · cases h; simp
    · exact List.mem_cons_of_mem _ (leftOf_mem (b :: t) id a h)

theorem findItem_mem {l : List (Item α)} {id : Nat} {a : Item α} (h : findItem l id = some a) : a ∈ l :=
  List.mem_of_find?_eq_some h

theorem mem_insertBefore {new old' : Item α} : ∀ {l : List (Item α)} {it : Item α},
    it ∈ insertBefore new old' l → it = new ∨ it = old' ∨ it ∈ l
  | [], it, h => by simp [insertBefore] at h
  | c :: t, it, h => by
    rw [insertBefore] at h
    split at h
    · simp only [List.mem_cons] at h ⊢
      rcases h with h | h | h
      · exact .inl h
      · exact .inr (.inl h)
      · exact .inr (.inr (.inr h))
    · rcases List.mem_cons.1 h with h | h
      · exact .inr (.inr (by rw [h]; simp))
      · rcases mem_insertBefore h with h | h | h
        · exact .inl h
        · exact .inr (.inl h)
        · exact .inr (.inr (List.mem_cons_of_mem _ h))

/-! ## item predicates through `prepare` and `commit` -/

section
variable {p : Params α} {s : State α} {pr : Prep α}

/-- what a successful `prepare` returns, without any invariant: `left`, `old` are stored items, the new
coordinate passed the range test, the point is its image, and the items are those of `s` up to the
stored characteristics -/
theorem prepare_ok_weak (h : prepare p s = .ok pr) :
    pr.old ∈ pr.s.items ∧ pr.left ∈ pr.s.items ∧ pr.left.x < pr.x ∧ pr.x < pr.old.x ∧
    pr.point = p.image pr.x ∧ pr.s.items.map eraseR = s.items.map eraseR := by
  obtain ⟨k, oid, q, -, hold, hleft, hs, -, hpt, hx⟩ := Ctl.prepare_ok h
  have hf := Ctl.selState_fields p s
  have hi : pr.s.items = (recalcAll p s).items := (Ctl.prepare_ok_fields h).2.2.2.2.2.2.2.1
  rw [hf.2.2.2.2.2.2.2.1] at hold hleft
  rw [not_or, not_le, not_le] at hx
  refine ⟨?_, ?_, hx.1, hx.2, hpt, ?_⟩
  · rw [hi]; exact findItem_mem hold
  · rw [hi]; exact leftOf_mem _ _ _ hleft
  · rw [hi]; exact recalcAll_items_erase p s

/-- a predicate on items that ignores the stored characteristic is transported by a successful `prepare` -/
theorem prepare_ok_forall {P : Item α → Prop} (hP : ∀ a, P (eraseR a) ↔ P a)
    (h : prepare p s = .ok pr) (hs : ∀ it ∈ s.items, P it) : ∀ it ∈ pr.s.items, P it :=
  (forall_transfer (prepare_ok_weak h).2.2.2.2.2 hP).2 hs

/-- and by a raising `prepare` -/
theorem prepare_error_forall {P : Item α → Prop} (hP : ∀ a, P (eraseR a) ↔ P a) {s' : State α} {e : Raise}
    (h : prepare p s = .error (s', e)) (hs : ∀ it ∈ s.items, P it) : ∀ it ∈ s'.items, P it := by
  have hi : s'.items = (recalcAll p s).items := (Ctl.prepare_error_fields h).2.2.2.2.2.2.1
  rw [hi]
  exact (forall_transfer (recalcAll_items_erase p s) hP).2 hs

/-- `commit`: a predicate on items that ignores `delta` and `R` and holds of the new item holds of all
items afterwards -/
theorem commit_forall {P : Item α → Prop}
    (hP : ∀ (a : Item α) (d : α) (R : Option α), P a → P { a with delta := d, R := R })
    (hold : pr.old ∈ pr.s.items) (hs : ∀ it ∈ pr.s.items, P it) (z : α) (hnew : P (cNew2 p pr z)) :
    ∀ it ∈ (commit p pr z).items, P it := by
  intro it hit
  rw [commit_eq] at hit
  rcases mem_insertBefore hit with rfl | rfl | h
  · exact hnew
  · exact hP pr.old _ _ (hs _ hold)
  · exact hs _ h

end

/-- all stored curve coordinates lie in `[0, 1]` -/
def XRange (s : State α) : Prop := ∀ it ∈ s.items, 0 ≤ it.x ∧ it.x ≤ 1

theorem half_pos_lt : (0 : α) < half ∧ (half : α) < 1 := by
  unfold half
  constructor
  · positivity
  · rw [div_lt_one (by positivity)]; norm_num

theorem xrange_first (p : Params α) (z : α) : XRange (firstIteration p z) := by
  intro it hit
  have h := half_pos_lt (α := α)
  simp only [firstIteration, List.mem_cons, List.not_mem_nil, or_false] at hit
  rcases hit with rfl | rfl | rfl
  · exact ⟨le_refl _, zero_le_one⟩
  · exact ⟨h.1.le, h.2.le⟩
  · exact ⟨zero_le_one, le_refl _⟩

theorem xrange_prepare_ok {p : Params α} {s : State α} {pr : Prep α} (h : prepare p s = .ok pr)
    (hs : XRange s) : XRange pr.s ∧ 0 < pr.x ∧ pr.x < 1 := by
  have hx : XRange pr.s := prepare_ok_forall (P := fun it => 0 ≤ it.x ∧ it.x ≤ 1) (fun _ => Iff.rfl) h hs
  obtain ⟨ho, hl, h1, h2, -, -⟩ := prepare_ok_weak h
  exact ⟨hx, lt_of_le_of_lt (hx _ hl).1 h1, lt_of_lt_of_le h2 (hx _ ho).2⟩

theorem xrange_prepare_error {p : Params α} {s s' : State α} {e : Raise} (h : prepare p s = .error (s', e))
    (hs : XRange s) : XRange s' :=
  prepare_error_forall (P := fun it => 0 ≤ it.x ∧ it.x ≤ 1) (fun _ => Iff.rfl) h hs

theorem xrange_commit {p : Params α} {s : State α} {pr : Prep α} (h : prepare p s = .ok pr)
    (hs : XRange s) (z : α) : XRange (commit p pr z) := by
  obtain ⟨hx, h0, h1⟩ := xrange_prepare_ok h hs
  exact commit_forall (P := fun it => 0 ≤ it.x ∧ it.x ≤ 1) (fun _ _ _ ha => ha)
    (prepare_ok_weak h).1 hx z ⟨h0.le, h1.le⟩

/-- In every reachable state (no assumption on the parameters): every item stores the image of its
coordinate, all coordinates lie in `[0,1]`, and every logged evaluation was made at the image of a
coordinate strictly inside `(0,1)`. -/
theorem Reach.curve {p : Params α} {s : State α} {log : List (List α × α)} (h : Reach p s log) :
    (∀ it ∈ s.items, it.point = p.image it.x) ∧ XRange s ∧
    ∀ e ∈ log, ∃ x : α, 0 < x ∧ x < 1 ∧ e.1 = p.image x := by
  refine Reach.induction (P := fun s log => (∀ it ∈ s.items, it.point = p.image it.x) ∧ XRange s ∧
    ∀ e ∈ log, ∃ x : α, 0 < x ∧ x < 1 ∧ e.1 = p.image x) ?_ ?_ h
  · intro z
    refine ⟨?_, xrange_first p z, ?_⟩
    · intro it hit
      simp only [firstIteration, List.mem_cons, List.not_mem_nil, or_false] at hit
      rcases hit with rfl | rfl | rfl <;> rfl
    · intro e he
      simp only [List.mem_singleton] at he
      subst he
      exact ⟨half, half_pos_lt.1, half_pos_lt.2, rfl⟩
  · intro s log pr z _ ⟨hpt, hx, hlog⟩ hp
    obtain ⟨hold, -, -, -, hpp, -⟩ := prepare_ok_weak hp
    obtain ⟨-, h0, h1⟩ := xrange_prepare_ok hp hx
    refine ⟨?_, xrange_commit hp hx z, ?_⟩
    · exact commit_forall (P := fun it => it.point = p.image it.x) (fun _ _ _ ha => ha) hold
        (prepare_ok_forall (P := fun it => it.point = p.image it.x) (fun _ => Iff.rfl) hp hpt) z hpp
    · intro e he
      rcases List.mem_append.1 he with he | he
      · exact hlog e he
      · simp only [List.mem_singleton] at he
        subst he
        exact ⟨pr.x, h0, h1, hpp⟩

end AGP

namespace Proc
open AGP AGP.Ctl
variable {α : Type} [Field α] [LinearOrder α] [IsStrictOrderedRing α] [Fns α]
variable {p : Params α} {f : Nat → List α → Option α}

/-- a predicate on process states preserved by every elementary step -/
structure StepInv (p : Params α) (f : Nat → List α → Option α) (I : PState α → Prop) : Prop where
  log : ∀ (ps : PState α) (l : List Event), I ps → I { ps with log := l }
  ok : ∀ (ps ps' : PState α) (id : Nat), I ps → oneIteration p f ps = .ok (ps', id) → I ps'
  err : ∀ (ps ps' : PState α) (e : Raise), I ps → oneIteration p f ps = .error (ps', e) → I ps'

/-- the predicate is preserved by the refinements that `refine` can produce -/
def RefInv (I : PState α → Prop) (refine : PState α → Option (LocalResult α)) : Prop :=
  ∀ (ps : PState α) (lr : LocalResult α), refine ps = some lr → I ps → I (doLocalRefinement ps lr)

namespace StepInv
variable {I : PState α → Prop}

theorem dgi (h : StepInv p f I) (k : Nat) {ps : PState α} {saved : List Nat} (hI : I ps) :
    I (doGlobalIteration p f k ps saved).s := by
  induction k generalizing ps saved with
  | zero => exact h.log _ _ hI
  | succ k ih =>
    unfold doGlobalIteration
    cases hone : oneIteration p f ps with
    | error e => obtain ⟨ps', e⟩ := e; exact h.err _ _ _ hI hone
    | ok r => obtain ⟨ps', id⟩ := r; exact ih (h.ok _ _ _ hI hone)

theorem solveLoop (h : StepInv p f I) (fuel : Nat) {ps : PState α} (hI : I ps) :
    I (solveLoop p f fuel ps).1 := by
  induction fuel generalizing ps with
  | zero => exact hI
  | succ fuel ih =>
    unfold Proc.solveLoop
    split
    · exact hI
    · have hd := h.dgi 1 (saved := []) hI
      simp only []
      split
      · exact h.log _ _ hd
      · exact ih hd

theorem solve (h : StepInv p f I) {refine : PState α → Option (LocalResult α)} (hr : RefInv I refine)
    {ps : PState α} (hI : I ps) : I (solve p f refine ps) := by
  rw [solve_eq]
  apply h.log
  unfold refineStep
  split
  · next lr hlr => exact hr _ lr hlr (h.solveLoop _ hI)
  · exact h.solveLoop _ hI

theorem runOp (h : StepInv p f I) {refine : PState α → Option (LocalResult α)} (hr : RefInv I refine) (op : Op)
    {ps : PState α} (hI : I ps) : I (runOp p f refine op ps) := by
  cases op with
  | iter k => exact h.dgi k hI
  | solve => exact h.solve hr hI

/-- the invariant holds after any sequence of user operations -/
theorem runOps (h : StepInv p f I) {refine : PState α → Option (LocalResult α)} (hr : RefInv I refine)
    (ops : List Op) {ps : PState α} (hI : I ps) : I (runOps p f refine ops ps) := by
  induction ops generalizing ps with
  | nil => exact hI
  | cons op ops ih => exact ih (h.runOp hr op hI)

end StepInv

/-- Every recorded evaluation was made at the image of a curve coordinate strictly inside `(0, 1)`,
and every stored curve coordinate lies in `[0, 1]`. -/
def CurveInv (p : Params α) (ps : PState α) : Prop :=
  (∀ e ∈ ps.evals, ∃ x : α, 0 < x ∧ x < 1 ∧ e.1 = p.image x) ∧
  ∀ s, ps.m = some s → XRange s

theorem curveInv_fresh (p : Params α) : CurveInv p ({} : PState α) :=
  ⟨fun e he => absurd he (by simp), fun s hs => absurd hs (by simp)⟩

/-- `CurveInv` is preserved by every elementary step, for every objective (raising or not) -/
theorem curveInv_step (p : Params α) (f : Nat → List α → Option α) : StepInv p f (CurveInv p) where
  log := fun _ _ h => h
  ok := by
    intro ps ps' id ⟨he, hx⟩ hok
    obtain ⟨-, -, pt, z, -, hev, hcase⟩ := oneIteration_ok hok
    rcases hcase with ⟨-, hpt, hm', -, -⟩ | ⟨s, pr, hm, hpr, hpt, hm', -, -⟩
    · refine ⟨?_, ?_⟩
      · intro e hmem
        rw [hev] at hmem
        rcases List.mem_append.1 hmem with hmem | hmem
        · exact he e hmem
        · simp only [List.mem_singleton] at hmem
          subst hmem
          exact ⟨half, half_pos_lt.1, half_pos_lt.2, hpt⟩
      · intro s hs
        rw [hm'] at hs; cases hs
        exact xrange_first p z
    · have hxs := hx s hm
      obtain ⟨-, h0, h1⟩ := xrange_prepare_ok hpr hxs
      refine ⟨?_, ?_⟩
      · intro e hmem
        rw [hev] at hmem
        rcases List.mem_append.1 hmem with hmem | hmem
        · exact he e hmem
        · simp only [List.mem_singleton] at hmem
          subst hmem
          exact ⟨pr.x, h0, h1, by rw [hpt]; exact (prepare_ok_weak hpr).2.2.2.2.1⟩
      · intro s' hs'
        rw [hm'] at hs'; cases hs'
        exact xrange_commit hpr hxs z
  err := by
    intro ps ps' e ⟨he, hx⟩ herr
    obtain ⟨hev, -, hcase⟩ := oneIteration_error herr
    refine ⟨by rw [hev]; exact he, ?_⟩
    intro s' hs'
    rcases hcase with ⟨-, -, pt, -, ⟨-, -, hm', -⟩ | ⟨s, pr, hm, hpr, -, hm', -⟩⟩ | ⟨-, -, -, s, s'', hm, hpr, hm'⟩
    · rw [hm'] at hs'; cases hs'
    · rw [hm'] at hs'; cases hs'
      exact (xrange_prepare_ok hpr (hx s hm)).1
    · rw [hm'] at hs'; cases hs'
      exact xrange_prepare_error hpr (hx s hm)

/-- `DoLocalRefinement` (any result) preserves `CurveInv` -/
theorem curveInv_refine (p : Params α) {ps : PState α} (lr : LocalResult α) (h : CurveInv p ps) :
    CurveInv p (doLocalRefinement ps lr) := by
  obtain ⟨he, hx⟩ := h
  cases hm : ps.m with
  | none => rw [doLocalRefinement_none lr hm]; exact ⟨he, hx⟩
  | some s =>
    rw [doLocalRefinement_some lr hm]
    refine ⟨he, ?_⟩
    intro s' hs'
    simp only [Option.some.injEq] at hs'
    subst hs'
    intro it hit
    simp only [List.mem_map] at hit
    obtain ⟨a, ha, rfl⟩ := hit
    rw [(refineItem_fields (reportedId ps s) lr a).2.1]
    exact hx s hm a ha

/-- after any sequence of `DoGlobalIteration(k)` / `Solve` calls on a fresh solver -/
theorem curveInv_runOps (p : Params α) (f : Nat → List α → Option α)
    (refine : PState α → Option (LocalResult α)) (ops : List Op) :
    CurveInv p (runOps p f refine ops {}) :=
  (curveInv_step p f).runOps (fun _ lr _ h => curveInv_refine p lr h) ops (curveInv_fresh p)


/-! ## a predicate on the stored points -/

/-- `CurveInv`, and the stored point of every item of the search information satisfies `B` -/
def PointsInv (p : Params α) (B : List α → Prop) (ps : PState α) : Prop :=
  CurveInv p ps ∧ ∀ s, ps.m = some s → ∀ it ∈ s.items, B it.point

theorem pointsInv_fresh (p : Params α) (B : List α → Prop) : PointsInv p B ({} : PState α) :=
  ⟨curveInv_fresh p, fun s hs => absurd hs (by simp)⟩

/-- if `B` holds of the image of every `x ∈ [0,1]`, `PointsInv p B` is preserved by every pass -/
theorem pointsInv_step (p : Params α) (f : Nat → List α → Option α) (B : List α → Prop)
    (hB : ∀ x : α, 0 ≤ x → x ≤ 1 → B (p.image x)) : StepInv p f (PointsInv p B) where
  log := fun _ _ h => h
  ok := by
    intro ps ps' id ⟨hc, hb⟩ hok
    refine ⟨(curveInv_step p f).ok _ _ _ hc hok, ?_⟩
    obtain ⟨-, -, pt, z, -, -, hcase⟩ := oneIteration_ok hok
    intro s' hs'
    rcases hcase with ⟨-, -, hm', -, -⟩ | ⟨s, pr, hm, hpr, -, hm', -, -⟩
    · rw [hm'] at hs'; cases hs'
      intro it hit
      have hh := half_pos_lt (α := α)
      simp only [firstIteration, List.mem_cons, List.not_mem_nil, or_false] at hit
      rcases hit with rfl | rfl | rfl
      · exact hB 0 (le_refl _) zero_le_one
      · exact hB half hh.1.le hh.2.le
      · exact hB 1 zero_le_one (le_refl _)
    · rw [hm'] at hs'; cases hs'
      obtain ⟨hold, -, -, -, hpp, -⟩ := prepare_ok_weak hpr
      obtain ⟨-, h0, h1⟩ := xrange_prepare_ok hpr (hc.2 s hm)
      refine commit_forall (P := fun it => B it.point) (fun _ _ _ ha => ha) hold
        (prepare_ok_forall (P := fun it => B it.point) (fun _ => Iff.rfl) hpr (hb s hm)) z ?_
      show B pr.point
      rw [hpp]; exact hB _ h0.le h1.le
  err := by
    intro ps ps' e ⟨hc, hb⟩ herr
    refine ⟨(curveInv_step p f).err _ _ _ hc herr, ?_⟩
    obtain ⟨-, -, hcase⟩ := oneIteration_error herr
    intro s' hs'
    rcases hcase with ⟨-, -, pt, -, ⟨-, -, hm', -⟩ | ⟨s, pr, hm, hpr, -, hm', -⟩⟩ | ⟨-, -, -, s, s'', hm, hpr, hm'⟩
    · rw [hm'] at hs'; cases hs'
    · rw [hm'] at hs'; cases hs'
      exact prepare_ok_forall (P := fun it => B it.point) (fun _ => Iff.rfl) hpr (hb s hm)
    · rw [hm'] at hs'; cases hs'
      exact prepare_error_forall (P := fun it => B it.point) (fun _ => Iff.rfl) hpr (hb s hm)

/-- a refinement whose result satisfies `B` preserves `PointsInv p B` -/
theorem pointsInv_refine (p : Params α) (B : List α → Prop) {ps : PState α} (lr : LocalResult α)
    (hlr : B lr.x) (h : PointsInv p B ps) : PointsInv p B (doLocalRefinement ps lr) := by
  refine ⟨curveInv_refine p lr h.1, ?_⟩
  cases hm : ps.m with
  | none => rw [doLocalRefinement_none lr hm]; exact h.2
  | some s =>
    rw [doLocalRefinement_some lr hm]
    intro s' hs'
    simp only [Option.some.injEq] at hs'
    subst hs'
    intro it hit
    simp only [List.mem_map] at hit
    obtain ⟨a, ha, rfl⟩ := hit
    unfold refineItem
    split
    · exact hlr
    · exact h.2 s hm a ha

/-- after any sequence of operations on a fresh solver, when every refinement result satisfies `B` -/
theorem pointsInv_runOps (p : Params α) (f : Nat → List α → Option α) (B : List α → Prop)
    (hB : ∀ x : α, 0 ≤ x → x ≤ 1 → B (p.image x))
    (refine : PState α → Option (LocalResult α)) (href : ∀ ps lr, refine ps = some lr → B lr.x)
    (ops : List Op) : PointsInv p B (runOps p f refine ops {}) :=
  (pointsInv_step p f B hB).runOps (fun ps lr hlr h => pointsInv_refine p B lr (href ps lr hlr) h) ops
    (pointsInv_fresh p B)

end Proc
