import IOptProofs.ShekelTabDefs
/-! kernel-evaluated C18 table certificates (min / max / Lipschitz tables) of the Shekel functions 400..419
(one block per file, identical template; four kernel evaluations of 5 rows each keep the memory near 1 GB) -/
namespace Shk
set_option maxRecDepth 100000 in
theorem shekel_tab_block_20_a : ∀ i ∈ List.range' 400 5, shekelTabOK i = true := by decide +kernel
set_option maxRecDepth 100000 in
theorem shekel_tab_block_20_b : ∀ i ∈ List.range' 405 5, shekelTabOK i = true := by decide +kernel
set_option maxRecDepth 100000 in
theorem shekel_tab_block_20_c : ∀ i ∈ List.range' 410 5, shekelTabOK i = true := by decide +kernel
set_option maxRecDepth 100000 in
theorem shekel_tab_block_20_d : ∀ i ∈ List.range' 415 5, shekelTabOK i = true := by decide +kernel
theorem shekel_tab_block_20 : ∀ i ∈ List.range' 400 20, shekelTabOK i = true := by
  intro i hi
  have hi' := List.mem_range'_1.1 hi
  if h1 : i < 405 then exact shekel_tab_block_20_a i (List.mem_range'_1.2 ⟨by omega, by omega⟩) else
  if h2 : i < 410 then exact shekel_tab_block_20_b i (List.mem_range'_1.2 ⟨by omega, by omega⟩) else
  if h3 : i < 415 then exact shekel_tab_block_20_c i (List.mem_range'_1.2 ⟨by omega, by omega⟩) else
  exact shekel_tab_block_20_d i (List.mem_range'_1.2 ⟨by omega, by omega⟩)
end Shk
