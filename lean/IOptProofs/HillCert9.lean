import IOptProofs.HillDefs
/-! kernel-evaluated certificates (V), (G), (P), (L) of the Hill functions 180..199 (one block per file, identical template) -/
namespace Hill
set_option maxRecDepth 100000 in
theorem hill_block_9 : ∀ i ∈ List.range' 180 20, hillOK i = true := by decide +kernel
end Hill
