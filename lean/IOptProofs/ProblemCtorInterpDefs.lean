import IOptGen.ProblemCtorsSrc
import IOptGen.Meta
/-!
# A small semantics for the CONSTRUCTORS of the problem classes (for C18, open families)

`IOptGen/ProblemCtorsSrc.lean` (namespace `Gen.ProblemCtors`, regenerated from the SOURCE TEXT of `iOpt/problem.py` and
`iOpt/problems/*.py` on every run) holds the statement trees (`Gen.ProcSrc.Stmt`) of `Problem.__init__`, `Rastrigin.__init__`,
`XSquared.__init__`, … .  This file gives such trees a meaning, GENERIC in the tree: `execStmt` / `execList` never look at which
constructor they are working on.  Every source string is an OPAQUE KEY of one of the small tables below (compared by equality,
never parsed); a string that is in no table makes the run `none` (stuck).

## The state
A `Store` is a list `name ↦ value` in order of first assignment.  The names are the whole l-value texts: `"self.dimension"` is the
field `dimension` of the object under construction (the object IS the sub-list of the `self.…` entries), `"pointfv"` is a local, the
constructor arguments are the initial entries (`[("dimension", .int n)]`).
Values (`Val`): `int n` (a constructor argument or a loop counter), `lit s` (a numeric literal kept as SOURCE TEXT: `"-2.2"`, `"1.8"`,
`"0"`), `cls s` (a class object, `self.name = Rastrigin`), `arr cells` (`np.ndarray(shape=k, dtype=…)` is an array of `k` cells
`unset`; `[]` is `arr []`), `obj c fields` (a record made by `Point(a, b)` / `Trial(a, b)`: the positional arguments;
`FunctionValue()`: the single field `value`, initially `unset` — its default in `trial.py` is not modelled, so a tree that does not
assign it declares nothing), `pyNone`, `unset`.

## Statements interpreted
* `t = e` where `t` is a plain name of `plainTargets`, an element `a[ix]` of `elemTable` (index out of range = stuck) or an element
  attribute `a[ix].f` of `elemAttrTable`; `e` is a name bound in the store, `[]`, a literal of `numLits`, a class of `classNames`;
* `t = np.ndarray(shape=…, dtype=…)` (`shapeTable`, `dtypes`), `a.fill(e)` (`fillTable`: ALL cells become the value of `e`),
  `t = Point(…)` / `FunctionValue()` / `Trial(…)` (`ctorTable`);
* `for v in range(c): body` (`c` an expression or an entry of `countTable`): the body runs for `v = int 0 … int (c-1)`; the loop
  variable is bound during the body and ERASED after it (Python leaves it bound; a tree that reads it after the loop is stuck here);
* `super(C, self).__init__()` (`superCallees`): RUNS the generated tree of `Problem.__init__` on the same store (`run`).
Records are captured BY VALUE (`Point(pointfv, [])` copies the current cells of `pointfv`; Python shares the array): the readings
agree as long as nothing is mutated after it has been captured, which is the case in all the generated constructors
(each `x.fill`, `x[0] = …`, `x[0].value = …` comes before the `Point(…)` / `Trial(…)` that captures `x`).
Everything else (`self.Calculate(…)`, table reads `hillGen.minHill[self.fn][1]`, list comprehensions, `ite`, `while`, …) is stuck.

`metaOf` reads a `Gen.MetaRow` off the final store; the literal strings become doubles through the table `dyTable`.
No Mathlib, no proofs: everything here is executable.
-/

deriving instance DecidableEq for Gen.MetaRow

namespace PCInterp
open Gen Gen.ProcSrc

inductive Val where
  /-- a constructor argument or a loop counter -/
  | int (n : Nat)
  /-- a numeric literal, kept as source text -/
  | lit (s : String)
  /-- a class object (`self.name = Rastrigin`) -/
  | cls (s : String)
  | pyNone
  /-- a cell of a fresh `np.ndarray`, a field that was never assigned -/
  | unset
  | arr (cells : List Val)
  /-- a record: class name, fields in positional order -/
  | obj (c : String) (fields : List Val)
deriving Repr, Inhabited

abbrev Store := List (String × Val)

/-- first entry with key `k` (tables and stores) -/
def lookup {α : Type} (tbl : List (String × α)) (k : String) : Option α :=
  match tbl with
  | [] => none
  | (k', v) :: t => if k' = k then some v else lookup t k

/-- insert or overwrite, keeping the position of an existing key -/
def setKey (st : Store) (k : String) (v : Val) : Store :=
  match st with
  | [] => [(k, v)]
  | (k', v') :: t => if k' = k then (k', v) :: t else (k', v') :: setKey t k v

def eraseKey (st : Store) (k : String) : Store :=
  match st with
  | [] => []
  | (k', v') :: t => if k' = k then eraseKey t k else (k', v') :: eraseKey t k

/-! ### the tables (the strings this file interprets) -/

/-- numeric literals -/
def numLits : List String :=
  ["0", "1", "2", "3", "4", "5", "10", "-1", "-2.2", "1.8", "-1.0", "0.941176", "-1.489444"]

/-- literals that can stand where a natural number is needed (shape, range count, index, counts) -/
def natLits : List (String × Nat) := [("0", 0), ("1", 1), ("2", 2), ("3", 3), ("4", 4), ("5", 5), ("10", 10)]

/-- class objects -/
def classNames : List String := ["Rastrigin", "XSquared", "Hill", "Shekel", "Shekel4", "StronginC3", "Grishagin", "GKLS"]

/-- names that can be assigned as a whole -/
def plainTargets : List String :=
  ["self.name", "self.dimension", "self.numberOfFloatVariables", "self.numberOfDisreteVariables", "self.numberOfObjectives",
   "self.numberOfConstraints", "self.floatVariableNames", "self.discreteVariableNames", "self.lowerBoundOfFloatVariables",
   "self.upperBoundOfFloatVariables", "self.discreteVariableValues", "self.knownOptimum", "self.fn", "self.functionNumber",
   "pointfv", "KOpoint", "KOfunV"]

/-- `a[ix]`: text ↦ (array name, index expression) -/
def elemTable : List (String × String × String) :=
  [("self.floatVariableNames[i]", "self.floatVariableNames", "i"),
   ("KOfunV[0]", "KOfunV", "0"),
   ("self.knownOptimum[0]", "self.knownOptimum", "0"),
   ("pointfv[0]", "pointfv", "0"), ("pointfv[1]", "pointfv", "1"),
   ("self.lowerBoundOfFloatVariables[0]", "self.lowerBoundOfFloatVariables", "0"),
   ("self.lowerBoundOfFloatVariables[1]", "self.lowerBoundOfFloatVariables", "1"),
   ("self.upperBoundOfFloatVariables[0]", "self.upperBoundOfFloatVariables", "0"),
   ("self.upperBoundOfFloatVariables[1]", "self.upperBoundOfFloatVariables", "1")]

/-- `a[ix].f`: text ↦ (array name, index expression, class of the record, position of the field `f`) -/
def elemAttrTable : List (String × String × String × String × Nat) :=
  [("KOfunV[0].value", "KOfunV", "0", "FunctionValue", 0)]

/-- `shape=` arguments: text ↦ the expression for the (one) extent -/
def shapeTable : List (String × String) :=
  [("shape=self.dimension", "self.dimension"), ("shape=(self.dimension,)", "self.dimension"), ("shape=1", "1"), ("shape=(1,)", "1")]

def dtypes : List String := ["dtype=str", "dtype=np.double", "dtype=Trial", "dtype=FunctionValue"]

/-- `a.fill`: callee text ↦ array name -/
def fillTable : List (String × String) :=
  [("self.lowerBoundOfFloatVariables.fill", "self.lowerBoundOfFloatVariables"),
   ("self.upperBoundOfFloatVariables.fill", "self.upperBoundOfFloatVariables"),
   ("pointfv.fill", "pointfv")]

/-- record constructors: class ↦ (number of positional arguments, further fields with their initial values) -/
def ctorTable : List (String × Nat × List Val) :=
  [("Point", 2, []), ("Trial", 2, []), ("FunctionValue", 0, [.unset])]

/-- `range(…)` arguments that are not plain expressions: text ↦ (expression, what is subtracted) -/
def countTable : List (String × String × Nat) := [("self.dimension - 1", "self.dimension", 1)]

/-- the calls that run `Problem.__init__` on the object under construction -/
def superCallees : List String :=
  ["super(Rastrigin, self).__init__", "super(XSquared, self).__init__", "super(Hill, self).__init__",
   "super(Shekel, self).__init__", "super(Shekel4, self).__init__", "super(StronginC3, self).__init__",
   "super(Grishagin, self).__init__", "super(GKLS, self).__init__"]

/-! ### expressions -/

def evalExpr (st : Store) (s : String) : Option Val :=
  match lookup st s with
  | some v => some v
  | none =>
    if s = "[]" then some (.arr [])
    else if s ∈ numLits then some (.lit s)
    else if s ∈ classNames then some (.cls s)
    else none

def Val.toNat? : Val → Option Nat
  | .int n => some n
  | .lit s => lookup natLits s
  | _ => none

def Val.asArr : Val → Option (List Val)
  | .arr c => some c
  | _ => none

def Val.asObj (c : String) : Val → Option (List Val)
  | .obj c' f => if c' = c then some f else none
  | _ => none

def evalNat (st : Store) (s : String) : Option Nat := (evalExpr st s).bind Val.toNat?

/-- the argument of `range(…)` -/
def evalCount (st : Store) (s : String) : Option Nat :=
  match lookup countTable s with
  | some (e, d) => (evalNat st e).map (· - d)
  | none => evalNat st s

def evalArgs (st : Store) : List String → Option (List Val)
  | [] => some []
  | a :: t => (evalExpr st a).bind fun v => (evalArgs st t).map (v :: ·)

/-- `cells[i] = v`; an index out of range is an `IndexError` -/
def setCell (cells : List Val) (i : Nat) (v : Val) : Option (List Val) :=
  if i < cells.length then some (cells.set i v) else none

/-- `tgt = v` -/
def storeTo (st : Store) (tgt : String) (v : Val) : Option Store :=
  match lookup elemTable tgt with
  | some (a, ix) =>
    ((lookup st a).bind Val.asArr).bind fun cells => (evalNat st ix).bind fun i =>
      (setCell cells i v).map fun c => setKey st a (.arr c)
  | none =>
    match lookup elemAttrTable tgt with
    | some (a, ix, c, f) =>
      ((lookup st a).bind Val.asArr).bind fun cells => (evalNat st ix).bind fun i =>
        (cells[i]?.bind (Val.asObj c)).bind fun fields => (setCell fields f v).bind fun fields' =>
          (setCell cells i (.obj c fields')).map fun c => setKey st a (.arr c)
    | none => if tgt ∈ plainTargets then some (setKey st tgt v) else none

/-! ### statements -/

/-- `tgts = callee(args)`; `sup`: what the `super(…).__init__` calls do -/
def execCall (sup : String → Option (Store → Option Store)) (tgts : List String) (callee : String) (args : List String)
    (st : Store) : Option Store :=
  match sup callee with
  | some f => match tgts, args with
    | [], [] => f st
    | _, _ => none
  | none =>
    if callee = "np.ndarray" then
      match tgts, args with
      | [t], [sh, dt] =>
        if dt ∈ dtypes then
          ((lookup shapeTable sh).bind (evalNat st)).bind fun k => storeTo st t (.arr (List.replicate k .unset))
        else none
      | _, _ => none
    else match lookup fillTable callee with
      | some a => match tgts, args with
        | [], [x] =>
          (evalExpr st x).bind fun v => ((lookup st a).bind Val.asArr).map fun cells =>
            setKey st a (.arr (cells.map fun _ => v))
        | _, _ => none
      | none => match lookup ctorTable callee with
        | some (arity, extra) => match tgts with
          | [t] =>
            if args.length = arity then (evalArgs st args).bind fun vs => storeTo st t (.obj callee (vs ++ extra))
            else none
          | _ => none
        | none => none

/-- `f 0`, …, `f (k-1)` in this order -/
def forIter (f : Nat → Store → Option Store) : Nat → Store → Option Store
  | 0, s => some s
  | k + 1, s => (forIter f k s).bind (f k)

mutual
def execStmt (sup : String → Option (Store → Option Store)) : Stmt → Store → Option Store
  | .assign tgt val, st => (evalExpr st val).bind (storeTo st tgt)
  | .call tgts callee args, st => execCall sup tgts callee args st
  | .forRange v c body, st =>
    (evalCount st c).bind fun k =>
      forIter (fun i s => (execList sup body (setKey s v (.int i))).map (eraseKey · v)) k st
  | _, _ => none
def execList (sup : String → Option (Store → Option Store)) : List Stmt → Store → Option Store
  | [], st => some st
  | s :: t, st => (execStmt sup s st).bind (execList sup t)
end

/-- `super(C, self).__init__()` runs the generated tree of `Problem.__init__` (which makes no further `super` call) -/
def supers (callee : String) : Option (Store → Option Store) :=
  if callee ∈ superCallees then some (execList (fun _ => none) Gen.ProblemCtors.problem_init) else none

/-- run a constructor tree; `args`: the constructor arguments by parameter name -/
def run (tree : List Stmt) (args : Store) : Option Store := execList supers tree args

/-! ### reading the metadata -/

/-- the doubles the literal strings stand for (bit patterns as in `BenchMeta.dyM2_2`, …) -/
def dyTable : List (String × Dy) :=
  [("-2.2", Dy.ofBits 0xc00199999999999a), ("1.8", Dy.ofBits 0x3ffccccccccccccd),
   ("-1", Dy.ofBits 0xbff0000000000000), ("1", Dy.ofBits 0x3ff0000000000000), ("0", (0, 1074))]

/-- family codes of the metadata table (`Gen.metaRowsPacked`: hill 0, shekel 1, shekel4 2, grishagin 3, gkls 4, rastrigin 5,
xsquared 6, stronginc3 7), by the class stored in `self.name` -/
def familyTable : List (String × Nat) :=
  [("Hill", 0), ("Shekel", 1), ("Shekel4", 2), ("Grishagin", 3), ("GKLS", 4), ("Rastrigin", 5), ("XSquared", 6),
   ("StronginC3", 7)]

def Val.toDy? : Val → Option Dy
  | .lit s => lookup dyTable s
  | _ => none

def toDyList : List Val → Option (List Dy)
  | [] => some []
  | v :: t => v.toDy?.bind fun d => (toDyList t).map (d :: ·)

def Val.asCls : Val → Option String
  | .cls s => some s
  | _ => none

def natField (st : Store) (k : String) : Option Nat := (lookup st k).bind Val.toNat?
def arrField (st : Store) (k : String) : Option (List Val) := (lookup st k).bind Val.asArr

/-- The metadata row the constructed object declares, read the way the harness reads the running object:
family = code of `self.name`; `dimension`, `numberOfFloatVariables`, `len(floatVariableNames)`, `numberOfObjectives`,
`numberOfConstraints`, `len(knownOptimum)`, the bound vectors, `knownOptimum[0].point.floatVariables` and
`knownOptimum[0].functionValues[0].value`.  `arg0`, `arg1` (the constructor arguments recorded in the row) come from outside.
`none` if a field is missing, has the wrong shape, or a number is not a literal of `dyTable`. -/
def metaOf (arg0 arg1 : Nat) (st : Store) : Option MetaRow :=
  (((lookup st "self.name").bind Val.asCls).bind (lookup familyTable)).bind fun fam =>
  (natField st "self.dimension").bind fun dim =>
  (natField st "self.numberOfFloatVariables").bind fun nFloat =>
  (arrField st "self.floatVariableNames").bind fun names =>
  (natField st "self.numberOfObjectives").bind fun nObj =>
  (natField st "self.numberOfConstraints").bind fun nCon =>
  ((arrField st "self.lowerBoundOfFloatVariables").bind toDyList).bind fun lower =>
  ((arrField st "self.upperBoundOfFloatVariables").bind toDyList).bind fun upper =>
  (arrField st "self.knownOptimum").bind fun opt =>
  (opt[0]?.bind (Val.asObj "Trial")).bind fun trial =>
  (trial[0]?.bind (Val.asObj "Point")).bind fun point =>
  ((point[0]?.bind Val.asArr).bind toDyList).bind fun optPoint =>
  (trial[1]?.bind Val.asArr).bind fun fvs =>
  (fvs[0]?.bind (Val.asObj "FunctionValue")).bind fun fv =>
  (fv[0]?.bind Val.toDy?).map fun optValue =>
  { family := fam, arg0 := arg0, arg1 := arg1, dimension := dim, nFloat := nFloat, nNames := names.length,
    nObjectives := nObj, nConstraints := nCon, nOptima := opt.length, lower := lower, upper := upper,
    optPoint := optPoint, optValue := optValue }

/-- what the constructor `tree`, called with `args`, declares -/
def declares (tree : List Stmt) (args : Store) (arg0 arg1 : Nat) : Option MetaRow :=
  (run tree args).bind (metaOf arg0 arg1)

end PCInterp
