import IOptProofs.GrishDefs
/-! kernel-evaluated certificates (V), (G), (P) of the Grishagin functions 16..20 (one block per file, identical template;
one theorem per function so that the kernel's reduction cache is released between functions) -/
namespace Grish
set_option maxRecDepth 100000
theorem grish_ok_16 : grishOK 16 = true := by decide +kernel
theorem grish_ok_17 : grishOK 17 = true := by decide +kernel
theorem grish_ok_18 : grishOK 18 = true := by decide +kernel
theorem grish_ok_19 : grishOK 19 = true := by decide +kernel
theorem grish_ok_20 : grishOK 20 = true := by decide +kernel
theorem grish_block_3 : ∀ k ∈ List.range' 16 5, grishOK k = true := by
  intro k hk
  simp only [List.mem_range'_1] at hk
  obtain ⟨h1, h2⟩ := hk
  have : k = 16 ∨ k = 17 ∨ k = 18 ∨ k = 19 ∨ k = 20 := by omega
  rcases this with rfl | rfl | rfl | rfl | rfl
  · exact grish_ok_16
  · exact grish_ok_17
  · exact grish_ok_18
  · exact grish_ok_19
  · exact grish_ok_20
end Grish
