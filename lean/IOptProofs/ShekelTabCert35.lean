import IOptProofs.ShekelTabDefs
/-! kernel-evaluated C18 table certificates (min / max / Lipschitz tables) of the Shekel functions 700..719
(one block per file, identical template; four kernel evaluations of 5 rows each keep the memory near 1 GB) -/
namespace Shk
set_option maxRecDepth 100000 in
theorem shekel_tab_block_35_a : ∀ i ∈ List.range' 700 5, shekelTabOK i = true := by decide +kernel
set_option maxRecDepth 100000 in
theorem shekel_tab_block_35_b : ∀ i ∈ List.range' 705 5, shekelTabOK i = true := by decide +kernel
set_option maxRecDepth 100000 in
theorem shekel_tab_block_35_c : ∀ i ∈ List.range' 710 5, shekelTabOK i = true := by decide +kernel
set_option maxRecDepth 100000 in
theorem shekel_tab_block_35_d : ∀ i ∈ List.range' 715 5, shekelTabOK i = true := by decide +kernel
theorem shekel_tab_block_35 : ∀ i ∈ List.range' 700 20, shekelTabOK i = true := by
  intro i hi
  have hi' := List.mem_range'_1.1 hi
  if h1 : i < 705 then exact shekel_tab_block_35_a i (List.mem_range'_1.2 ⟨by omega, by omega⟩) else
  if h2 : i < 710 then exact shekel_tab_block_35_b i (List.mem_range'_1.2 ⟨by omega, by omega⟩) else
  if h3 : i < 715 then exact shekel_tab_block_35_c i (List.mem_range'_1.2 ⟨by omega, by omega⟩) else
  exact shekel_tab_block_35_d i (List.mem_range'_1.2 ⟨by omega, by omega⟩)
end Shk
