import IOptProofs.EnclSoundMul
/-!
# Enclosure kit, soundness part 3: the angle-addition recurrence and the weighted sums of `evGo`

For a column pair `(pa, pb)` of biased coefficients (bias `ba`, format `2^-80`) the accumulator of `evGo`
is related exactly to `fixSum = Σ_j (pa_j - ba)(U_j - B) + (pb_j - ba)(X_j - B)`, and `fixSum / 2^144` is
within `EMAX·2^-64 · Σ(|α_j| + |β_j|)` of the ideal sum `Σ_j α_j sin((i+j)θ) + β_j cos((i+j)θ)`.
-/

namespace Encl
open Complex

/-- single-column form of `evGo`: `pa` multiplies the sine, `pb` the cosine -/
def goF (pa pb : Coef → ℕ) : List Coef → ℕ → ℕ → ℕ → ℕ → ℕ → ℕ
  | [], _, _, _, _, f => f
  | c :: l, X, U, Y, V, f =>
    goF pa pb l (cmulRe X Y U V) (cmulIm X Y U V) Y V (Nat.add (Nat.add f (Nat.mul (pa c) U)) (Nat.mul (pb c) X))

/-- the `sc` accumulator of `evGo` -/
def goSC : List Coef → ℕ → ℕ → ℕ → ℕ → ℕ → ℕ
  | [], _, _, _, _, sc => sc
  | _ :: l, X, U, Y, V, sc => goSC l (cmulRe X Y U V) (cmulIm X Y U V) Y V (Nat.add (Nat.add sc X) U)

theorem evGo_f (cs : List Coef) : ∀ X U Y V f g1 g2 sc,
    (evGo cs X U Y V f g1 g2 sc).f = goF Coef.a0 Coef.b0 cs X U Y V f := by
  induction cs with
  | nil => intros; simp only [evGo, goF]
  | cons c l ih => intros; simp only [evGo, goF]; exact ih ..

theorem evGo_g1 (cs : List Coef) : ∀ X U Y V f g1 g2 sc,
    (evGo cs X U Y V f g1 g2 sc).g1 = goF Coef.b1 Coef.a1 cs X U Y V g1 := by
  induction cs with
  | nil => intros; simp only [evGo, goF]
  | cons c l ih =>
    intros; simp only [evGo, goF]; rw [ih]
    congr 1
    exact Nat.add_right_comm _ _ _

theorem evGo_g2 (cs : List Coef) : ∀ X U Y V f g1 g2 sc,
    (evGo cs X U Y V f g1 g2 sc).g2 = goF Coef.a2 Coef.b2 cs X U Y V g2 := by
  induction cs with
  | nil => intros; simp only [evGo, goF]
  | cons c l ih => intros; simp only [evGo, goF]; exact ih ..

theorem evGo_sc (cs : List Coef) : ∀ X U Y V f g1 g2 sc,
    (evGo cs X U Y V f g1 g2 sc).sc = goSC cs X U Y V sc := by
  induction cs with
  | nil => intros; simp only [evGo, goSC]
  | cons c l ih => intros; simp only [evGo, goSC]; exact ih ..

/-! ## exact accounting -/

/-- `Σ_j (pa_j - ba)(U_j - B) + (pb_j - ba)(X_j - B)` along the recurrence -/
noncomputable def fixSum (pa pb : Coef → ℕ) (ba : ℝ) : List Coef → ℕ → ℕ → ℕ → ℕ → ℝ
  | [], _, _, _, _ => 0
  | c :: l, X, U, Y, V =>
    ((pa c : ℝ) - ba) * ((U : ℝ) - B) + ((pb c : ℝ) - ba) * ((X : ℝ) - B)
      + fixSum pa pb ba l (cmulRe X Y U V) (cmulIm X Y U V) Y V

/-- `Σ_j (pa_j + pb_j)` -/
noncomputable def colSumR (pa pb : Coef → ℕ) : List Coef → ℝ
  | [] => 0
  | c :: l => (pa c : ℝ) + pb c + colSumR pa pb l

theorem goSC_cast (cs : List Coef) : ∀ X U Y V sc,
    ((goSC cs X U Y V sc : ℕ) : ℝ) = sc + ((goSC cs X U Y V 0 : ℕ) : ℝ) := by
  induction cs with
  | nil => intros; simp [goSC]
  | cons c l ih =>
    intro X U Y V sc
    simp only [goSC]
    rw [ih _ _ _ _ (Nat.add (Nat.add sc X) U), ih _ _ _ _ (Nat.add (Nat.add 0 X) U)]
    have e1 : ((Nat.add (Nat.add sc X) U : ℕ) : ℝ) = sc + X + U := by
      show ((sc + X + U : ℕ) : ℝ) = _
      push_cast; ring
    have e2 : ((Nat.add (Nat.add 0 X) U : ℕ) : ℝ) = X + U := by
      show ((0 + X + U : ℕ) : ℝ) = _
      push_cast; ring
    rw [e1, e2]; ring

/-- the accumulator in terms of `fixSum`, the column sum and the `sc` accumulator -/
theorem goF_cast (pa pb : Coef → ℕ) (ba : ℝ) (cs : List Coef) : ∀ X U Y V f,
    ((goF pa pb cs X U Y V f : ℕ) : ℝ) = f + fixSum pa pb ba cs X U Y V
      + (B : ℝ) * colSumR pa pb cs + ba * ((goSC cs X U Y V 0 : ℕ) : ℝ)
      - 2 * (cs.length : ℝ) * ba * B := by
  induction cs with
  | nil => intros; simp [goF, fixSum, colSumR, goSC]
  | cons c l ih =>
    intro X U Y V f
    simp only [goF, fixSum, colSumR, goSC, List.length_cons]
    rw [ih, goSC_cast l _ _ _ _ (Nat.add (Nat.add 0 X) U)]
    have e1 : ((Nat.add (Nat.add f (Nat.mul (pa c) U)) (Nat.mul (pb c) X) : ℕ) : ℝ)
        = f + pa c * U + pb c * X := by
      show ((f + pa c * U + pb c * X : ℕ) : ℝ) = _
      push_cast; ring
    have e2 : ((Nat.add (Nat.add 0 X) U : ℕ) : ℝ) = X + U := by
      show ((0 + X + U : ℕ) : ℝ) = _
      push_cast; ring
    rw [e1, e2]
    push_cast; ring

/-! ## the recurrence in ball arithmetic -/

/-- the radius grows by `κ = 330976` units per index -/
theorem rec_step {X U Y V : ℕ} {θ : ℝ} {i : ℕ} (hi : i ≤ 16)
    (hw : ‖exp ((θ : ℂ) * I) - dZ Y V‖ ≤ 330973 / 2 ^ 64)
    (hz : ‖exp (((i * θ : ℝ) : ℂ) * I) - dZ X U‖ ≤ i * 330976 / 2 ^ 64) :
    ‖dZ X U‖ ≤ 5 / 4 ∧
    ‖exp ((((i + 1 : ℕ) * θ : ℝ) : ℂ) * I) - dZ (cmulRe X Y U V) (cmulIm X Y U V)‖
      ≤ ((i + 1 : ℕ) : ℝ) * 330976 / 2 ^ 64 := by
  have h64 : (0 : ℝ) < 2 ^ 64 := by positivity
  set Z := exp (((i * θ : ℝ) : ℂ) * I) with hZ
  set W := exp ((θ : ℂ) * I) with hW
  set z := dZ X U
  set w := dZ Y V
  have nZ : ‖Z‖ = 1 := norm_exp_ofReal_mul_I _
  have nW : ‖W‖ = 1 := norm_exp_ofReal_mul_I _
  have hi' : (i : ℝ) ≤ 16 := by exact_mod_cast hi
  have hi0 : (0 : ℝ) ≤ i := Nat.cast_nonneg _
  have ez : (i : ℝ) * 330976 / 2 ^ 64 ≤ 1 / 2 ^ 40 := by
    rw [div_le_div_iff₀ h64 (by positivity)]
    calc (i : ℝ) * 330976 * 2 ^ 40 ≤ 16 * 330976 * 2 ^ 40 := by gcongr
      _ ≤ 1 * 2 ^ 64 := by norm_num
  have nz : ‖z‖ ≤ 1 + 1 / 2 ^ 40 := by
    have : ‖z‖ ≤ ‖Z‖ + ‖Z - z‖ := by
      have := norm_sub_le Z (Z - z); simpa using this
    rw [nZ] at this; linarith
  have nw : ‖w‖ ≤ 5 / 4 := by
    have : ‖w‖ ≤ ‖W‖ + ‖W - w‖ := by
      have := norm_sub_le W (W - w); simpa using this
    rw [nW] at this
    have : (330973 : ℝ) / 2 ^ 64 ≤ 1 / 4 := by norm_num
    linarith
  have nz' : ‖z‖ ≤ 5 / 4 := by
    have : (1 : ℝ) / 2 ^ 40 ≤ 1 / 4 := by norm_num
    linarith
  refine ⟨nz', ?_⟩
  obtain ⟨r, hr, e⟩ := cmul_spec nz' nw
  rw [e]
  have hexp : exp ((((i + 1 : ℕ) * θ : ℝ) : ℂ) * I) = Z * W := by
    rw [hZ, hW, ← Complex.exp_add]; congr 1; push_cast; ring
  rw [hexp]
  have : Z * W - (z * w - r) = (Z - z) * W + z * (W - w) + r := by ring
  rw [this]
  refine (norm_add_le _ _).trans ?_
  refine (add_le_add (norm_add_le _ _) le_rfl).trans ?_
  rw [norm_mul, norm_mul, nW, mul_one]
  have h1 : ‖z‖ * ‖W - w‖ ≤ (1 + 1 / 2 ^ 40) * (330973 / 2 ^ 64) :=
    mul_le_mul nz hw (norm_nonneg _) (by positivity)
  have h2 : (1 + 1 / 2 ^ 40 : ℝ) * (330973 / 2 ^ 64) ≤ 330974 / 2 ^ 64 := by norm_num
  push_cast
  have : ((i : ℝ) + 1) * 330976 / 2 ^ 64 = i * 330976 / 2 ^ 64 + 330974 / 2 ^ 64 + 2 / 2 ^ 64 := by ring
  rw [this]
  linarith

/-- ideal sum `Σ_j α_j sin((i+j)θ) + β_j cos((i+j)θ)`, `α_j = (pa_j - ba)/2^80`, `β_j = (pb_j - ba)/2^80` -/
noncomputable def idealSum (pa pb : Coef → ℕ) (ba : ℝ) : List Coef → ℕ → ℝ → ℝ
  | [], _, _ => 0
  | c :: l, i, θ =>
    ((pa c : ℝ) - ba) / 2 ^ 80 * Real.sin (i * θ) + ((pb c : ℝ) - ba) / 2 ^ 80 * Real.cos (i * θ)
      + idealSum pa pb ba l (i + 1) θ

/-- `Σ_j |pa_j - ba| + |pb_j - ba|` -/
noncomputable def absSum (pa pb : Coef → ℕ) (ba : ℝ) : List Coef → ℝ
  | [] => 0
  | c :: l => |(pa c : ℝ) - ba| + |(pb c : ℝ) - ba| + absSum pa pb ba l

theorem absSum_nonneg (pa pb : Coef → ℕ) (ba : ℝ) (cs : List Coef) : 0 ≤ absSum pa pb ba cs := by
  induction cs with
  | nil => simp [absSum]
  | cons c l ih => simp only [absSum]; positivity

theorem dT_sub_B (X : ℕ) : (X : ℝ) - B = dT X * 2 ^ 64 := by
  unfold dT; field_simp

/-- error of the fixed-point sum against the ideal sum, and a crude bound of the fixed-point sum -/
theorem fixSum_err (pa pb : Coef → ℕ) (ba : ℝ) {Y V : ℕ} {θ : ℝ}
    (hw : ‖exp ((θ : ℂ) * I) - dZ Y V‖ ≤ 330973 / 2 ^ 64) (cs : List Coef) :
    ∀ (i X U : ℕ), i + cs.length ≤ 17 →
      ‖exp (((i * θ : ℝ) : ℂ) * I) - dZ X U‖ ≤ i * 330976 / 2 ^ 64 →
      |idealSum pa pb ba cs i θ - fixSum pa pb ba cs X U Y V / 2 ^ 144|
          ≤ 16777216 / 2 ^ 64 * (absSum pa pb ba cs / 2 ^ 80) ∧
      |fixSum pa pb ba cs X U Y V| ≤ 5 / 4 * 2 ^ 64 * absSum pa pb ba cs := by
  induction cs with
  | nil => intros; simp [idealSum, fixSum, absSum]
  | cons c l ih =>
    intro i X U hlen hz
    simp only [List.length_cons] at hlen
    have hi : i ≤ 16 := by omega
    obtain ⟨nz, hz'⟩ := rec_step hi hw hz
    obtain ⟨ih1, ih2⟩ := ih (i + 1) _ _ (by omega) hz'
    simp only [idealSum, fixSum, absSum]
    set α := (pa c : ℝ) - ba
    set β := (pb c : ℝ) - ba
    set fs := fixSum pa pb ba l (cmulRe X Y U V) (cmulIm X Y U V) Y V
    set is := idealSum pa pb ba l (i + 1) θ
    set as := absSum pa pb ba l
    have has : 0 ≤ as := absSum_nonneg _ _ _ _
    have h64 : (0 : ℝ) < 2 ^ 64 := by positivity
    -- componentwise errors
    have hi' : (i : ℝ) ≤ 16 := by exact_mod_cast hi
    have rad : (i : ℝ) * 330976 / 2 ^ 64 ≤ 16777216 / 2 ^ 64 := by
      rw [div_le_div_iff_of_pos_right h64]
      calc (i : ℝ) * 330976 ≤ 16 * 330976 := by gcongr
        _ ≤ 16777216 := by norm_num
    have hre : |Real.cos (i * θ) - dT X| ≤ 16777216 / 2 ^ 64 := by
      have := (abs_re_le_norm (exp (((i * θ : ℝ) : ℂ) * I) - dZ X U)).trans (hz.trans rad)
      rwa [sub_re, exp_ofReal_mul_I_re, dZ_re] at this
    have him : |Real.sin (i * θ) - dT U| ≤ 16777216 / 2 ^ 64 := by
      have := (abs_im_le_norm (exp (((i * θ : ℝ) : ℂ) * I) - dZ X U)).trans (hz.trans rad)
      rwa [sub_im, exp_ofReal_mul_I_im, dZ_im] at this
    have hX : |dT X| ≤ 5 / 4 := by
      have := (abs_re_le_norm (dZ X U)).trans nz; simpa using this
    have hU : |dT U| ≤ 5 / 4 := by
      have := (abs_im_le_norm (dZ X U)).trans nz; simpa using this
    rw [dT_sub_B U, dT_sub_B X]
    constructor
    · have e : α / 2 ^ 80 * Real.sin (i * θ) + β / 2 ^ 80 * Real.cos (i * θ) + is
          - (α * (dT U * 2 ^ 64) + β * (dT X * 2 ^ 64) + fs) / 2 ^ 144
          = α / 2 ^ 80 * (Real.sin (i * θ) - dT U) + β / 2 ^ 80 * (Real.cos (i * θ) - dT X)
            + (is - fs / 2 ^ 144) := by
        field_simp; ring
      rw [e]
      refine (abs_add_le _ _).trans ?_
      refine (add_le_add (abs_add_le _ _) le_rfl).trans ?_
      rw [abs_mul, abs_mul, abs_div, abs_div, abs_of_pos (by positivity : (0 : ℝ) < 2 ^ 80)]
      have t1 : |α| / 2 ^ 80 * |Real.sin (i * θ) - dT U| ≤ |α| / 2 ^ 80 * (16777216 / 2 ^ 64) :=
        mul_le_mul_of_nonneg_left him (by positivity)
      have t2 : |β| / 2 ^ 80 * |Real.cos (i * θ) - dT X| ≤ |β| / 2 ^ 80 * (16777216 / 2 ^ 64) :=
        mul_le_mul_of_nonneg_left hre (by positivity)
      have : (16777216 : ℝ) / 2 ^ 64 * ((|α| + |β| + as) / 2 ^ 80)
          = |α| / 2 ^ 80 * (16777216 / 2 ^ 64) + |β| / 2 ^ 80 * (16777216 / 2 ^ 64)
            + 16777216 / 2 ^ 64 * (as / 2 ^ 80) := by ring
      rw [this]
      linarith
    · refine (abs_add_le _ _).trans ?_
      refine (add_le_add (abs_add_le _ _) le_rfl).trans ?_
      rw [abs_mul, abs_mul, abs_mul, abs_mul, abs_of_pos h64]
      have t1 : |α| * (|dT U| * 2 ^ 64) ≤ |α| * (5 / 4 * 2 ^ 64) := by gcongr
      have t2 : |β| * (|dT X| * 2 ^ 64) ≤ |β| * (5 / 4 * 2 ^ 64) := by gcongr
      have : (5 : ℝ) / 4 * 2 ^ 64 * (|α| + |β| + as)
          = |α| * (5 / 4 * 2 ^ 64) + |β| * (5 / 4 * 2 ^ 64) + 5 / 4 * 2 ^ 64 * as := by ring
      rw [this]
      linarith

/-- the starting point `(X₀, U₀) = (ONE + B, B)` denotes `1 = e^{i·0·θ}` exactly -/
theorem start_spec (θ : ℝ) :
    ‖exp ((((0 : ℕ) * θ : ℝ) : ℂ) * I) - dZ (Nat.add ONE B) B‖ ≤ (0 : ℕ) * 330976 / 2 ^ 64 := by
  have : dZ (Nat.add ONE B) B = 1 := by
    apply Complex.ext
    · simp only [dZ_re, one_re]
      unfold dT
      show (((ONE + B : ℕ) : ℝ) - B) / 2 ^ 64 = 1
      push_cast; rw [ONE_cast]; field_simp; ring
    · simp only [dZ_im, one_im]
      unfold dT; simp
  rw [this]; simp

/-- **soundness of the sums**: for the point `t = num/2^k ∈ [0,1]` and at most 16 coefficients -/
theorem sums_spec (pa pb : Coef → ℕ) (ba : ℝ) (cs : List Coef) {num k : ℕ}
    (h : num ≤ 2 ^ k) (hlen : cs.length ≤ 16) :
    |idealSum pa pb ba cs 0 (2 * Real.pi * (num / 2 ^ k))
        - fixSum pa pb ba cs (Nat.add ONE B) B (trigC num k) (trigS num k) / 2 ^ 144|
      ≤ 16777216 / 2 ^ 64 * (absSum pa pb ba cs / 2 ^ 80) ∧
    |fixSum pa pb ba cs (Nat.add ONE B) B (trigC num k) (trigS num k)|
      ≤ 5 / 4 * 2 ^ 64 * absSum pa pb ba cs := by
  have hw := trig_spec h
  exact fixSum_err pa pb ba hw cs 0 _ _ (by omega) (start_spec _)

/-- the accumulators of `evAcc` -/
theorem evAcc_eq (cs : List Coef) (num k : ℕ) :
    (evAcc cs num k).f = goF Coef.a0 Coef.b0 cs (Nat.add ONE B) B (trigC num k) (trigS num k) 0 ∧
    (evAcc cs num k).g1 = goF Coef.b1 Coef.a1 cs (Nat.add ONE B) B (trigC num k) (trigS num k) 0 ∧
    (evAcc cs num k).g2 = goF Coef.a2 Coef.b2 cs (Nat.add ONE B) B (trigC num k) (trigS num k) 0 ∧
    (evAcc cs num k).sc = goSC cs (Nat.add ONE B) B (trigC num k) (trigS num k) 0 := by
  unfold evAcc
  rw [trig_eq]
  exact ⟨evGo_f .., evGo_g1 .., evGo_g2 .., evGo_sc ..⟩

end Encl
