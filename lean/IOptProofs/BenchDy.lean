import IOptGen.Dy
import Mathlib.Data.Real.Basic
import Mathlib.Data.Rat.Cast.Order
/-!
# Doubles as real numbers

A table entry `d : Dy` (the exact dyadic value of an IEEE double) denotes the rational `d.toRat`
and the real `dyR d`.
-/

/-- the real number denoted by a double -/
noncomputable def dyR (d : Dy) : ℝ := ((d.toRat : ℚ) : ℝ)

theorem dyR_def (d : Dy) : dyR d = ((d.toRat : ℚ) : ℝ) := rfl

theorem dyR_eq_zero {d : Dy} (h : d.toRat = 0) : dyR d = 0 := by simp [dyR, h]
