import IOptProofs.S3SoundExp
import Mathlib.Algebra.Order.Ring.Abs
/-!
# StronginC3: soundness of the box bounds and of the branch-and-bound over ℝ
-/

namespace S3

attribute [local irreducible] U ONE EUP ELO E2UP C12

/-- the point `(x1, x2)` lies in the grid box: `x1·2^26 ∈ [a1,b1]`, `(x2+1)·2^26 ∈ [a2,b2]` -/
def InBox (a1 b1 a2 b2 : Nat) (x1 x2 : ℝ) : Prop :=
  (a1 : ℝ) ≤ x1 * 2 ^ 26 ∧ x1 * 2 ^ 26 ≤ (b1 : ℝ) ∧ (a2 : ℝ) ≤ (x2 + 1) * 2 ^ 26 ∧ (x2 + 1) * 2 ^ 26 ≤ (b2 : ℝ)

/-- the point lies in the rectangle -/
def InRect (R : Rect) (x1 x2 : ℝ) : Prop := InBox R.r1 R.s1 R.r2 R.s2 x1 x2

theorem cast_tsub_le (a b : Nat) (t : ℝ) (h0 : 0 ≤ t) (h : (a : ℝ) - b ≤ t) : ((Nat.sub a b : Nat) : ℝ) ≤ t := by
  show ((a - b : Nat) : ℝ) ≤ t
  rcases Nat.le_total b a with hle | hle
  · rw [Nat.cast_sub hle]; exact h
  · rw [Nat.sub_eq_zero_of_le hle]; simpa using h0

theorem le_cast_tsub (a b : Nat) : (a : ℝ) - b ≤ ((Nat.sub a b : Nat) : ℝ) := by
  show _ ≤ ((a - b : Nat) : ℝ)
  rcases Nat.le_total b a with hle | hle
  · rw [Nat.cast_sub hle]
  · rw [Nat.sub_eq_zero_of_le hle]
    have : (a : ℝ) ≤ b := by exact_mod_cast hle
    simp; linarith

theorem nearI_le (lo hi lo' hi' : Nat) (X Y : ℝ) (h1 : (lo : ℝ) ≤ X) (h2 : X ≤ hi) (h3 : (lo' : ℝ) ≤ Y)
    (h4 : Y ≤ hi') : ((nearI lo hi lo' hi' : Nat) : ℝ) ≤ |X - Y| := by
  have hlh : lo ≤ hi := by exact_mod_cast h1.trans h2
  have hlh' : lo' ≤ hi' := by exact_mod_cast h3.trans h4
  show ((lo - hi' + (lo' - hi) : Nat) : ℝ) ≤ _
  rcases Nat.lt_or_ge hi' lo with h | h
  · have e1 : lo' - hi = 0 := by omega
    rw [e1, Nat.add_zero, Nat.cast_sub h.le]
    have : (hi' : ℝ) ≤ lo := by exact_mod_cast h.le
    rw [abs_of_nonneg (by linarith)]; linarith
  · have e1 : lo - hi' = 0 := by omega
    rw [e1, Nat.zero_add]
    rcases Nat.lt_or_ge hi lo' with h' | h'
    · rw [Nat.cast_sub h'.le]
      have : (hi : ℝ) ≤ lo' := by exact_mod_cast h'.le
      rw [abs_of_nonpos (by linarith)]; linarith
    · have e2 : lo' - hi = 0 := by omega
      rw [e2]; simp

theorem le_farI (lo hi lo' hi' : Nat) (X Y : ℝ) (h1 : (lo : ℝ) ≤ X) (h2 : X ≤ hi) (h3 : (lo' : ℝ) ≤ Y)
    (h4 : Y ≤ hi') : |X - Y| ≤ ((farI lo hi lo' hi' : Nat) : ℝ) := by
  show _ ≤ ((Nat.add (Nat.sub hi lo') (Nat.sub hi' lo) : Nat) : ℝ)
  have k1 := le_cast_tsub hi lo'
  have k2 := le_cast_tsub hi' lo
  have n1 : (0 : ℝ) ≤ ((Nat.sub hi lo' : Nat) : ℝ) := Nat.cast_nonneg _
  have n2 : (0 : ℝ) ≤ ((Nat.sub hi' lo : Nat) : ℝ) := Nat.cast_nonneg _
  have : ((Nat.add (Nat.sub hi lo') (Nat.sub hi' lo) : Nat) : ℝ)
      = ((Nat.sub hi lo' : Nat) : ℝ) + ((Nat.sub hi' lo : Nat) : ℝ) := by
    show ((Nat.sub hi lo' + Nat.sub hi' lo : Nat) : ℝ) = _
    push_cast; rfl
  rw [this, abs_le]; constructor <;> linarith

theorem pow4_cast (d : Nat) : ((pow4 d : Nat) : ℝ) = (d : ℝ) ^ 4 := by
  show ((d * d * (d * d) : Nat) : ℝ) = _
  push_cast; ring

theorem pow4_le_of_abs_le {y t : ℝ} (h : |y| ≤ t) : y ^ 4 ≤ t ^ 4 := by
  have : y ^ 4 = |y| ^ 4 := by
    rw [show (4 : ℕ) = 2 * 2 by norm_num, pow_mul, pow_mul, sq_abs]
  rw [this]
  exact pow_le_pow_left₀ (abs_nonneg _) h 4

theorem pow4_ge_of_le_abs {y t : ℝ} (h0 : 0 ≤ t) (h : t ≤ |y|) : t ^ 4 ≤ y ^ 4 := by
  have : y ^ 4 = |y| ^ 4 := by
    rw [show (4 : ℕ) = 2 * 2 by norm_num, pow_mul, pow_mul, sq_abs]
  rw [this]
  exact pow_le_pow_left₀ h0 h 4

theorem sq_le_of_abs_le {y t : ℝ} (h : |y| ≤ t) : y ^ 2 ≤ t ^ 2 := by
  rw [← sq_abs y]; exact pow_le_pow_left₀ (abs_nonneg _) h 2

theorem sq_ge_of_le_abs {y t : ℝ} (h0 : 0 ≤ t) (h : t ≤ |y|) : t ^ 2 ≤ y ^ 2 := by
  rw [← sq_abs y]; exact pow_le_pow_left₀ h0 h 2

/-! ### the term `A` -/

theorem A_split (x1 x2 : ℝ) :
    A x1 x2 = 3 / 2 * x1 ^ 2 * (Real.exp 1 * Real.exp (-(x1 ^ 2 + 81 / 4 * (x1 - x2) ^ 2))) := by
  unfold A
  rw [← Real.exp_add]
  congr 2; ring

theorem sArg_cast (x d : Nat) : ((sArg x d : Nat) : ℝ) / 2 ^ 64 = ((x : ℝ) / 2 ^ 26) ^ 2 + 81 / 4 * ((d : ℝ) / 2 ^ 26) ^ 2 := by
  have : sArg x d = (4 * (x * x) + 81 * (d * d)) * 2 ^ 10 := by
    show Nat.shiftLeft _ 10 = _
    exact Nat.shiftLeft_eq _ _
  rw [this]
  push_cast
  field_simp
  ring

/-- the difference `x1 - x2` in grid units -/
theorem diff_grid (x1 x2 : ℝ) : x1 - x2 = ((x1 * 2 ^ 26 + 2 ^ 26) - (x2 + 1) * 2 ^ 26) / 2 ^ 26 := by
  field_simp; ring

theorem addU_cast (a : Nat) : ((Nat.add a U : Nat) : ℝ) = (a : ℝ) + 2 ^ 26 := by
  rw [Nat.add_eq, Nat.cast_add, U_cast]

theorem aUp_sound (a1 b1 a2 b2 : Nat) (x1 x2 : ℝ) (h : InBox a1 b1 a2 b2 x1 x2) :
    A x1 x2 * 2 ^ 64 ≤ (aUp a1 b1 a2 b2 : ℝ) := by
  obtain ⟨h1, h2, h3, h4⟩ := h
  set dn := nearI (Nat.add a1 U) (Nat.add b1 U) a2 b2 with hdn
  have hx0 : (0 : ℝ) ≤ x1 := by
    have : (0 : ℝ) ≤ x1 * 2 ^ 26 := le_trans (Nat.cast_nonneg _) h1
    exact nonneg_of_mul_nonneg_left this (by positivity)
  have hnear : (dn : ℝ) ≤ |(x1 * 2 ^ 26 + 2 ^ 26) - (x2 + 1) * 2 ^ 26| := by
    apply nearI_le _ _ _ _ _ _ _ _ h3 h4
    · rw [addU_cast]; linarith
    · rw [addU_cast]; linarith
  have hd : ((dn : ℝ) / 2 ^ 26) ^ 2 ≤ (x1 - x2) ^ 2 := by
    rw [diff_grid x1 x2]
    apply sq_ge_of_le_abs (by positivity)
    rw [abs_div, abs_of_pos (show (0 : ℝ) < 2 ^ 26 by positivity)]
    exact div_le_div_of_nonneg_right hnear (by positivity)
  have ha : ((a1 : ℝ) / 2 ^ 26) ^ 2 ≤ x1 ^ 2 := by
    apply pow_le_pow_left₀ (by positivity)
    rw [div_le_iff₀ (by positivity)]; exact h1
  have hb : x1 ^ 2 ≤ ((b1 : ℝ) / 2 ^ 26) ^ 2 := by
    apply pow_le_pow_left₀ hx0
    rw [le_div_iff₀ (by positivity)]; exact h2
  have hS : ((sArg a1 dn : Nat) : ℝ) / 2 ^ 64 ≤ x1 ^ 2 + 81 / 4 * (x1 - x2) ^ 2 := by
    rw [sArg_cast]; linarith
  have hen := enUp_sound _ _ hS
  have hen' : Real.exp (-(x1 ^ 2 + 81 / 4 * (x1 - x2) ^ 2)) ≤ (enUp (sArg a1 dn) : ℝ) / 2 ^ 64 := by
    rw [le_div_iff₀ (by positivity)]; exact hen
  have he := exp_one_le_EUP
  have hA : A x1 x2 ≤ 3 / 2 * ((b1 : ℝ) / 2 ^ 26) ^ 2 * ((EUP : ℝ) / 2 ^ 64 * ((enUp (sArg a1 dn) : ℝ) / 2 ^ 64)) := by
    rw [A_split]
    have p1 : (0 : ℝ) ≤ Real.exp 1 := (Real.exp_pos _).le
    have p2 : (0 : ℝ) ≤ Real.exp (-(x1 ^ 2 + 81 / 4 * (x1 - x2) ^ 2)) := (Real.exp_pos _).le
    gcongr
  unfold aUp
  rw [← hdn]
  refine le_trans ?_ (le_shr_succ _ 117)
  have e : ((Nat.mul (Nat.mul (Nat.mul 3 (Nat.mul b1 b1)) EUP) (enUp (sArg a1 dn)) : Nat) : ℝ)
      = 3 * ((b1 : ℝ) * b1) * EUP * (enUp (sArg a1 dn) : ℝ) := by
    simp only [Nat.mul_eq]
    push_cast; ring
  rw [e]
  calc A x1 x2 * 2 ^ 64 ≤ 3 / 2 * ((b1 : ℝ) / 2 ^ 26) ^ 2 * ((EUP : ℝ) / 2 ^ 64 * ((enUp (sArg a1 dn) : ℝ) / 2 ^ 64)) * 2 ^ 64 :=
        mul_le_mul_of_nonneg_right hA (by positivity)
    _ = 3 * ((b1 : ℝ) * b1) * EUP * (enUp (sArg a1 dn) : ℝ) / 2 ^ 117 := by
        field_simp

theorem lbA_sound (a1 b1 a2 b2 : Nat) (x1 x2 : ℝ) (h : InBox a1 b1 a2 b2 x1 x2) :
    (lbA a1 b1 a2 b2 : ℝ) ≤ A x1 x2 * 2 ^ 64 := by
  obtain ⟨h1, h2, h3, h4⟩ := h
  set df := farI (Nat.add a1 U) (Nat.add b1 U) a2 b2 with hdf
  have hx0 : (0 : ℝ) ≤ x1 := by
    have : (0 : ℝ) ≤ x1 * 2 ^ 26 := le_trans (Nat.cast_nonneg _) h1
    exact nonneg_of_mul_nonneg_left this (by positivity)
  have hfar : |(x1 * 2 ^ 26 + 2 ^ 26) - (x2 + 1) * 2 ^ 26| ≤ (df : ℝ) := by
    apply le_farI _ _ _ _ _ _ _ _ h3 h4
    · rw [addU_cast]; linarith
    · rw [addU_cast]; linarith
  have hd : (x1 - x2) ^ 2 ≤ ((df : ℝ) / 2 ^ 26) ^ 2 := by
    rw [diff_grid x1 x2]
    apply sq_le_of_abs_le
    rw [abs_div, abs_of_pos (show (0 : ℝ) < 2 ^ 26 by positivity)]
    exact div_le_div_of_nonneg_right hfar (by positivity)
  have ha : ((a1 : ℝ) / 2 ^ 26) ^ 2 ≤ x1 ^ 2 := by
    apply pow_le_pow_left₀ (by positivity)
    rw [div_le_iff₀ (by positivity)]; exact h1
  have hb : x1 ^ 2 ≤ ((b1 : ℝ) / 2 ^ 26) ^ 2 := by
    apply pow_le_pow_left₀ hx0
    rw [le_div_iff₀ (by positivity)]; exact h2
  have hS : x1 ^ 2 + 81 / 4 * (x1 - x2) ^ 2 ≤ ((sArg b1 df : Nat) : ℝ) / 2 ^ 64 := by
    rw [sArg_cast]; linarith
  have hen := enLo_sound _ _ hS
  have hen' : (enLo (sArg b1 df) : ℝ) / 2 ^ 64 ≤ Real.exp (-(x1 ^ 2 + 81 / 4 * (x1 - x2) ^ 2)) := by
    rw [div_le_iff₀ (by positivity)]; exact hen
  have he := ELO_le_exp_one
  have hA : 3 / 2 * ((a1 : ℝ) / 2 ^ 26) ^ 2 * ((ELO : ℝ) / 2 ^ 64 * ((enLo (sArg b1 df) : ℝ) / 2 ^ 64)) ≤ A x1 x2 := by
    rw [A_split]
    gcongr
  unfold lbA
  rw [← hdf]
  refine le_trans (shr_le _ 117) ?_
  have e : ((Nat.mul (Nat.mul (Nat.mul 3 (Nat.mul a1 a1)) ELO) (enLo (sArg b1 df)) : Nat) : ℝ)
      = 3 * ((a1 : ℝ) * a1) * ELO * (enLo (sArg b1 df) : ℝ) := by
    simp only [Nat.mul_eq]
    push_cast; ring
  rw [e]
  calc 3 * ((a1 : ℝ) * a1) * ELO * (enLo (sArg b1 df) : ℝ) / 2 ^ 117
      = 3 / 2 * ((a1 : ℝ) / 2 ^ 26) ^ 2 * ((ELO : ℝ) / 2 ^ 64 * ((enLo (sArg b1 df) : ℝ) / 2 ^ 64)) * 2 ^ 64 := by
        field_simp
    _ ≤ A x1 x2 * 2 ^ 64 := mul_le_mul_of_nonneg_right hA (by positivity)

/-! ### the term `B` -/

theorem t1_nonneg (x1 : ℝ) : 0 ≤ t1 x1 := by unfold t1; positivity
theorem t2_nonneg (x2 : ℝ) : 0 ≤ t2 x2 := by unfold t2; positivity

theorem B_split (x1 x2 : ℝ) :
    B x1 x2 = t1 x1 * t2 x2 * (Real.exp 2 * Real.exp (-(t1 x1 + t2 x2))) := by
  unfold B
  rw [← Real.exp_add]
  congr 2; ring

theorem B_nonneg (x1 x2 : ℝ) : 0 ≤ B x1 x2 := by
  unfold B
  exact mul_nonneg (mul_nonneg (t1_nonneg _) (t2_nonneg _)) (Real.exp_pos _).le

theorem t1_grid (x1 : ℝ) : t1 x1 * 2 ^ 64 = (x1 * 2 ^ 26 - 2 ^ 26) ^ 4 / 2 ^ 44 := by
  unfold t1; field_simp

theorem t2_grid (x2 : ℝ) : t2 x2 * 2 ^ 64 = ((x2 + 1) * 2 ^ 26 - 2 * 2 ^ 26) ^ 4 / 2 ^ 40 := by
  unfold t2; field_simp; ring

theorem mulU_cast : ((Nat.mul 2 U : Nat) : ℝ) = 2 * 2 ^ 26 := by
  rw [Nat.mul_eq, Nat.cast_mul, U_cast]; norm_num

theorem t1Up_sound (a1 b1 : Nat) (x1 : ℝ) (h1 : (a1 : ℝ) ≤ x1 * 2 ^ 26) (h2 : x1 * 2 ^ 26 ≤ b1) :
    t1 x1 * 2 ^ 64 ≤ (t1Up (farI a1 b1 U U) : ℝ) := by
  have hf := le_farI a1 b1 U U (x1 * 2 ^ 26) (2 ^ 26) h1 h2 (by rw [U_cast]) (by rw [U_cast])
  rw [t1_grid]
  refine le_trans ?_ (le_shr_succ _ 44)
  rw [pow4_cast]
  exact div_le_div_of_nonneg_right (pow4_le_of_abs_le hf) (by positivity)

theorem t1Dn_sound (a1 b1 : Nat) (x1 : ℝ) (h1 : (a1 : ℝ) ≤ x1 * 2 ^ 26) (h2 : x1 * 2 ^ 26 ≤ b1) :
    (t1Dn (nearI a1 b1 U U) : ℝ) ≤ t1 x1 * 2 ^ 64 := by
  have hf := nearI_le a1 b1 U U (x1 * 2 ^ 26) (2 ^ 26) h1 h2 (by rw [U_cast]) (by rw [U_cast])
  rw [t1_grid]
  refine le_trans (shr_le _ 44) ?_
  rw [pow4_cast]
  exact div_le_div_of_nonneg_right (pow4_ge_of_le_abs (Nat.cast_nonneg _) hf) (by positivity)

theorem t2Up_sound (a2 b2 : Nat) (x2 : ℝ) (h1 : (a2 : ℝ) ≤ (x2 + 1) * 2 ^ 26) (h2 : (x2 + 1) * 2 ^ 26 ≤ b2) :
    t2 x2 * 2 ^ 64 ≤ (t2Up (farI a2 b2 (Nat.mul 2 U) (Nat.mul 2 U)) : ℝ) := by
  have hf := le_farI a2 b2 (Nat.mul 2 U) (Nat.mul 2 U) ((x2 + 1) * 2 ^ 26) (2 * 2 ^ 26) h1 h2
    (by rw [mulU_cast]) (by rw [mulU_cast])
  rw [t2_grid]
  refine le_trans ?_ (le_shr_succ _ 40)
  rw [pow4_cast]
  exact div_le_div_of_nonneg_right (pow4_le_of_abs_le hf) (by positivity)

theorem t2Dn_sound (a2 b2 : Nat) (x2 : ℝ) (h1 : (a2 : ℝ) ≤ (x2 + 1) * 2 ^ 26) (h2 : (x2 + 1) * 2 ^ 26 ≤ b2) :
    (t2Dn (nearI a2 b2 (Nat.mul 2 U) (Nat.mul 2 U)) : ℝ) ≤ t2 x2 * 2 ^ 64 := by
  have hf := nearI_le a2 b2 (Nat.mul 2 U) (Nat.mul 2 U) ((x2 + 1) * 2 ^ 26) (2 * 2 ^ 26) h1 h2
    (by rw [mulU_cast]) (by rw [mulU_cast])
  rw [t2_grid]
  refine le_trans (shr_le _ 40) ?_
  rw [pow4_cast]
  exact div_le_div_of_nonneg_right (pow4_ge_of_le_abs (Nat.cast_nonneg _) hf) (by positivity)

theorem bUp_sound (a1 b1 a2 b2 : Nat) (x1 x2 : ℝ) (h : InBox a1 b1 a2 b2 x1 x2) :
    B x1 x2 * 2 ^ 64 ≤ (bUp a1 b1 a2 b2 : ℝ) := by
  obtain ⟨h1, h2, h3, h4⟩ := h
  have u1 := t1Up_sound a1 b1 x1 h1 h2
  have d1 := t1Dn_sound a1 b1 x1 h1 h2
  have u2 := t2Up_sound a2 b2 x2 h3 h4
  have d2 := t2Dn_sound a2 b2 x2 h3 h4
  generalize hT1u : t1Up (farI a1 b1 U U) = T1u at u1
  generalize hT2u : t2Up (farI a2 b2 (Nat.mul 2 U) (Nat.mul 2 U)) = T2u at u2
  generalize hT1d : t1Dn (nearI a1 b1 U U) = T1d at d1
  generalize hT2d : t2Dn (nearI a2 b2 (Nat.mul 2 U) (Nat.mul 2 U)) = T2d at d2
  have hS : ((Nat.add T1d T2d : Nat) : ℝ) / 2 ^ 64 ≤ t1 x1 + t2 x2 := by
    rw [Nat.add_eq, Nat.cast_add, div_le_iff₀ (by positivity)]
    linarith
  have hen := enUp_sound _ _ hS
  generalize hEN : enUp (Nat.add T1d T2d) = EN at hen
  have u1' : t1 x1 ≤ (T1u : ℝ) / 2 ^ 64 := by rw [le_div_iff₀ (by positivity)]; exact u1
  have u2' : t2 x2 ≤ (T2u : ℝ) / 2 ^ 64 := by rw [le_div_iff₀ (by positivity)]; exact u2
  have hen' : Real.exp (-(t1 x1 + t2 x2)) ≤ (EN : ℝ) / 2 ^ 64 := by
    rw [le_div_iff₀ (by positivity)]; exact hen
  have he := exp_two_le_E2UP
  have n1 : (0 : ℝ) ≤ (T1u : ℝ) / 2 ^ 64 := by positivity
  have n2 : (0 : ℝ) ≤ (T2u : ℝ) / 2 ^ 64 := by positivity
  have n3 : (0 : ℝ) ≤ (E2UP : ℝ) / 2 ^ 64 := by positivity
  have hB : B x1 x2 ≤ (T1u : ℝ) / 2 ^ 64 * ((T2u : ℝ) / 2 ^ 64) * ((E2UP : ℝ) / 2 ^ 64 * ((EN : ℝ) / 2 ^ 64)) := by
    rw [B_split]
    apply mul_le_mul
    · exact mul_le_mul u1' u2' (t2_nonneg _) n1
    · exact mul_le_mul he hen' (Real.exp_pos _).le n3
    · exact mul_nonneg (Real.exp_pos _).le (Real.exp_pos _).le
    · exact mul_nonneg n1 n2
  unfold bUp
  rw [hT1d, hT2d, hT1u, hT2u, hEN]
  refine le_trans ?_ (le_shr_succ _ 192)
  have e : ((Nat.mul (Nat.mul (Nat.mul T1u T2u) E2UP) EN : Nat) : ℝ) = (T1u : ℝ) * T2u * E2UP * EN := by
    simp only [Nat.mul_eq]; push_cast; ring
  rw [e]
  calc B x1 x2 * 2 ^ 64
      ≤ (T1u : ℝ) / 2 ^ 64 * ((T2u : ℝ) / 2 ^ 64) * ((E2UP : ℝ) / 2 ^ 64 * ((EN : ℝ) / 2 ^ 64)) * 2 ^ 64 :=
        mul_le_mul_of_nonneg_right hB (by positivity)
    _ = (T1u : ℝ) * T2u * E2UP * EN / 2 ^ 192 := by
        field_simp

/-- `(A + B)·2^64 ≤ ub` on the box -/
theorem ub_sound (a1 b1 a2 b2 : Nat) (x1 x2 : ℝ) (h : InBox a1 b1 a2 b2 x1 x2) :
    (A x1 x2 + B x1 x2) * 2 ^ 64 ≤ (ub a1 b1 a2 b2 : ℝ) := by
  have ha := aUp_sound a1 b1 a2 b2 x1 x2 h
  have hb := bUp_sound a1 b1 a2 b2 x1 x2 h
  unfold ub
  rw [Nat.add_eq, Nat.cast_add]
  linarith

/-! ### the constraint `g1` -/

theorem C12_cast : ((C12 : Nat) : ℝ) = 5404319552844595 := by
  unfold C12; norm_num

theorem c12_eq : c12 = (C12 : ℝ) / 2 ^ 52 := by rw [C12_cast]; rfl

theorem g1pos_sound (a1 b1 a2 b2 : Nat) (x1 x2 : ℝ) (hg : g1pos a1 b1 a2 b2 = true)
    (h : InBox a1 b1 a2 b2 x1 x2) : 0 < g1 x1 x2 := by
  obtain ⟨h1, h2, h3, h4⟩ := h
  have hf1 := le_farI a1 b1 (Nat.mul 2 U) (Nat.mul 2 U) (x1 * 2 ^ 26) (2 * 2 ^ 26) h1 h2
    (by rw [mulU_cast]) (by rw [mulU_cast])
  have hf2 := le_farI a2 b2 U U ((x2 + 1) * 2 ^ 26) (2 ^ 26) h3 h4 (by rw [U_cast]) (by rw [U_cast])
  unfold g1pos at hg
  rw [Nat.blt_eq] at hg
  generalize farI a1 b1 (Nat.mul 2 U) (Nat.mul 2 U) = F1 at hf1 hg
  generalize farI a2 b2 U U = F2 at hf2 hg
  simp only [Nat.add_eq, Nat.mul_eq, Nat.pow_eq] at hg
  have hgR : (4 * 2 ^ 104 : ℝ) * ((F1 : ℝ) * F1) + (C12 : ℝ) * C12 * ((F2 : ℝ) * F2) < 4 * ((C12 : ℝ) * C12) * 2 ^ 52 := by
    exact_mod_cast hg
  clear hg
  have s1 := sq_le_of_abs_le hf1
  have s2 := sq_le_of_abs_le hf2
  have hC : (0 : ℝ) < C12 := by rw [C12_cast]; norm_num
  rw [g1_eq, c12_eq]
  have e1 : ((x1 - 2) / ((C12 : ℝ) / 2 ^ 52)) ^ 2 = (x1 * 2 ^ 26 - 2 * 2 ^ 26) ^ 2 * 2 ^ 52 / ((C12 : ℝ) * C12) := by
    field_simp
  have e2 : (x2 / 2) ^ 2 = ((x2 + 1) * 2 ^ 26 - 2 ^ 26) ^ 2 / 2 ^ 54 := by
    field_simp; ring
  rw [e1, e2]
  have b1' : (x1 * 2 ^ 26 - 2 * 2 ^ 26) ^ 2 * 2 ^ 52 / ((C12 : ℝ) * C12) ≤ (F1 : ℝ) ^ 2 * 2 ^ 52 / ((C12 : ℝ) * C12) := by
    apply div_le_div_of_nonneg_right _ (by positivity)
    exact mul_le_mul_of_nonneg_right s1 (by positivity)
  have b2' : ((x2 + 1) * 2 ^ 26 - 2 ^ 26) ^ 2 / 2 ^ 54 ≤ (F2 : ℝ) ^ 2 / 2 ^ 54 :=
    div_le_div_of_nonneg_right s2 (by positivity)
  have key : (F1 : ℝ) ^ 2 * 2 ^ 52 / ((C12 : ℝ) * C12) + (F2 : ℝ) ^ 2 / 2 ^ 54 < 1 := by
    have hpos : (0 : ℝ) < 4 * ((C12 : ℝ) * C12) * 2 ^ 52 := by positivity
    have : (F1 : ℝ) ^ 2 * 2 ^ 52 / ((C12 : ℝ) * C12) + (F2 : ℝ) ^ 2 / 2 ^ 54
        = ((4 * 2 ^ 104 : ℝ) * ((F1 : ℝ) * F1) + (C12 : ℝ) * C12 * ((F2 : ℝ) * F2)) / (4 * ((C12 : ℝ) * C12) * 2 ^ 52) := by
      field_simp; ring
    rw [this, div_lt_one hpos]
    exact hgR
  linarith

/-! ### leaves and the branch-and-bound -/

/-- what a certified box guarantees for each of its points -/
def Good (T : Nat) (R : Rect) (x1 x2 : ℝ) : Prop :=
  g1 x1 x2 ≤ 0 → InRect R x1 x2 ∨ (A x1 x2 + B x1 x2) * 2 ^ 64 < (T : ℝ)

theorem leaf_sound (T : Nat) (R : Rect) (a1 b1 a2 b2 : Nat) (x1 x2 : ℝ)
    (hl : leaf T R a1 b1 a2 b2 = true) (h : InBox a1 b1 a2 b2 x1 x2) : Good T R x1 x2 := by
  intro hg1
  unfold leaf at hl
  simp only [Bool.or_eq_true] at hl
  rcases hl with (hR | hg) | hu
  · left
    unfold inR at hR
    simp only [Bool.and_eq_true, Nat.ble_eq] at hR
    obtain ⟨⟨⟨r1, r2⟩, r3⟩, r4⟩ := hR
    obtain ⟨h1, h2, h3, h4⟩ := h
    have r1' : (R.r1 : ℝ) ≤ a1 := by exact_mod_cast r1
    have r2' : (b1 : ℝ) ≤ R.s1 := by exact_mod_cast r2
    have r3' : (R.r2 : ℝ) ≤ a2 := by exact_mod_cast r3
    have r4' : (b2 : ℝ) ≤ R.s2 := by exact_mod_cast r4
    exact ⟨by linarith, by linarith, by linarith, by linarith⟩
  · exact absurd (g1pos_sound a1 b1 a2 b2 x1 x2 hg h) (not_lt.2 hg1)
  · right
    rw [Nat.blt_eq] at hu
    have hu' : (ub a1 b1 a2 b2 : ℝ) < T := by exact_mod_cast hu
    exact lt_of_le_of_lt (ub_sound a1 b1 a2 b2 x1 x2 h) hu'

theorem mid_bounds (a b : Nat) : ((Nat.div (Nat.add a b) 2 : Nat) : ℝ) = (((a + b) / 2 : Nat) : ℝ) := rfl

theorem bnb_sound (T : Nat) (R : Rect) : ∀ (fuel a1 b1 a2 b2 : Nat), bnb T R fuel a1 b1 a2 b2 = true →
    ∀ x1 x2 : ℝ, InBox a1 b1 a2 b2 x1 x2 → Good T R x1 x2
  | 0, a1, b1, a2, b2, h, x1, x2, hb => leaf_sound T R a1 b1 a2 b2 x1 x2 (by simpa [bnb] using h) hb
  | fuel + 1, a1, b1, a2, b2, h, x1, x2, hb => by
    rw [bnb, Bool.or_eq_true] at h
    rcases h with h | h
    · exact leaf_sound T R a1 b1 a2 b2 x1 x2 h hb
    · obtain ⟨h1, h2, h3, h4⟩ := hb
      cases hc : Nat.ble (Nat.sub b2 a2) (Nat.sub b1 a1)
      · rw [hc, cond_false, Bool.and_eq_true, forceNat_eq, Bool.and_eq_true] at h
        obtain ⟨_, hl, hr⟩ := h
        rcases le_total ((x2 + 1) * 2 ^ 26) ((Nat.div (Nat.add a2 b2) 2 : Nat) : ℝ) with hm | hm
        · exact bnb_sound T R fuel _ _ _ _ hl x1 x2 ⟨h1, h2, h3, hm⟩
        · exact bnb_sound T R fuel _ _ _ _ hr x1 x2 ⟨h1, h2, hm, h4⟩
      · rw [hc, cond_true, Bool.and_eq_true, forceNat_eq, Bool.and_eq_true] at h
        obtain ⟨_, hl, hr⟩ := h
        rcases le_total (x1 * 2 ^ 26) ((Nat.div (Nat.add a1 b1) 2 : Nat) : ℝ) with hm | hm
        · exact bnb_sound T R fuel _ _ _ _ hl x1 x2 ⟨h1, hm, h3, h4⟩
        · exact bnb_sound T R fuel _ _ _ _ hr x1 x2 ⟨hm, h2, h3, h4⟩

end S3
