import IOptProofs.BenchShekelDefs
/-! kernel-evaluated C10 certificates of the Shekel functions 0..49 (one block per file, identical template) -/
namespace Shk
set_option maxRecDepth 100000 in
theorem shekel_block_0 : ∀ i ∈ List.range' 0 50, shekelOK i = true := by decide +kernel
end Shk
