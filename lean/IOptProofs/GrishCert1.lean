import IOptProofs.GrishDefs
/-! kernel-evaluated certificates (V), (G), (P) of the Grishagin functions 6..10 (one block per file, identical template;
one theorem per function so that the kernel's reduction cache is released between functions) -/
namespace Grish
set_option maxRecDepth 100000
theorem grish_ok_6 : grishOK 6 = true := by decide +kernel
theorem grish_ok_7 : grishOK 7 = true := by decide +kernel
theorem grish_ok_8 : grishOK 8 = true := by decide +kernel
theorem grish_ok_9 : grishOK 9 = true := by decide +kernel
theorem grish_ok_10 : grishOK 10 = true := by decide +kernel
theorem grish_block_1 : ∀ k ∈ List.range' 6 5, grishOK k = true := by
  intro k hk
  simp only [List.mem_range'_1] at hk
  obtain ⟨h1, h2⟩ := hk
  have : k = 6 ∨ k = 7 ∨ k = 8 ∨ k = 9 ∨ k = 10 := by omega
  rcases this with rfl | rfl | rfl | rfl | rfl
  · exact grish_ok_6
  · exact grish_ok_7
  · exact grish_ok_8
  · exact grish_ok_9
  · exact grish_ok_10
end Grish
