import IOptProofs.ProcessOps
/-!
# `DoLocalRefinement`
-/

set_option linter.unusedSectionVars false

section
variable {α : Type} [Add α] [Sub α] [Mul α] [Div α] [Neg α] [LT α] [LE α]
  [DecidableLT α] [DecidableLE α] [OfNat α 0] [OfNat α 1] [OfNat α 2] [OfNat α 4] [Fns α]

namespace Proc
open AGP AGP.Ctl

/-- what `DoLocalRefinement` does to one item: the best trial gets the new point and value, every other item is kept -/
def refineItem (best : Nat) (lr : LocalResult α) (it : Item α) : Item α :=
  if it.id == best then { it with point := lr.x, hv := lr.fx } else it

theorem refineItem_id (best : Nat) (lr : LocalResult α) (it : Item α) : (refineItem best lr it).id = it.id := by
  unfold refineItem; split <;> rfl

theorem refineItem_fields (best : Nat) (lr : LocalResult α) (it : Item α) :
    (refineItem best lr it).id = it.id ∧ (refineItem best lr it).x = it.x ∧ (refineItem best lr it).z = it.z ∧
    (refineItem best lr it).ev = it.ev ∧ (refineItem best lr it).delta = it.delta ∧ (refineItem best lr it).R = it.R := by
  unfold refineItem; split <;> exact ⟨rfl, rfl, rfl, rfl, rfl, rfl⟩

theorem refineItem_of_ne {best : Nat} (lr : LocalResult α) {it : Item α} (h : it.id ≠ best) : refineItem best lr it = it := by
  unfold refineItem; simp [h]

theorem refineItem_of_eq {best : Nat} (lr : LocalResult α) {it : Item α} (h : it.id = best) :
    refineItem best lr it = { it with point := lr.x, hv := lr.fx } := by
  unfold refineItem; simp [h]

/-! ### `GetResults`: the reported trial -/

/-- before any refinement `GetResults` reports the method's best -/
theorem reportedId_of_none {ps : PState α} (s : State α) (h : ps.refined = none) : reportedId ps s = s.best := by
  unfold reportedId; rw [h]

/-- `GetResults` reports the refined trial exactly when it is found, differs from the method's best, which is found too,
and its value holder is strictly smaller -/
theorem reportedId_of_some {ps : PState α} (s : State α) {r : Nat} (h : ps.refined = some r) :
    reportedId ps s =
      match findItem s.items r, findItem s.items s.best with
      | some ri, some bi => if r ≠ s.best ∧ ri.hv < bi.hv then r else s.best
      | _, _ => s.best := by
  unfold reportedId; rw [h]; rfl

/-- the trial that `GetResults()` reports (`solution.bestTrials[0]` after the call), if the first iteration has been done -/
def reported (ps : PState α) : Option (Item α) := ps.m.bind fun s => findItem s.items (reportedId ps s)

/-- the method's best trial (`Method.best`, what `GetResults()` reported before the repair) -/
def methodBest (ps : PState α) : Option (Item α) := ps.m.bind fun s => findItem s.items s.best

theorem reported_of_some {ps : PState α} {s : State α} (hm : ps.m = some s) :
    reported ps = findItem s.items (reportedId ps s) := by
  unfold reported; rw [hm]; rfl

/-- the reported trial is the method's best or the trial refined last -/
theorem reportedId_cases (ps : PState α) (s : State α) :
    reportedId ps s = s.best ∨
    ∃ ri bi, ps.refined = some (reportedId ps s) ∧ reportedId ps s ≠ s.best ∧
      findItem s.items (reportedId ps s) = some ri ∧ findItem s.items s.best = some bi ∧ ri.hv < bi.hv := by
  cases hr : ps.refined with
  | none => exact .inl (reportedId_of_none s hr)
  | some r =>
    rw [reportedId_of_some s hr]
    split
    · next ri bi h1 h2 =>
      split
      · next hc => exact .inr ⟨ri, bi, rfl, hc.1, h1, h2, hc.2⟩
      · exact .inl rfl
    · exact .inl rfl

/-- `reportedId` reads `refined`, the items and `best` only -/
theorem reportedId_congr {ps ps' : PState α} {s s' : State α} (hr : ps.refined = ps'.refined)
    (hi : s.items = s'.items) (hb : s.best = s'.best) : reportedId ps s = reportedId ps' s' := by
  unfold reportedId; rw [hr, hi, hb]

theorem doLocalRefinement_some {ps : PState α} {s : State α} (lr : LocalResult α) (hm : ps.m = some s) :
    doLocalRefinement ps lr =
      { ps with m := some { s with items := s.items.map (refineItem (reportedId ps s) lr) }, nLocal := lr.nfev,
                refined := some (reportedId ps s) } := by
  unfold doLocalRefinement; rw [hm]; rfl

/-- the first refinement (nothing refined before) refines the method's best -/
theorem doLocalRefinement_some_first {ps : PState α} {s : State α} (lr : LocalResult α) (hm : ps.m = some s)
    (hr : ps.refined = none) :
    doLocalRefinement ps lr =
      { ps with m := some { s with items := s.items.map (refineItem s.best lr) }, nLocal := lr.nfev,
                refined := some s.best } := by
  rw [doLocalRefinement_some lr hm, reportedId_of_none s hr]

theorem doLocalRefinement_refined {ps : PState α} {s : State α} (lr : LocalResult α) (hm : ps.m = some s) :
    (doLocalRefinement ps lr).refined = some (reportedId ps s) := by
  rw [doLocalRefinement_some lr hm]

theorem doLocalRefinement_none {ps : PState α} (lr : LocalResult α) (hm : ps.m = none) : doLocalRefinement ps lr = ps := by
  unfold doLocalRefinement; rw [hm]

theorem findItem_map_refineItem (best : Nat) (lr : LocalResult α) (items : List (Item α)) (id : Nat) :
    findItem (items.map (refineItem best lr)) id = (findItem items id).map (refineItem best lr) := by
  induction items with
  | nil => rfl
  | cons it t ih =>
    simp only [findItem, List.map_cons, List.find?_cons, refineItem_id] at ih ⊢
    cases (it.id == id)
    · exact ih
    · rfl

theorem findItem_id_eq {items : List (Item α)} {id : Nat} {it : Item α} (h : findItem items id = some it) : it.id = id := by
  have := List.find?_some h
  simpa using this

/-- the refined trial is never reported "instead of itself" -/
theorem reportedId_eq_best_of_refined_eq {ps : PState α} {s : State α} (h : ps.refined = some s.best) :
    reportedId ps s = s.best := by
  rw [reportedId_of_some s h]
  split
  · split
    · next hc => exact absurd rfl hc.1
    · rfl
  · rfl

/-- after `DoLocalRefinement` the refined trial is still the one reported, provided it is the method's best or its new value
is strictly below the value holder of the method's best -/
theorem reportedId_doLocalRefinement {ps : PState α} {s : State α} (lr : LocalResult α) (hm : ps.m = some s) {b : Item α}
    (hb : findItem s.items (reportedId ps s) = some b)
    (hcase : reportedId ps s = s.best ∨ ∀ bi, findItem s.items s.best = some bi → lr.fx < bi.hv) :
    reportedId (doLocalRefinement ps lr) { s with items := s.items.map (refineItem (reportedId ps s) lr) } = reportedId ps s := by
  have hr := doLocalRefinement_refined lr hm
  by_cases heq : reportedId ps s = s.best
  · rw [heq] at hr ⊢
    exact reportedId_eq_best_of_refined_eq hr
  · have hlt := hcase.resolve_left heq
    rcases reportedId_cases ps s with h | ⟨ri, bi, -, -, -, hbi, -⟩
    · exact absurd h heq
    · rw [reportedId_of_some _ hr]
      simp only [findItem_map_refineItem, hb, hbi, Option.map_some]
      have hbid := findItem_id_eq hb
      have hbiid := findItem_id_eq hbi
      rw [refineItem_of_eq lr hbid, refineItem_of_ne lr (by rw [hbiid]; exact fun h => heq h.symm)]
      simp only []
      rw [if_pos ⟨heq, hlt bi hbi⟩]

end Proc
end
