import IOptProofs.ProcessOps
/-!
# `DoLocalRefinement`
-/

set_option linter.unusedSectionVars false

section
variable {α : Type} [Add α] [Sub α] [Mul α] [Div α] [Neg α] [LT α] [LE α]
  [DecidableLT α] [DecidableLE α] [OfNat α 0] [OfNat α 1] [OfNat α 2] [OfNat α 4] [Fns α]

namespace Proc
open AGP AGP.Ctl

/-- what `DoLocalRefinement` does to one item: the best trial gets the new point and value, every other item is kept -/
def refineItem (best : Nat) (lr : LocalResult α) (it : Item α) : Item α :=
  if it.id == best then { it with point := lr.x, hv := lr.fx } else it

theorem refineItem_id (best : Nat) (lr : LocalResult α) (it : Item α) : (refineItem best lr it).id = it.id := by
  unfold refineItem; split <;> rfl

theorem refineItem_fields (best : Nat) (lr : LocalResult α) (it : Item α) :
    (refineItem best lr it).id = it.id ∧ (refineItem best lr it).x = it.x ∧ (refineItem best lr it).z = it.z ∧
    (refineItem best lr it).ev = it.ev ∧ (refineItem best lr it).delta = it.delta ∧ (refineItem best lr it).R = it.R := by
  unfold refineItem; split <;> exact ⟨rfl, rfl, rfl, rfl, rfl, rfl⟩

theorem refineItem_of_ne {best : Nat} (lr : LocalResult α) {it : Item α} (h : it.id ≠ best) : refineItem best lr it = it := by
  unfold refineItem; simp [h]

theorem refineItem_of_eq {best : Nat} (lr : LocalResult α) {it : Item α} (h : it.id = best) :
    refineItem best lr it = { it with point := lr.x, hv := lr.fx } := by
  unfold refineItem; simp [h]

theorem doLocalRefinement_some {ps : PState α} {s : State α} (lr : LocalResult α) (hm : ps.m = some s) :
    doLocalRefinement ps lr =
      { ps with m := some { s with items := s.items.map (refineItem s.best lr) }, nLocal := lr.nfev } := by
  unfold doLocalRefinement; rw [hm]; rfl

theorem doLocalRefinement_none {ps : PState α} (lr : LocalResult α) (hm : ps.m = none) : doLocalRefinement ps lr = ps := by
  unfold doLocalRefinement; rw [hm]

theorem findItem_map_refineItem (best : Nat) (lr : LocalResult α) (items : List (Item α)) (id : Nat) :
    findItem (items.map (refineItem best lr)) id = (findItem items id).map (refineItem best lr) := by
  induction items with
  | nil => rfl
  | cons it t ih =>
    simp only [findItem, List.map_cons, List.find?_cons, refineItem_id] at ih ⊢
    cases (it.id == id)
    · exact ih
    · rfl

end Proc
end
