import IOptProofs.GklsClass
/-!
# Kernel-decided certificates of the regenerated GKLS data sets of dimension 3, function numbers 51..100

`Gkls.Cert 3 k` = well-formedness `WF` + class clauses `ClassOK` + identity (`dim = 3`, `number = k`).
One lemma per block of five function numbers (`decide +kernel`: exact integer arithmetic in the kernel).
-/

namespace Gkls
set_option maxRecDepth 100000

theorem cert3_10 : ∀ k ∈ List.range' 51 5, Cert 3 k = true := by decide +kernel
theorem cert3_11 : ∀ k ∈ List.range' 56 5, Cert 3 k = true := by decide +kernel
theorem cert3_12 : ∀ k ∈ List.range' 61 5, Cert 3 k = true := by decide +kernel
theorem cert3_13 : ∀ k ∈ List.range' 66 5, Cert 3 k = true := by decide +kernel
theorem cert3_14 : ∀ k ∈ List.range' 71 5, Cert 3 k = true := by decide +kernel
theorem cert3_15 : ∀ k ∈ List.range' 76 5, Cert 3 k = true := by decide +kernel
theorem cert3_16 : ∀ k ∈ List.range' 81 5, Cert 3 k = true := by decide +kernel
theorem cert3_17 : ∀ k ∈ List.range' 86 5, Cert 3 k = true := by decide +kernel
theorem cert3_18 : ∀ k ∈ List.range' 91 5, Cert 3 k = true := by decide +kernel
theorem cert3_19 : ∀ k ∈ List.range' 96 5, Cert 3 k = true := by decide +kernel

end Gkls
