import IOptProofs.GklsDefs
/-!
# GKLS class clauses: the declared optimum and class parameters agree with the generated data

`Gkls.ClassOK r` is a second decidable certificate (exact integer arithmetic):
the declared optimum point is `M_1` (`gm_index[0] = 1`, one global minimiser), the declared optimum value
is `-1`, `ρ_1` is exactly the class parameter `global_radius`, `‖M_1 - T‖²` agrees with
`global_dist²` up to `10⁻⁹`, and `isArgSet = 1`.
-/

namespace Gkls
open Prob

/-- the decidable class certificate of a regenerated data set -/
def ClassOK (r : Gen.GklsRaw) : Bool :=
  r.gmIndex == 1 && r.numGlobal == 1 && r.isArgSet == 1 &&
  decide (r.optPoint = r.localMin.getD 1 []) &&
  decide (r.optValue.1 = -((2 ^ r.optValue.2 : Nat) : Int)) &&
  decide (r.rho.getD 1 (0, 0) = r.globalRadius) &&
  decide (r.globalDist.2 ≤ E) &&
  decide ((sqDistZ (MiZ (toDataZ r) 1) (MiZ (toDataZ r) 0) - sc r.globalDist * sc r.globalDist) * 1000000000
      ≤ unit * unit ∧
    (sc r.globalDist * sc r.globalDist - sqDistZ (MiZ (toDataZ r) 1) (MiZ (toDataZ r) 0)) * 1000000000
      ≤ unit * unit)

/-- what the class certificate means over the reals -/
structure ClassSpec (r : Gen.GklsRaw) : Prop where
  gmIndex_eq : r.gmIndex = 1
  numGlobal_eq : r.numGlobal = 1
  isArgSet_eq : r.isArgSet = 1
  /-- the declared optimum point is the minimiser `M_1` -/
  optPoint_eq : r.optPoint.map toReal = Mi (toData r) 1
  /-- the declared optimum value is `-1` -/
  optValue_eq : toReal r.optValue = -1
  /-- `ρ_1` is exactly the class parameter `global_radius` -/
  radius_eq : rhoi (toData r) 1 = toReal r.globalRadius
  /-- `‖M_1 - T‖²` agrees with the class parameter `global_dist²` up to `10⁻⁹` -/
  dist_close : |sqDist (Mi (toData r) 1) (Mi (toData r) 0) - toReal r.globalDist ^ 2| ≤ 1e-9

theorem class_close (S g U : ℝ) (hU : 0 < U) (a1 : (S - g * g) * 1000000000 ≤ U * U)
    (a2 : (g * g - S) * 1000000000 ≤ U * U) : |S / U ^ 2 - (g / U) ^ 2| ≤ 1e-9 := by
  have e : S / U ^ 2 - (g / U) ^ 2 = (S - g * g) / U ^ 2 := by field_simp
  have hU2 : (0 : ℝ) < U ^ 2 := by positivity
  rw [e, abs_le]
  constructor
  · rw [le_div_iff₀ hU2]
    norm_num
    nlinarith
  · rw [div_le_iff₀ hU2]
    norm_num
    nlinarith

theorem classSpec_of_ClassOK (r : Gen.GklsRaw) (hwf : WF r = true) (h : ClassOK r = true) : ClassSpec r := by
  unfold ClassOK at h
  simp only [Bool.and_eq_true, beq_iff_eq, decide_eq_true_eq] at h
  obtain ⟨⟨⟨⟨⟨⟨⟨h1, h2⟩, h3⟩, h4⟩, h5⟩, h6⟩, h7⟩, h8a, h8b⟩ := h
  unfold WF at hwf
  simp only [Bool.and_eq_true, decide_eq_true_eq] at hwf
  obtain ⟨⟨_, hexp⟩, _⟩ := hwf
  refine ⟨h1, h2, h3, ?_, ?_, ?_, ?_⟩
  · rw [h4]
    unfold Mi toData
    exact (List.getD_map (l := r.localMin) (d := []) (n := 1) (fun m : List Dy => m.map toReal)).symm
  · unfold toReal
    rw [h5]
    push_cast
    have : (2 : ℝ) ^ r.optValue.2 ≠ 0 := by positivity
    field_simp
  · rw [← h6]
    unfold rhoi toData
    have h0 : toReal (0, 0) = 0 := by simp [toReal]
    have := List.getD_map (l := r.rho) (d := ((0, 0) : Dy)) (n := 1) toReal
    rw [h0] at this
    exact this
  · have hU : (0 : ℝ) < (unit : ℝ) := by exact_mod_cast unit_pos
    rw [toData_eq_castData r hexp, Mi_castData, Mi_castData, sqDist_cast, toReal_eq_sc _ h7]
    unfold castZ
    exact class_close _ _ _ hU (by exact_mod_cast h8a) (by exact_mod_cast h8b)

/-- the full per-data-set certificate: well-formedness, class clauses, and the identity of the data set -/
def Cert (d k : Nat) : Bool :=
  WF (Gen.gkls d k) && ClassOK (Gen.gkls d k) && (Gen.gkls d k).dim == d && (Gen.gkls d k).number == k

theorem Cert.wf {d k : Nat} (h : Cert d k = true) : WF (Gen.gkls d k) = true := by
  unfold Cert at h; simp only [Bool.and_eq_true] at h; exact h.1.1.1
theorem Cert.classOK {d k : Nat} (h : Cert d k = true) : ClassOK (Gen.gkls d k) = true := by
  unfold Cert at h; simp only [Bool.and_eq_true] at h; exact h.1.1.2
theorem Cert.dim_eq {d k : Nat} (h : Cert d k = true) : (Gen.gkls d k).dim = d := by
  unfold Cert at h; simp only [Bool.and_eq_true, beq_iff_eq] at h; exact h.1.2
theorem Cert.number_eq {d k : Nat} (h : Cert d k = true) : (Gen.gkls d k).number = k := by
  unfold Cert at h; simp only [Bool.and_eq_true, beq_iff_eq] at h; exact h.2

end Gkls
