import IOptModel.Problems
import IOptProofs.BenchReal
import Mathlib.Algebra.QuadraticDiscriminant
import Mathlib.Algebra.Order.BigOperators.Group.List
import Mathlib.Analysis.SpecialFunctions.Sqrt
import Mathlib.Tactic.Ring
import Mathlib.Tactic.Linarith
import Mathlib.Tactic.Positivity
/-!
# Vectors as coordinate lists: squared distance, scalar product, Cauchy–Schwarz, triangle inequality

The GKLS model (`Prob.gklsNorm`, the `scal` loop of `Prob.gkls`) works on `List α` with `zip`/`foldl`.
Here the loops are rewritten as list sums and the few facts of Euclidean geometry that the structure
theorems need are proved for lists of equal length.
-/

namespace Gkls

section ring
variable {K : Type} [CommRing K]

/-- squared Euclidean distance of two coordinate lists: `Σ (x_i - y_i)²` -/
def sqDist (x y : List K) : K := (List.zipWith (fun a b => (a - b) * (a - b)) x y).sum

/-- `Σ (x_i - m_i)(t_i - m_i)`: the scalar product `⟨x - m, t - m⟩` (the `scal` loop of the model) -/
def dotFrom (m x t : List K) : K :=
  ((List.zip x (List.zip t m)).map (fun p => (p.1 - p.2.2) * (p.2.1 - p.2.2))).sum

@[simp] theorem sqDist_nil_left (y : List K) : sqDist [] y = 0 := by simp [sqDist]
@[simp] theorem sqDist_nil_right (x : List K) : sqDist x [] = 0 := by simp [sqDist]
@[simp] theorem sqDist_cons (a b : K) (x y : List K) :
    sqDist (a :: x) (b :: y) = (a - b) * (a - b) + sqDist x y := by simp [sqDist]

@[simp] theorem dotFrom_nil_x (m t : List K) : dotFrom m [] t = 0 := by simp [dotFrom]
@[simp] theorem dotFrom_nil_t (m x : List K) : dotFrom m x [] = 0 := by simp [dotFrom]
@[simp] theorem dotFrom_nil_m (x t : List K) : dotFrom [] x t = 0 := by simp [dotFrom]
@[simp] theorem dotFrom_cons (c a b : K) (m x t : List K) :
    dotFrom (c :: m) (a :: x) (b :: t) = (a - c) * (b - c) + dotFrom m x t := by simp [dotFrom]

/-- a left fold that adds `g p` at every step is the list sum -/
theorem foldl_add_eq_sum {β : Type} (step : K → β → K) (g : β → K) (h : ∀ s p, step s p = s + g p)
    (l : List β) (a : K) : l.foldl step a = a + (l.map g).sum := by
  induction l generalizing a with
  | nil => simp
  | cons p l ih => simp [List.foldl_cons, ih, h, add_assoc]

theorem sqDist_comm (x y : List K) : sqDist x y = sqDist y x := by
  induction x generalizing y with
  | nil => simp
  | cons a x ih =>
    cases y with
    | nil => simp
    | cons b y => simp only [sqDist_cons, ih y]; ring

@[simp] theorem sqDist_self (x : List K) : sqDist x x = 0 := by
  induction x with
  | nil => simp
  | cons a x ih => simp [ih]

/-- simultaneous induction on three lists of equal length -/
theorem list3_induction {α : Type} {P : List α → List α → List α → Prop} (nil : P [] [] [])
    (cons : ∀ a b c x y z, x.length = y.length → y.length = z.length → P x y z →
      P (a :: x) (b :: y) (c :: z)) :
    ∀ x y z, x.length = y.length → y.length = z.length → P x y z := by
  intro x
  induction x with
  | nil =>
    intro y z h1 h2
    cases y with
    | nil =>
      cases z with
      | nil => exact nil
      | cons c z => simp at h2
    | cons b y => simp at h1
  | cons a x ih =>
    intro y z h1 h2
    cases y with
    | nil => simp at h1
    | cons b y =>
      cases z with
      | nil => simp at h2
      | cons c z =>
        simp only [List.length_cons, Nat.add_right_cancel_iff] at h1 h2
        exact cons a b c x y z h1 h2 (ih y z h1 h2)

/-- `‖x - t‖² = ‖x - m‖² - 2⟨x - m, t - m⟩ + ‖t - m‖²` -/
theorem sqDist_expand (x t m : List K) (h1 : x.length = t.length) (h2 : t.length = m.length) :
    sqDist x t = sqDist x m - 2 * dotFrom m x t + sqDist t m := by
  revert h1 h2
  refine list3_induction (P := fun x t m => sqDist x t = sqDist x m - 2 * dotFrom m x t + sqDist t m)
    ?_ ?_ x t m
  · simp
  · intro a b c x y z _ _ ih
    simp only [sqDist_cons, dotFrom_cons, ih]; ring

/-- the quadratic `Σ ((x_i - m_i) λ + (t_i - m_i))²` -/
def quadAt (m x t : List K) (lam : K) : K :=
  ((List.zip x (List.zip t m)).map
    (fun p => ((p.1 - p.2.2) * lam + (p.2.1 - p.2.2)) * ((p.1 - p.2.2) * lam + (p.2.1 - p.2.2)))).sum

theorem quadAt_eq (x t m : List K) (lam : K) (h1 : x.length = t.length) (h2 : t.length = m.length) :
    quadAt m x t lam = sqDist x m * (lam * lam) + 2 * dotFrom m x t * lam + sqDist t m := by
  revert h1 h2
  refine list3_induction
    (P := fun x t m => quadAt m x t lam = sqDist x m * (lam * lam) + 2 * dotFrom m x t * lam + sqDist t m)
    ?_ ?_ x t m
  · simp [quadAt]
  · intro a b c x y z _ _ ih
    simp only [quadAt, List.zip_cons_cons, List.map_cons, List.sum_cons] at ih ⊢
    simp only [sqDist_cons, dotFrom_cons, ih]; ring

end ring

section ordered
variable {K : Type} [Field K] [LinearOrder K] [IsStrictOrderedRing K]

theorem sqDist_nonneg (x y : List K) : 0 ≤ sqDist x y := by
  unfold sqDist
  apply List.sum_nonneg
  intro c hc
  rw [List.mem_iff_getElem] at hc
  obtain ⟨i, hi, rfl⟩ := hc
  simp only [List.getElem_zipWith]
  exact mul_self_nonneg _

theorem quadAt_nonneg (m x t : List K) (lam : K) : 0 ≤ quadAt m x t lam := by
  unfold quadAt
  apply List.sum_nonneg
  intro c hc
  rw [List.mem_map] at hc
  obtain ⟨p, _, rfl⟩ := hc
  exact mul_self_nonneg _

/-- Cauchy–Schwarz: `⟨x - m, t - m⟩² ≤ ‖x - m‖² ‖t - m‖²` -/
theorem dotFrom_sq_le (x t m : List K) (h1 : x.length = t.length) (h2 : t.length = m.length) :
    dotFrom m x t ^ 2 ≤ sqDist x m * sqDist t m := by
  have h := discrim_le_zero (a := sqDist x m) (b := 2 * dotFrom m x t) (c := sqDist t m)
    (fun lam => by rw [← quadAt_eq x t m lam h1 h2]; exact quadAt_nonneg m x t lam)
  unfold discrim at h
  nlinarith [h]

end ordered

/-! ### Over the reals: the Euclidean distance `Real.sqrt (sqDist x y)` -/

/-- Euclidean distance of two coordinate lists (`GKLS_norm`) -/
noncomputable def dist (x y : List ℝ) : ℝ := Real.sqrt (sqDist x y)

theorem gklsNorm_eq (x y : List ℝ) : Prob.gklsNorm x y = dist x y := by
  unfold Prob.gklsNorm dist sqDist
  show Real.sqrt _ = _
  congr 1
  rw [foldl_add_eq_sum _ (fun p : ℝ × ℝ => (p.1 - p.2) * (p.1 - p.2)) (fun s p => rfl), zero_add,
    List.zip_eq_zipWith, List.map_zipWith]

theorem scal_eq (x t m : List ℝ) :
    (List.zip x (List.zip t m)).foldl (fun s (xi, ti, mi) => s + (xi - mi) * (ti - mi)) 0 = dotFrom m x t := by
  unfold dotFrom
  rw [foldl_add_eq_sum _ (fun p : ℝ × ℝ × ℝ => (p.1 - p.2.2) * (p.2.1 - p.2.2)) (fun s p => rfl), zero_add]

theorem dist_nonneg (x y : List ℝ) : 0 ≤ dist x y := Real.sqrt_nonneg _
theorem dist_comm (x y : List ℝ) : dist x y = dist y x := by unfold dist; rw [sqDist_comm]
@[simp] theorem dist_self (x : List ℝ) : dist x x = 0 := by unfold dist; simp
theorem dist_mul_self (x y : List ℝ) : dist x y * dist x y = sqDist x y :=
  Real.mul_self_sqrt (sqDist_nonneg x y)
theorem dist_sq (x y : List ℝ) : dist x y ^ 2 = sqDist x y := Real.sq_sqrt (sqDist_nonneg x y)

/-- `r < dist x y` in root-free form -/
theorem lt_dist_of_sq_lt {x y : List ℝ} {r : ℝ} (h : r ^ 2 < sqDist x y) : r < dist x y :=
  Real.lt_sqrt_of_sq_lt h

/-- Cauchy–Schwarz with norms: `|⟨x - m, t - m⟩| ≤ ‖x - m‖ ‖t - m‖` -/
theorem abs_dotFrom_le (x t m : List ℝ) (h1 : x.length = t.length) (h2 : t.length = m.length) :
    |dotFrom m x t| ≤ dist x m * dist t m := by
  have h := dotFrom_sq_le x t m h1 h2
  rw [← dist_sq x m, ← dist_sq t m, ← mul_pow] at h
  exact abs_le_of_sq_le_sq h (mul_nonneg (dist_nonneg _ _) (dist_nonneg _ _))

/-- triangle inequality through the point `m` -/
theorem dist_triangle (x t m : List ℝ) (h1 : x.length = t.length) (h2 : t.length = m.length) :
    dist x t ≤ dist x m + dist t m := by
  have hcs := abs_dotFrom_le x t m h1 h2
  have hexp := sqDist_expand x t m h1 h2
  have hneg : -(dist x m * dist t m) ≤ dotFrom m x t := (abs_le.mp hcs).1
  unfold dist at *
  apply Real.sqrt_le_iff.mpr
  refine ⟨add_nonneg (Real.sqrt_nonneg _) (Real.sqrt_nonneg _), ?_⟩
  have e1 := Real.sq_sqrt (sqDist_nonneg x m)
  have e2 := Real.sq_sqrt (sqDist_nonneg t m)
  nlinarith [hneg, e1, e2, hexp]

end Gkls
