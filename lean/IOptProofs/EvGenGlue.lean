import IOptProofs.EvGenNode
/-!
# Evolvent for every dimension, part 3: the corners of consecutive cells (raw form, before the swap)

With `(l, u, v) = node n d` write `δ i j = if i = j then -1 else 1` and

* entry corner of child `d` : `v`,
* exit corner of child `d`  : `E_j = δ j l · v_j`.

Closed forms (`n ≥ 2`): for EVEN `d`, `E_j = u_j · δ j (n-1)`; for ODD `d`, `v_j = u_j · δ j (n-1)`.
Consecutive digits `d`, `d+1` have `u` vectors that differ exactly at the position `c` of the lowest zero
bit of `d` (`gray_succ`), and if `d` is odd, `l(d) = l(d+1) = c`.  Together: `raw_glue`.
-/

namespace Ev.All

open Ev.Inv

/-- `-1` on the diagonal, `1` off it -/
def dl (i j : Nat) : Int := if i = j then -1 else 1

@[simp] theorem dl_self (i : Nat) : dl i i = -1 := by simp [dl]
theorem dl_ne {i j : Nat} (h : i ≠ j) : dl i j = 1 := by simp [dl, h]
theorem dl_sq (i j : Nat) : dl i j * dl i j = 1 := by unfold dl; split <;> rfl

theorem getI_mid (A B : List Int) (s : Int) : getI (A ++ s :: B) A.length = s := by
  simp [getI]

theorem getI_mid_ne (A B : List Int) (s t : Int) {j : Nat} (h : j ≠ A.length) :
    getI (A ++ s :: B) j = getI (A ++ t :: B) j := by
  unfold getI List.getD
  rcases Nat.lt_or_gt_of_ne h with h | h
  · rw [List.getElem?_append_left h, List.getElem?_append_left h]
  · rw [List.getElem?_append_right (Nat.le_of_lt h), List.getElem?_append_right (Nat.le_of_lt h)]
    obtain ⟨m, hm⟩ : ∃ m, j - A.length = m + 1 := ⟨j - A.length - 1, by omega⟩
    rw [hm]; rfl

/-- getI of a doubly updated list -/
theorem getI_set_set {a : List Int} {i j k : Nat} (x y : Int) (hj : j < a.length) (hk : k < a.length)
    (hjk : j ≠ k) :
    getI ((a.set j x).set k y) i = if i = k then y else if i = j then x else getI a i := by
  by_cases h1 : i = k
  · subst h1; rw [if_pos rfl, getI_set_eq _ (by simpa using hk)]
  · rw [if_neg h1, getI_set_ne _ h1]
    by_cases h2 : i = j
    · subst h2; rw [if_pos rfl, getI_set_eq _ hj]
    · rw [if_neg h2, getI_set_ne _ h2]

/-- last bit of a boundary list -/
theorem boundary_last {p q : List Bool} {b c : Bool} {k : Nat}
    (h : p ++ b :: List.replicate (k+1) (!b) = q ++ [c]) : c = !b := by
  rw [List.replicate_succ', ← List.cons_append, ← List.append_assoc] at h
  have := (List.append_inj' h rfl).2
  simpa using this.symm

/-- **even digits**: the exit corner is `u` with the last coordinate flipped -/
theorem node_even {n d : Nat} (hn : 2 ≤ n) (hd : d < 2^n) {q : List Bool} (hq : bitsM n d = q ++ [false])
    {j : Nat} (hj : j < n) :
    dl j (node n d).1 * getI (node n d).2.2 j = getI (node n d).2.1 j * dl j (n-1) := by
  have hlen := length_bitsM n d
  by_cases h0 : d = 0
  · subst h0
    rw [node_zero]; simp only
    rw [getI_replicate hj, Int.mul_comm]
  · rcases const_or_boundary (bitsM n d) with ⟨b, e⟩ | ⟨p, b, k, e⟩
    · exfalso
      rw [hlen] at e
      cases b
      · exact h0 ((bitsM_eq_false_iff hd).1 e)
      · rw [hq] at e
        have : false ∈ List.replicate n true := by rw [← e]; simp
        simpa using List.eq_of_mem_replicate this
    · obtain ⟨hnode, hlen', -, -⟩ := node_boundary hd e
      have hb : b = true := by
        have h3 := boundary_last (e.symm.trans hq)
        revert h3; cases b <;> simp
      subst hb
      have hgl : (gray (-1) (bitsM n d)).length = n := by rw [length_gray, hlen]
      rw [hnode]; simp only [sg_true]
      rw [getI_set_set _ _ (by omega) (by omega) (by omega)]
      by_cases h1 : j = n - 1
      · subst h1; rw [if_pos rfl, dl_ne (by omega), dl_self]; omega
      · rw [if_neg h1, dl_ne h1]
        by_cases h2 : j = p.length
        · subst h2; rw [if_pos rfl, dl_self]; omega
        · rw [if_neg h2, dl_ne h2]; omega

/-- **odd digits**: the entry corner is `u` with the last coordinate flipped -/
theorem node_odd {n d : Nat} (hn : 2 ≤ n) (hd : d < 2^n) {q : List Bool} (hq : bitsM n d = q ++ [true])
    {j : Nat} (hj : j < n) :
    getI (node n d).2.2 j = getI (node n d).2.1 j * dl j (n-1) := by
  have hlen := length_bitsM n d
  by_cases hL : d = 2^n - 1
  · subst hL
    rw [node_last (by omega)]; simp only
    have hl : ((1 : Int) :: List.replicate (n-1) (-1)).length = n := by simp; omega
    by_cases h1 : j = n - 1
    · subst h1
      rw [getI_set_eq _ (by omega), dl_self]
      obtain ⟨m, rfl⟩ : ∃ m, n = m + 2 := ⟨n - 2, by omega⟩
      show (1 : Int) = getI ((1 : Int) :: List.replicate (m+1) (-1)) (m+1) * -1
      rw [getI_cons_succ, getI_replicate (by omega)]; rfl
    · rw [getI_set_ne _ h1, dl_ne h1]; omega
  · rcases const_or_boundary (bitsM n d) with ⟨b, e⟩ | ⟨p, b, k, e⟩
    · exfalso
      rw [hlen] at e
      cases b
      · rw [hq] at e
        have : true ∈ List.replicate n false := by rw [← e]; simp
        simpa using List.eq_of_mem_replicate this
      · have := (bitsM_eq_true_iff hd).1 e; omega
    · obtain ⟨hnode, hlen', -, -⟩ := node_boundary hd e
      have hb : b = false := by
        have h3 := boundary_last (e.symm.trans hq)
        revert h3; cases b <;> simp
      subst hb
      have hgl : (gray (-1) (bitsM n d)).length = n := by rw [length_gray, hlen]
      rw [hnode]; simp only [sg_false]
      rw [getI_set_set _ _ (by omega) (by omega) (by omega)]
      by_cases h1 : j = n - 1
      · subst h1; rw [if_pos rfl, dl_self]; omega
      · rw [if_neg h1, dl_ne h1]
        by_cases h2 : j = p.length
        · subst h2; rw [if_pos rfl]; omega
        · rw [if_neg h2]; omega

/-- bits of the successor -/
theorem bitsM_succ {n d : Nat} {p : List Bool} {k : Nat}
    (hb : bitsM n d = p ++ false :: List.replicate k true) (hd : d < 2^n) :
    bitsM n (d+1) = p ++ true :: List.replicate k false := by
  have hlen : (p ++ true :: List.replicate k false).length = n := by
    have := congrArg List.length hb
    simp at this; simp; omega
  have hv : valM (p ++ true :: List.replicate k false) = d + 1 := by
    rw [← valM_succ, ← hb, valM_bitsM n d hd]
  rw [← hv, ← hlen]; exact bitsM_valM _

/-- **gluing, raw form**: consecutive digits `d`, `d+1` differ in exactly one coordinate `c` of `u`; the exit
corner of `d` and the entry corner of `d+1` agree off `c` and point at each other on `c`. -/
theorem raw_glue {n d : Nat} (hn : 2 ≤ n) (hd : d + 1 < 2^n) : ∃ c, c < n ∧
    getI (node n d).2.1 c ≠ getI (node n (d+1)).2.1 c ∧
    dl c (node n d).1 * getI (node n d).2.2 c = getI (node n (d+1)).2.1 c ∧
    getI (node n (d+1)).2.2 c = getI (node n d).2.1 c ∧
    ∀ j, j < n → j ≠ c →
      getI (node n d).2.1 j = getI (node n (d+1)).2.1 j ∧
      dl j (node n d).1 * getI (node n d).2.2 j = getI (node n (d+1)).2.2 j := by
  have hd0 : d < 2^n := by omega
  have hlen := length_bitsM n d
  have hnt : bitsM n d ≠ List.replicate (bitsM n d).length true := by
    rw [hlen]; intro e
    have := (bitsM_eq_true_iff hd0).1 e; omega
  obtain ⟨p, k, hb⟩ := exists_last_false _ hnt
  have hb1 := bitsM_succ hb hd0
  have hn' : n = p.length + 1 + k := by
    have := congrArg List.length hb
    simp at this; omega
  obtain ⟨A, B, s, hA, hB, hs, g0, g1⟩ := gray_succ p k
  have hu0 : (node n d).2.1 = A ++ s :: B := by rw [node_u (by omega) hd0, hb, g0]
  have hu1 : (node n (d+1)).2.1 = A ++ (-s) :: B := by rw [node_u (by omega) hd, hb1, g1]
  have hc0 : getI (node n d).2.1 p.length = s := by rw [hu0, ← hA]; exact getI_mid _ _ _
  have hc1 : getI (node n (d+1)).2.1 p.length = -s := by rw [hu1, ← hA]; exact getI_mid _ _ _
  have hne : ∀ j, j ≠ p.length → getI (node n d).2.1 j = getI (node n (d+1)).2.1 j := by
    intro j hj; rw [hu0, hu1]; exact getI_mid_ne _ _ _ _ (by rw [hA]; exact hj)
  refine ⟨p.length, by omega, ?_, ?_⟩
  · rw [hc0, hc1]; rcases hs with rfl | rfl <;> decide
  cases k with
  | zero =>
    -- `d` even, `d+1` odd, `c = n-1`
    have hcn : p.length = n - 1 := by omega
    have he := fun j (hj : j < n) => node_even hn hd0 (q := p) (by rw [hb]; rfl) hj
    have ho := fun j (hj : j < n) => node_odd hn hd (q := p) (by rw [hb1]; rfl) hj
    refine ⟨?_, ?_, fun j hj hjc => ⟨hne j hjc, ?_⟩⟩
    · rw [he _ (by omega), hc0, hc1, hcn, dl_self]; omega
    · rw [ho _ (by omega), hc0, hc1, hcn, dl_self]; omega
    · rw [he j hj, ho j hj, hne j hjc]
  | succ k =>
    -- `d` odd, `d+1` even, `l(d) = l(d+1) = c ≠ n-1`
    have hcn : p.length ≠ n - 1 := by omega
    have hl0 : (node n d).1 = p.length := by
      rw [(node_boundary hd0 (b := false) (by rw [hb]; rfl)).1]
    have hl1 : (node n (d+1)).1 = p.length := by
      rw [(node_boundary hd (b := true) (by rw [hb1]; rfl)).1]
    have ho := fun j (hj : j < n) =>
      node_odd hn hd0 (q := p ++ false :: List.replicate k true)
        (by rw [hb, List.replicate_succ']; simp) hj
    have he := fun j (hj : j < n) =>
      node_even hn hd (q := p ++ true :: List.replicate k false)
        (by rw [hb1, List.replicate_succ']; simp) hj
    -- entry corner of `d+1` from its exit corner
    have hv1 : ∀ j, j < n → getI (node n (d+1)).2.2 j =
        dl j p.length * (getI (node n (d+1)).2.1 j * dl j (n-1)) := by
      intro j hj
      rw [← he j hj, hl1, ← Int.mul_assoc, dl_sq, Int.one_mul]
    refine ⟨?_, ?_, fun j hj hjc => ⟨hne j hjc, ?_⟩⟩
    · rw [hl0, ho _ (by omega), hc0, hc1, dl_self, dl_ne hcn]; omega
    · rw [hv1 _ (by omega), hc0, hc1, dl_self, dl_ne hcn]; omega
    · rw [hl0, ho j hj, hv1 j hj, hne j hjc]

/-! ### the first and the last digit -/

theorem node_zero_u {n j : Nat} (hj : j < n) : getI (node n 0).2.1 j = -1 := by
  rw [node_zero]; exact getI_replicate hj

theorem node_zero_v {n j : Nat} (hj : j < n) : getI (node n 0).2.2 j = -1 := by
  rw [node_zero]; exact getI_replicate hj

theorem node_last_u {n j : Nat} (hn : 1 ≤ n) (hj : j < n) :
    getI (node n (2^n-1)).2.1 j = if j = 0 then 1 else -1 := by
  rw [node_last hn]; simp only
  cases j with
  | zero => rfl
  | succ j => rw [getI_cons_succ, getI_replicate (by omega), if_neg (by omega)]

theorem node_last_v {n j : Nat} (hn : 2 ≤ n) (hj : j < n) :
    getI (node n (2^n-1)).2.2 j = if j = 0 ∨ j = n-1 then 1 else -1 := by
  have hu := node_last_u (n := n) (j := j) (by omega) hj
  rw [node_last (by omega)] at hu ⊢
  simp only at hu ⊢
  by_cases h1 : j = n - 1
  · subst h1; rw [getI_set_eq _ (by simp), if_pos (Or.inr rfl)]
  · rw [getI_set_ne _ h1, hu]
    by_cases h0 : j = 0
    · rw [if_pos h0, if_pos (Or.inl h0)]
    · rw [if_neg h0, if_neg (by omega)]

end Ev.All
