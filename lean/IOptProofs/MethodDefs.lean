import IOptProofs.MethodLists
import Mathlib.Tactic.Ring
import Mathlib.Tactic.Linarith
import Mathlib.Tactic.FieldSimp
import Mathlib.Tactic.Positivity
import Mathlib.Algebra.Order.Field.Basic
/-!
# The invariant of the AGP iteration: definitions and the equational form of `commit` / `prepare`
-/
set_option linter.unusedSectionVars false

namespace AGP
variable {α : Type} [Field α] [LinearOrder α] [IsStrictOrderedRing α] [Fns α]

/-! ## The invariant -/

/-- The characteristics stored in the items are those computed from `M`, `Z` and the neighbours. -/
structure FreshR (r M Z : α) (items : List (Item α)) : Prop where
  headR : ∀ f ∈ items.head?, f.R = none
  chainR : items.IsChain (fun a b => b.R = some (calcR r M Z a b))

/-- The queue is sorted (non-increasing keys) and holds exactly one entry `(R, id)` per item. -/
structure QueueOK (items : List (Item α)) (queue : List (Option α × Nat)) : Prop where
  sorted : QSorted queue
  perm : queue.Perm (items.map qkey)

/-- The part of the invariant that does not mention the queue. -/
structure InvItems (p : Params α) (s : State α) : Prop where
  /-- coordinates strictly increasing along the list -/
  sorted : s.items.IsChain (fun a b => a.x < b.x)
  head0 : ∀ f ∈ s.items.head?, f.x = 0
  last1 : ∀ l ∈ s.items.getLast?, l.x = 1
  /-- exactly the end points `0` and `1` are not evaluated -/
  ev_iff : ∀ it ∈ s.items, (it.ev = true ↔ 0 < it.x ∧ it.x < 1)
  ids_nodup : (s.items.map (·.id)).Nodup
  nextId_eq : s.nextId = s.items.length
  ids_lt : ∀ it ∈ s.items, it.id < s.nextId
  /-- every non-first item stores the Hoelder length of its interval -/
  delta : s.items.IsChain (fun a b => b.delta = calcDelta p.n a.x b.x)
  M_ge : 1 ≤ s.M
  /-- `M` dominates the slope of every neighbouring evaluated pair -/
  slope : s.items.IsChain (fun a b => a.ev = true → b.ev = true → |b.z - a.z| / b.delta ≤ s.M)
  Z_le : ∀ it ∈ s.items, it.ev = true → s.Z ≤ it.z
  best : ∃ it ∈ s.items, it.id = s.best ∧ it.ev = true ∧ it.z = s.Z
  /-- among the trials with the minimal value, `best` is the earliest (smallest id) -/
  best_first : ∀ it ∈ s.items, it.ev = true → it.z = s.Z → s.best ≤ it.id
  iters_eq : s.iters = s.nTrials
  nTrials_eq : s.nTrials = s.items.countP (·.ev)
  hv_eq : ∀ it ∈ s.items, it.ev = true → it.hv = it.z
  point_eq : ∀ it ∈ s.items, it.point = p.image it.x
  /-- when no recalculation is pending the stored characteristics are current -/
  fresh : s.recalc = false → FreshR p.r s.M s.Z s.items

/-- The invariant of the AGP iteration (between iterations). -/
structure Inv (p : Params α) (s : State α) : Prop extends InvItems p s where
  /-- when no recalculation is pending the queue is sorted and complete -/
  queue : s.recalc = false → QueueOK s.items s.queue

/-! ## `commit` in equational form -/

/-- whether `UpdateOptimum` replaces the best trial -/
def better (pr : Prep α) (z : α) : Bool :=
  ((findItem pr.s.items pr.s.best).map (·.z)).all (fun bz => decide (z < bz))

def cZ (pr : Prep α) (z : α) : α := if better pr z then z else pr.s.Z
def cBest (pr : Prep α) (z : α) : Nat := if better pr z then pr.s.nextId else pr.s.best
def cRc0 (pr : Prep α) (z : α) : Bool := if better pr z then true else pr.s.recalc
/-- the new item before its characteristic is computed -/
def cNew1 (p : Params α) (pr : Prep α) (z : α) : Item α :=
  { id := pr.s.nextId, x := pr.x, point := pr.point, z := z, hv := z, ev := true,
    delta := calcDelta p.n pr.left.x pr.x, R := none }
/-- the right neighbour with its new length -/
def cOld1 (p : Params α) (pr : Prep α) : Item α := { pr.old with delta := calcDelta p.n pr.x pr.old.x }
def cM1 (p : Params α) (pr : Prep α) (z : α) : α × Bool := calcM pr.s.M (cRc0 pr z) pr.left (cNew1 p pr z)
def cM2 (p : Params α) (pr : Prep α) (z : α) : α × Bool :=
  calcM (cM1 p pr z).1 (cM1 p pr z).2 (cNew1 p pr z) (cOld1 p pr)
def cNew2 (p : Params α) (pr : Prep α) (z : α) : Item α :=
  { cNew1 p pr z with R := some (calcR p.r (cM2 p pr z).1 (cZ pr z) pr.left (cNew1 p pr z)) }
def cOld2 (p : Params α) (pr : Prep α) (z : α) : Item α :=
  { cOld1 p pr with R := some (calcR p.r (cM2 p pr z).1 (cZ pr z) (cNew2 p pr z) (cOld1 p pr)) }

theorem commit_eq (p : Params α) (pr : Prep α) (z : α) : commit p pr z =
    { pr.s with
      items := insertBefore (cNew2 p pr z) (cOld2 p pr z) pr.s.items,
      queue := qinsert (qinsert pr.s.queue (cNew2 p pr z).R (cNew2 p pr z).id) (cOld2 p pr z).R (cOld2 p pr z).id,
      M := (cM2 p pr z).1, Z := cZ pr z, best := cBest pr z, recalc := (cM2 p pr z).2,
      iters := pr.s.iters + 1, nTrials := pr.s.nTrials + 1, nextId := pr.s.nextId + 1 } := by
  cases h : findItem pr.s.items pr.s.best with
  | none =>
    simp only [commit, better, h, Option.map, Option.all, cZ, cBest, cRc0, cNew1, cOld1, cM1, cM2, cNew2, cOld2]; rfl
  | some bi =>
    by_cases hz : z < bi.z
    · simp only [commit, better, h, Option.map, Option.all, hz, decide_true, cZ, cBest, cRc0, cNew1, cOld1, cM1, cM2, cNew2, cOld2]; rfl
    · simp only [commit, better, h, Option.map, Option.all, hz, decide_false, cZ, cBest, cRc0, cNew1, cOld1, cM1, cM2, cNew2, cOld2]; rfl

/-! ## `prepare` in equational form -/

theorem prepare_eq_ok (p : Params α) (s : State α) (k : Option α) (oid : Nat) (q : List (Option α × Nat))
    (old left : Item α)
    (h1 : (recalcAll p s).queue = (k, oid) :: q)
    (h2 : findItem (recalcAll p s).items oid = some old)
    (h3 : leftOf (recalcAll p s).items oid = some left)
    (h4 : left.x < nextX p (recalcAll p s).M left old ∧ nextX p (recalcAll p s).M left old < old.x) :
    prepare p s = .ok { s := { recalcAll p s with queue := q, minDelta := some (minOpt old.delta (recalcAll p s).minDelta) },
                        old := old, left := left, x := nextX p (recalcAll p s).M left old,
                        point := p.image (nextX p (recalcAll p s).M left old) } := by
  unfold prepare
  simp only [h1, List.isEmpty_cons, Bool.false_eq_true, if_false, h2, h3]
  rw [if_neg]
  rw [not_or, not_le, not_le]
  exact h4

/-! ## `calcM` -/

theorem calcM_spec (hL : FnsLaws α) (M : α) (rc : Bool) (l c : Item α) :
    M ≤ (calcM M rc l c).1 ∧
    (l.ev = c.ev → |c.z - l.z| / c.delta ≤ (calcM M rc l c).1) ∧
    (((calcM M rc l c).1 = M ∧ (calcM M rc l c).2 = rc) ∨
      (l.ev = c.ev ∧ (calcM M rc l c).1 = |c.z - l.z| / c.delta ∧ M < (calcM M rc l c).1 ∧
        (calcM M rc l c).2 = true)) := by
  unfold calcM
  rw [hL.abs_eq, abs_sub_comm]
  by_cases hev : l.ev = c.ev
  · have hb : (l.ev == c.ev) = true := by simpa using hev
    simp only [hb, if_true]
    by_cases hm : M < |c.z - l.z| / c.delta
    · rw [if_pos hm]
      exact ⟨hm.le, fun _ => le_rfl, Or.inr ⟨hev, rfl, hm, rfl⟩⟩
    · rw [if_neg hm]
      exact ⟨le_rfl, fun _ => not_lt.1 hm, Or.inl ⟨rfl, rfl⟩⟩
  · have hb : (l.ev == c.ev) = false := by simpa using hev
    simp only [hb]
    exact ⟨le_rfl, fun h => absurd h hev, Or.inl ⟨rfl, rfl⟩⟩

/-! ## `recalcItems` only changes the characteristics -/

/-- forget the characteristic -/
def eraseR (it : Item α) : Item α := { it with R := none }

theorem recalcItems_map_eraseR (r M Z : α) (o : Option (Item α)) (l : List (Item α)) :
    (recalcItems r M Z o l).map eraseR = l.map eraseR := by
  induction l generalizing o with
  | nil => cases o <;> simp [recalcItems]
  | cons it t ih => cases o <;> simp [recalcItems, ih, eraseR]

theorem recalcItems_chain_some (r M Z : α) (l0 : Item α) (l : List (Item α)) :
    (l0 :: recalcItems r M Z (some l0) l).IsChain (fun a b => b.R = some (calcR r M Z a b)) := by
  induction l generalizing l0 with
  | nil => simp [recalcItems]
  | cons it t ih =>
    simp only [recalcItems, List.isChain_cons_cons]
    exact ⟨rfl, ih _⟩

theorem recalcItems_fresh (r M Z : α) (l : List (Item α)) : FreshR r M Z (recalcItems r M Z none l) := by
  cases l with
  | nil => exact ⟨by simp [recalcItems], by simp [recalcItems]⟩
  | cons it t =>
    refine ⟨by simp [recalcItems], ?_⟩
    simp only [recalcItems]
    exact recalcItems_chain_some r M Z _ t

end AGP
