/-!
# The dimensions for which the evolvent theorems are established (central definition)

Every theorem about the evolvent (`C07`, `C08`, `C09`, `C17`, `C20`, and `C01`/`C05` through them) is proved from
the finite facts `Ev.EvFacts n`, `Ev.Inv.nodeOK n d`, `Ev.Inv.numbrOK n u`.  `Ev.DimOK n` is the ONE place that says
for which dimensions `n` these facts are available; all the theorems carry `(hn : Ev.DimOK n)`.

The facts are PROVED for every `n ≥ 2` (`IOptProofs/EvGenBits.lean`, `EvGenNode.lean`, `EvGenGlue.lean`,
`EvGenCert.lean`: `Ev.evFacts_all`, `Ev.Inv.nodeOK_all`, `Ev.Inv.numbrOK_all`), so `Ev.DimOK n` is just `2 ≤ n`:
the evolvent theorems hold in EVERY dimension with a curve.  (For `n = 2, …, 7` the same facts are also
established independently by kernel-evaluated certificates: `EvFinCert.lean`, `EvFinCert6.lean`, `EvFinCert7.lean`,
`EvInvFin.lean`, `EvInvFin6.lean`, `EvInvFin7.lean`; the two routes are compared in `EvDimFacts.lean`.)

Use only the lemmas below (`DimOK.two_le`, `DimOK.pos`, `DimOK.ne_zero`, `DimOK.ne_one`), never the shape of the
definition.
-/

namespace Ev

/-- the dimensions `n` for which the finite facts about one level of the evolvent are established: every `n ≥ 2` -/
def DimOK (n : Nat) : Prop := 2 ≤ n

instance (n : Nat) : Decidable (DimOK n) := inferInstanceAs (Decidable (2 ≤ n))

/-- `n = 1` (the affine branch of the code, no curve) or a dimension covered by `DimOK`: every `n ≥ 1` -/
def DimOK1 (n : Nat) : Prop := 1 ≤ n

instance (n : Nat) : Decidable (DimOK1 n) := inferInstanceAs (Decidable (1 ≤ n))

theorem dimOK_iff (n : Nat) : DimOK n ↔ 2 ≤ n := Iff.rfl

theorem dimOK1_iff (n : Nat) : DimOK1 n ↔ 1 ≤ n := Iff.rfl

theorem DimOK.two_le {n : Nat} (h : DimOK n) : 2 ≤ n := h

theorem dimOK_of_two_le {n : Nat} (h : 2 ≤ n) : DimOK n := h

theorem DimOK.pos {n : Nat} (h : DimOK n) : 0 < n := Nat.lt_of_lt_of_le (by decide) h.two_le

theorem DimOK.one_le {n : Nat} (h : DimOK n) : 1 ≤ n := h.pos

theorem DimOK.ne_zero {n : Nat} (h : DimOK n) : n ≠ 0 := Nat.pos_iff_ne_zero.1 h.pos

theorem DimOK.ne_one {n : Nat} (h : DimOK n) : n ≠ 1 := fun e => by
  have := h.two_le; omega

theorem dimOK_of_mem {n : Nat} (h : n ∈ [2, 3, 4, 5, 6, 7]) : DimOK n := by
  simp only [List.mem_cons, List.not_mem_nil, or_false] at h
  rcases h with rfl | rfl | rfl | rfl | rfl | rfl <;> decide

theorem DimOK1.one_le {n : Nat} (h : DimOK1 n) : 1 ≤ n := h

theorem DimOK.dimOK1 {n : Nat} (h : DimOK n) : DimOK1 n := h.one_le

/-- `DimOK1 n` is `n = 1` or `DimOK n` -/
theorem DimOK1.cases {n : Nat} (h : DimOK1 n) : n = 1 ∨ DimOK n := by
  have h1 := h.one_le
  by_cases e : n = 1
  · exact Or.inl e
  · exact Or.inr (by show 2 ≤ n; omega)

theorem dimOK1_one : DimOK1 1 := by decide

end Ev
