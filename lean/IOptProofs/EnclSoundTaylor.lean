import IOptProofs.EnclDefs
import IOptProofs.EnclTrigReal
import Mathlib.Analysis.SpecialFunctions.Trigonometric.Bounds
import Mathlib.Tactic.Linarith
import Mathlib.Tactic.Ring
import Mathlib.Tactic.Positivity
import Mathlib.Tactic.NormNum
/-!
# Enclosure kit, soundness part 1: floor lemmas, the reduced angle `phi`, the Taylor stage `cosT`, `sinT`
-/

namespace Encl

/-- decoded trigonometric fixed-point value `(X - B)/2^64` -/
noncomputable def dT (X : ℕ) : ℝ := ((X : ℝ) - (B : ℝ)) / 2 ^ 64

theorem ONE_cast : (ONE : ℝ) = 2 ^ 64 := by norm_num [ONE]
theorem B_cast : (B : ℝ) = 2 ^ 65 := by norm_num [B]

/-! ## floors -/

theorem div_cast_le (a d : ℕ) : ((Nat.div a d : ℕ) : ℝ) ≤ (a : ℝ) / d :=
  Nat.cast_div_le

theorem lt_div_cast (a d : ℕ) (hd : 0 < d) : (a : ℝ) / d < ((Nat.div a d : ℕ) : ℝ) + 1 := by
  have h := Nat.lt_div_mul_add (a := a) hd
  have hd' : (0 : ℝ) < d := by exact_mod_cast hd
  rw [div_lt_iff₀ hd']
  have : (a : ℝ) < (a / d : ℕ) * d + d := by exact_mod_cast h
  show (a : ℝ) < (((a / d : ℕ) : ℝ) + 1) * d
  linarith

theorem shr_cast_le (n k : ℕ) : ((Nat.shiftRight n k : ℕ) : ℝ) ≤ (n : ℝ) / 2 ^ k := by
  have : Nat.shiftRight n k = Nat.div n (2 ^ k) := Nat.shiftRight_eq_div_pow n k
  rw [this]
  have := div_cast_le n (2 ^ k)
  simpa using this

theorem lt_shr_cast (n k : ℕ) : (n : ℝ) / 2 ^ k < ((Nat.shiftRight n k : ℕ) : ℝ) + 1 := by
  have : Nat.shiftRight n k = Nat.div n (2 ^ k) := Nat.shiftRight_eq_div_pow n k
  rw [this]
  have := lt_div_cast n (2 ^ k) (by positivity)
  simpa using this

theorem shl_cast (n k : ℕ) : ((Nat.shiftLeft n k : ℕ) : ℝ) = (n : ℝ) * 2 ^ k := by
  have : Nat.shiftLeft n k = n * 2 ^ k := Nat.shiftLeft_eq n k
  rw [this]; push_cast; ring

/-! ## the reduced angle -/

/-- `phi num k` approximates `φ·2^64`, `φ = π·num/2^(k+4) = 2π·(num/2^k)/32`, within 2 units, and
`φ₀ = phi/2^64 ≤ 1/5` -/
theorem phi_spec {num k : ℕ} (h : num ≤ 2 ^ k) :
    |Real.pi * num / 2 ^ (k + 4) * 2 ^ 64 - (phi num k : ℝ)| ≤ 2 ∧
    (phi num k : ℝ) ≤ 2 ^ 64 / 5 := by
  have hk : (0 : ℝ) < 2 ^ k := by positivity
  set τ : ℝ := (num : ℝ) / 2 ^ k with hτ
  have hτ0 : 0 ≤ τ := by positivity
  have hτ1 : τ ≤ 1 := by
    rw [hτ, div_le_one hk]; exact_mod_cast h
  set q : ℝ := ((Nat.mul PI_N num : ℕ) : ℝ) / 2 ^ (Nat.add k 10) with hq
  have hq' : q = (3708937962535486895300 / 2 ^ 70) * τ * 2 ^ 60 := by
    rw [hq, hτ]
    show ((PI_N * num : ℕ) : ℝ) / 2 ^ (k + 10) = _
    rw [pow_add]
    push_cast
    rw [show (PI_N : ℝ) = 3708937962535486895300 by norm_num [PI_N]]
    field_simp
  have e1 : Real.pi * num / 2 ^ (k + 4) * 2 ^ 64 = Real.pi * τ * 2 ^ 60 := by
    rw [hτ, pow_add]; field_simp
  have hfl1 : (phi num k : ℝ) ≤ q := shr_cast_le _ _
  have hfl2 : q < (phi num k : ℝ) + 1 := lt_shr_cast _ _
  have hp := abs_le.mp pi_approx
  have hd : |Real.pi * τ * 2 ^ 60 - q| ≤ 1 / 64 := by
    rw [hq']
    have : Real.pi * τ * 2 ^ 60 - 3708937962535486895300 / 2 ^ 70 * τ * 2 ^ 60
        = (Real.pi - 3708937962535486895300 / 2 ^ 70) * (τ * 2 ^ 60) := by ring
    rw [this, abs_mul, abs_of_nonneg (by positivity : (0 : ℝ) ≤ τ * 2 ^ 60)]
    calc |Real.pi - 3708937962535486895300 / 2 ^ 70| * (τ * 2 ^ 60)
        ≤ (1 / 2 ^ 66) * (1 * 2 ^ 60) := by
          apply mul_le_mul pi_approx _ (by positivity) (by positivity)
          exact mul_le_mul_of_nonneg_right hτ1 (by positivity)
      _ = 1 / 64 := by norm_num
  have hd' := abs_le.mp hd
  refine ⟨?_, ?_⟩
  · rw [e1, abs_le]; constructor <;> linarith [hd'.1, hd'.2]
  · have : q ≤ 3708937962535486895300 / 2 ^ 70 * 1 * 2 ^ 60 := by
      rw [hq']; gcongr
    have h2 : (3708937962535486895300 : ℝ) / 2 ^ 70 * 1 * 2 ^ 60 ≤ 2 ^ 64 / 5 := by norm_num
    linarith

/-! ## Horner levels -/

/-- one Horner level: ideal value `1 - u₀·W/d`, computed value `lvl u w dd` -/
theorem lvl_spec {u w dd : ℕ} {u₀ W d : ℝ}
    (hu0 : 0 ≤ u₀) (hu1 : u₀ ≤ 1 / 25) (hu : |u₀ - (u : ℝ) / 2 ^ 64| ≤ 1 / 2 ^ 64)
    (huc : (u : ℝ) ≤ 2 ^ 64 / 25)
    (hw : (w : ℝ) ≤ 2 ^ 64) (hW0 : 0 ≤ W) (hW1 : W ≤ 1)
    (hδ : |W - (w : ℝ) / 2 ^ 64| ≤ 2 / 2 ^ 64)
    (hd : 2 ≤ d) (hdd : (dd : ℝ) = d * 2 ^ 64) :
    ((lvl u w dd : ℕ) : ℝ) ≤ 2 ^ 64 ∧ 0 ≤ 1 - u₀ * W / d ∧ 1 - u₀ * W / d ≤ 1 ∧
    |(1 - u₀ * W / d) - ((lvl u w dd : ℕ) : ℝ) / 2 ^ 64| ≤ 2 / 2 ^ 64 := by
  have hd0 : 0 < d := by linarith
  have hddpos : 0 < dd := by
    have : (0 : ℝ) < dd := by rw [hdd]; positivity
    exact_mod_cast this
  set m : ℕ := Nat.div (Nat.mul u w) dd with hm
  have hm1 : (m : ℝ) ≤ ((Nat.mul u w : ℕ) : ℝ) / dd := div_cast_le _ _
  have hm2 : ((Nat.mul u w : ℕ) : ℝ) / dd < (m : ℝ) + 1 := lt_div_cast _ _ hddpos
  have huw : ((Nat.mul u w : ℕ) : ℝ) = (u : ℝ) * w := by
    show ((u * w : ℕ) : ℝ) = _; push_cast; ring
  rw [huw, hdd] at hm1 hm2
  have hu_nn : (0 : ℝ) ≤ u := Nat.cast_nonneg _
  have hw_nn : (0 : ℝ) ≤ w := Nat.cast_nonneg _
  have hp : (0 : ℝ) < 2 ^ 64 := by positivity
  -- `x := u*w/(d*2^64)`
  set x : ℝ := (u : ℝ) * w / (d * 2 ^ 64) with hx
  have hx0 : 0 ≤ x := by positivity
  have hxle : x ≤ 2 ^ 64 / 50 := by
    rw [hx, div_le_iff₀ (by positivity)]
    nlinarith [mul_le_mul huc hw hw_nn (by positivity : (0:ℝ) ≤ 2 ^ 64 / 25)]
  have hmle : (m : ℝ) ≤ 2 ^ 64 := by linarith
  have hmle' : m ≤ ONE := by
    have : (m : ℝ) ≤ (ONE : ℝ) := by rw [ONE_cast]; exact hmle
    exact_mod_cast this
  have hl : ((lvl u w dd : ℕ) : ℝ) = 2 ^ 64 - m := by
    show ((ONE - m : ℕ) : ℝ) = _
    rw [Nat.cast_sub hmle', ONE_cast]
  have hm0 : (0 : ℝ) ≤ m := Nat.cast_nonneg _
  have hprod0 : 0 ≤ u₀ * W / d := by positivity
  have hprod1 : u₀ * W / d ≤ 1 := by
    rw [div_le_one hd0]; nlinarith
  refine ⟨by rw [hl]; linarith, by linarith, by linarith, ?_⟩
  rw [hl]
  -- error analysis
  have hu' := abs_le.mp hu
  have hδ' := abs_le.mp hδ
  set uh : ℝ := (u : ℝ) / 2 ^ 64 with huh
  set wh : ℝ := (w : ℝ) / 2 ^ 64 with hwh
  have huh0 : 0 ≤ uh := by positivity
  have huh1 : uh ≤ 1 / 25 := by rw [huh, div_le_iff₀ hp]; linarith
  have hwh0 : 0 ≤ wh := by positivity
  have hwh1 : wh ≤ 1 := by rw [hwh, div_le_one hp]; exact hw
  have hxe : x / 2 ^ 64 = uh * wh / d := by
    rw [hx, huh, hwh]; field_simp
  have e : (1 - u₀ * W / d) - (2 ^ 64 - (m : ℝ)) / 2 ^ 64
      = ((m : ℝ) - x) / 2 ^ 64 + (uh * wh - u₀ * W) / d := by
    rw [sub_div, div_self (ne_of_gt hp), sub_div, hxe]; ring
  rw [e]
  have hmx1 : -1 / 2 ^ 64 ≤ ((m : ℝ) - x) / 2 ^ 64 := by
    rw [div_le_div_iff_of_pos_right hp]; linarith
  have hmx2 : ((m : ℝ) - x) / 2 ^ 64 ≤ 0 := by
    apply div_nonpos_of_nonpos_of_nonneg _ hp.le; linarith
  -- `|uh*wh - u₀*W| ≤ |uh - u₀|*wh + u₀*|wh - W| ≤ 1/2^64 + (1/25)*(2/2^64)`
  have hprod : |uh * wh - u₀ * W| ≤ (1 + 2 / 25) / 2 ^ 64 := by
    have : uh * wh - u₀ * W = (uh - u₀) * wh + u₀ * (wh - W) := by ring
    rw [this]
    refine (abs_add_le _ _).trans ?_
    rw [abs_mul, abs_mul, abs_of_nonneg hwh0, abs_of_nonneg hu0]
    have a1 : |uh - u₀| ≤ 1 / 2 ^ 64 := by rw [abs_sub_comm]; exact hu
    have a2 : |wh - W| ≤ 2 / 2 ^ 64 := by rw [abs_sub_comm]; exact hδ
    have b1 : |uh - u₀| * wh ≤ 1 / 2 ^ 64 * 1 :=
      mul_le_mul a1 hwh1 hwh0 (by positivity)
    have b2 : u₀ * |wh - W| ≤ 1 / 25 * (2 / 2 ^ 64) :=
      mul_le_mul hu1 a2 (abs_nonneg _) (by norm_num)
    calc _ ≤ 1 / 2 ^ 64 * 1 + 1 / 25 * (2 / 2 ^ 64) := add_le_add b1 b2
      _ = _ := by ring
  have hq : |(uh * wh - u₀ * W) / d| ≤ (1 + 2 / 25) / 2 ^ 64 / 2 := by
    rw [abs_div, abs_of_pos hd0]
    calc |uh * wh - u₀ * W| / d ≤ ((1 + 2 / 25) / 2 ^ 64) / d := by gcongr
      _ ≤ ((1 + 2 / 25) / 2 ^ 64) / 2 := by
        apply div_le_div_of_nonneg_left (by positivity) (by norm_num) hd
  have hq' := abs_le.mp hq
  rw [abs_le]
  constructor
  · have : -(2 / 2 ^ 64 : ℝ) ≤ -1 / 2 ^ 64 + -((1 + 2 / 25) / 2 ^ 64 / 2) := by
      rw [neg_div, ← neg_add, neg_le_neg_iff]
      have : (1 : ℝ) / 2 ^ 64 + (1 + 2 / 25) / 2 ^ 64 / 2 = (1 + (1 + 2 / 25) / 2) / 2 ^ 64 := by ring
      rw [this]; gcongr; norm_num
    linarith [hq'.1]
  · have : (1 + 2 / 25 : ℝ) / 2 ^ 64 / 2 ≤ 2 / 2 ^ 64 := by
      rw [div_div, div_le_div_iff₀ (by positivity) hp]; norm_num
    linarith [hq'.2]

/-- Horner forms of the Taylor polynomials -/
theorem C11_horner (φ : ℝ) :
    C11 φ = 1 - φ ^ 2 * (1 - φ ^ 2 * (1 - φ ^ 2 * (1 - φ ^ 2 * (1 - φ ^ 2 * 1 / 90) / 56) / 30) / 12) / 2 := by
  unfold C11; ring

theorem S11_horner (φ : ℝ) :
    S11 φ = φ * (1 - φ ^ 2 * (1 - φ ^ 2 * (1 - φ ^ 2 * (1 - φ ^ 2 * 1 / 72) / 42) / 20) / 6) := by
  unfold S11; ring

/-- the squared angle -/
theorem usq_spec {p : ℕ} (hp : (p : ℝ) ≤ 2 ^ 64 / 5) :
    0 ≤ ((p : ℝ) / 2 ^ 64) ^ 2 ∧ ((p : ℝ) / 2 ^ 64) ^ 2 ≤ 1 / 25 ∧
    |((p : ℝ) / 2 ^ 64) ^ 2 - (usq p : ℝ) / 2 ^ 64| ≤ 1 / 2 ^ 64 ∧ (usq p : ℝ) ≤ 2 ^ 64 / 25 := by
  have h64 : (0 : ℝ) < 2 ^ 64 := by positivity
  have hp0 : (0 : ℝ) ≤ p := Nat.cast_nonneg _
  have h1 : (usq p : ℝ) ≤ ((Nat.mul p p : ℕ) : ℝ) / 2 ^ 64 := shr_cast_le _ _
  have h2 : ((Nat.mul p p : ℕ) : ℝ) / 2 ^ 64 < (usq p : ℝ) + 1 := lt_shr_cast _ _
  have hpp : ((Nat.mul p p : ℕ) : ℝ) = (p : ℝ) * p := by
    show ((p * p : ℕ) : ℝ) = _; push_cast; ring
  rw [hpp] at h1 h2
  have hsq : ((p : ℝ) / 2 ^ 64) ^ 2 = (p : ℝ) * p / 2 ^ 64 / 2 ^ 64 := by field_simp
  have hφ : (p : ℝ) / 2 ^ 64 ≤ 1 / 5 := by rw [div_le_iff₀ h64]; linarith
  have hφ0 : 0 ≤ (p : ℝ) / 2 ^ 64 := by positivity
  have hb : ((p : ℝ) / 2 ^ 64) ^ 2 ≤ 1 / 25 := by nlinarith
  refine ⟨by positivity, hb, ?_, ?_⟩
  · rw [hsq, ← sub_div, abs_div, abs_of_pos h64, div_le_div_iff_of_pos_right h64, abs_le]
    constructor <;> linarith
  · have : (p : ℝ) * p / 2 ^ 64 ≤ 2 ^ 64 / 25 := by
      rw [hsq] at hb
      rw [div_le_iff₀ h64] at hb
      linarith
    linarith

/-- the Taylor stage: `cosT`, `sinT` are within 2 units of `C11 φ₀·2^64`, `S11 φ₀·2^64`, `φ₀ = p/2^64` -/
theorem taylor_spec {p : ℕ} (hp : (p : ℝ) ≤ 2 ^ 64 / 5) :
    |C11 ((p : ℝ) / 2 ^ 64) - (cosT (usq p) : ℝ) / 2 ^ 64| ≤ 2 / 2 ^ 64 ∧
    |S11 ((p : ℝ) / 2 ^ 64) - (sinT p (usq p) : ℝ) / 2 ^ 64| ≤ 2 / 2 ^ 64 := by
  obtain ⟨hu0, hu1, hu, huc⟩ := usq_spec hp
  set φ : ℝ := (p : ℝ) / 2 ^ 64 with hφ
  set u := usq p with hudef
  have h64 : (0 : ℝ) < 2 ^ 64 := by positivity
  have base : |(1 : ℝ) - (ONE : ℝ) / 2 ^ 64| ≤ 2 / 2 ^ 64 := by
    rw [ONE_cast, div_self (ne_of_gt h64), sub_self, abs_zero]; positivity
  have hONE : (ONE : ℝ) ≤ 2 ^ 64 := le_of_eq ONE_cast
  constructor
  · obtain ⟨a1, a2, a3, a4⟩ := lvl_spec (dd := 1660206966633859645440) (d := 90) hu0 hu1 hu huc hONE
      zero_le_one le_rfl base (by norm_num) (by norm_num)
    obtain ⟨b1, b2, b3, b4⟩ := lvl_spec (dd := 1033017668127734890496) (d := 56) hu0 hu1 hu huc a1
      a2 a3 a4 (by norm_num) (by norm_num)
    obtain ⟨c1, c2, c3, c4⟩ := lvl_spec (dd := 553402322211286548480) (d := 30) hu0 hu1 hu huc b1
      b2 b3 b4 (by norm_num) (by norm_num)
    obtain ⟨d1, d2, d3, d4⟩ := lvl_spec (dd := 221360928884514619392) (d := 12) hu0 hu1 hu huc c1
      c2 c3 c4 (by norm_num) (by norm_num)
    obtain ⟨_, _, _, e4⟩ := lvl_spec (dd := 36893488147419103232) (d := 2) hu0 hu1 hu huc d1
      d2 d3 d4 (by norm_num) (by norm_num)
    rw [C11_horner]
    exact e4
  · obtain ⟨a1, a2, a3, a4⟩ := lvl_spec (dd := 1328165573307087716352) (d := 72) hu0 hu1 hu huc hONE
      zero_le_one le_rfl base (by norm_num) (by norm_num)
    obtain ⟨b1, b2, b3, b4⟩ := lvl_spec (dd := 774763251095801167872) (d := 42) hu0 hu1 hu huc a1
      a2 a3 a4 (by norm_num) (by norm_num)
    obtain ⟨c1, c2, c3, c4⟩ := lvl_spec (dd := 368934881474191032320) (d := 20) hu0 hu1 hu huc b1
      b2 b3 b4 (by norm_num) (by norm_num)
    obtain ⟨d1, d2, d3, d4⟩ := lvl_spec (dd := 110680464442257309696) (d := 6) hu0 hu1 hu huc c1
      c2 c3 c4 (by norm_num) (by norm_num)
    rw [S11_horner]
    set W : ℝ := 1 - φ ^ 2 * (1 - φ ^ 2 * (1 - φ ^ 2 * (1 - φ ^ 2 * 1 / 72) / 42) / 20) / 6 with hW
    set w : ℕ := lvl u (lvl u (lvl u (lvl u ONE 1328165573307087716352) 774763251095801167872)
      368934881474191032320) 110680464442257309696 with hw
    -- final multiplication by `p`
    have s1 : (sinT p u : ℝ) ≤ ((Nat.mul p w : ℕ) : ℝ) / 2 ^ 64 := shr_cast_le _ _
    have s2 : ((Nat.mul p w : ℕ) : ℝ) / 2 ^ 64 < (sinT p u : ℝ) + 1 := lt_shr_cast _ _
    have hpw : ((Nat.mul p w : ℕ) : ℝ) = (p : ℝ) * w := by
      show ((p * w : ℕ) : ℝ) = _; push_cast; ring
    rw [hpw] at s1 s2
    have hφ0 : 0 ≤ φ := by positivity
    have hφ1 : φ ≤ 1 / 5 := by rw [hφ, div_le_iff₀ h64]; linarith
    have d4' := abs_le.mp d4
    have e : (p : ℝ) * w / 2 ^ 64 / 2 ^ 64 = φ * ((w : ℝ) / 2 ^ 64) := by rw [hφ]; field_simp
    have k1 : (sinT p u : ℝ) / 2 ^ 64 ≤ φ * ((w : ℝ) / 2 ^ 64) := by
      rw [← e]; exact div_le_div_of_nonneg_right s1 h64.le
    have k2 : φ * ((w : ℝ) / 2 ^ 64) < (sinT p u : ℝ) / 2 ^ 64 + 1 / 2 ^ 64 := by
      rw [← e, ← add_div]; exact div_lt_div_of_pos_right s2 h64
    have m1 : φ * (W - (w : ℝ) / 2 ^ 64) ≤ 1 / 5 * (2 / 2 ^ 64) := by
      rcases le_total 0 (W - (w : ℝ) / 2 ^ 64) with hh | hh
      · exact mul_le_mul hφ1 d4'.2 hh (by norm_num)
      · have : φ * (W - (w : ℝ) / 2 ^ 64) ≤ 0 := mul_nonpos_of_nonneg_of_nonpos hφ0 hh
        have : (0 : ℝ) ≤ 1 / 5 * (2 / 2 ^ 64) := by positivity
        linarith
    have m2 : -(1 / 5 * (2 / 2 ^ 64)) ≤ φ * (W - (w : ℝ) / 2 ^ 64) := by
      rcases le_total 0 (W - (w : ℝ) / 2 ^ 64) with hh | hh
      · have : 0 ≤ φ * (W - (w : ℝ) / 2 ^ 64) := mul_nonneg hφ0 hh
        have : (0 : ℝ) ≤ 1 / 5 * (2 / 2 ^ 64) := by positivity
        linarith
      · have : φ * (-(W - (w : ℝ) / 2 ^ 64)) ≤ 1 / 5 * (2 / 2 ^ 64) :=
          mul_le_mul hφ1 (by linarith [d4'.1]) (by linarith) (by norm_num)
        linarith
    have t : (1 : ℝ) / 5 * (2 / 2 ^ 64) + 1 / 2 ^ 64 ≤ 2 / 2 ^ 64 := by
      rw [show (1 : ℝ) / 5 * (2 / 2 ^ 64) + 1 / 2 ^ 64 = (7 / 5) / 2 ^ 64 by ring]
      gcongr; norm_num
    rw [abs_le]
    constructor <;> nlinarith

end Encl
