import IOptProofs.GrishDefs
/-! kernel-evaluated certificates (V), (G), (P) of the Grishagin functions 86..90 (one block per file, identical template;
one theorem per function so that the kernel's reduction cache is released between functions) -/
namespace Grish
set_option maxRecDepth 100000
theorem grish_ok_86 : grishOK 86 = true := by decide +kernel
theorem grish_ok_87 : grishOK 87 = true := by decide +kernel
theorem grish_ok_88 : grishOK 88 = true := by decide +kernel
theorem grish_ok_89 : grishOK 89 = true := by decide +kernel
theorem grish_ok_90 : grishOK 90 = true := by decide +kernel
theorem grish_block_17 : ∀ k ∈ List.range' 86 5, grishOK k = true := by
  intro k hk
  simp only [List.mem_range'_1] at hk
  obtain ⟨h1, h2⟩ := hk
  have : k = 86 ∨ k = 87 ∨ k = 88 ∨ k = 89 ∨ k = 90 := by omega
  rcases this with rfl | rfl | rfl | rfl | rfl
  · exact grish_ok_86
  · exact grish_ok_87
  · exact grish_ok_88
  · exact grish_ok_89
  · exact grish_ok_90
end Grish
