import IOptProofs.BenchShekelDefs
/-! kernel-evaluated C10 certificates of the Shekel functions 350..399 (one block per file, identical template) -/
namespace Shk
set_option maxRecDepth 100000 in
theorem shekel_block_7 : ∀ i ∈ List.range' 350 50, shekelOK i = true := by decide +kernel
end Shk
