import IOptProofs.GrishSound1
/-!
# Grishagin checker, soundness part 2: the integer arithmetic of the centre evaluation is exact

The numbers `valPos - valNeg`, `gxPos - gxNeg`, `gyPos - gyNeg` are `2^164` times the bilinear forms
`genV K`, `genV (dxOp K)`, `genV (dyOp K)` in the fixed-point trigonometric values.
-/

namespace Grish
open Encl Finset

theorem BA_cast : (BA : ℝ) = 2 ^ 40 := by norm_num [BA]
theorem BI_cast : (BI : ℝ) = 2 ^ 106 := by norm_num [BI]
theorem K1_cast : (K1 : ℝ) = 7 * 2 ^ 40 * 2 ^ 65 + 2 ^ 106 := by norm_num [K1]
theorem C14_cast : (C14 : ℝ) = 14 * 2 ^ 106 * 2 ^ 65 := by norm_num [C14]

theorem dot7_cast (p q : V7) : ((dot7 p q : ℕ) : ℝ) = ∑ j ∈ range 7, (p.get j : ℝ) * (q.get j : ℝ) := by
  simp only [dot7, Nat.add_eq, Nat.mul_eq, sum_range_succ, sum_range_zero, V7.get]
  push_cast; ring

theorem sum7_cast (p : V7) : ((sum7 p : ℕ) : ℝ) = ∑ j ∈ range 7, (p.get j : ℝ) := by
  simp only [sum7, Nat.add_eq, sum_range_succ, sum_range_zero, V7.get]
  push_cast; ring

theorem mw7_get (p : V7) (j : ℕ) (hj : j < 7) : (mw7 p).get j = (j + 1) * p.get j := by
  interval_cases j <;> simp [mw7, V7.get]

/-- weighted biased dot product -/
theorem wdot (w P U : ℕ → ℝ) (bp bu : ℝ) (n : ℕ) :
    ∑ m ∈ range n, w m * P m * U m
      = ∑ m ∈ range n, w m * (P m - bp) * (U m - bu) + bu * ∑ m ∈ range n, w m * P m
        + bp * ∑ m ∈ range n, w m * U m - (∑ m ∈ range n, w m) * bp * bu := by
  induction n with
  | zero => simp
  | succ n ih => simp only [sum_range_succ, ih]; ring

/-- the fixed-point value denoted by a biased trigonometric number -/
theorem cast_trig (X : ℕ) : (X : ℝ) = dT X * 2 ^ 64 + 2 ^ 65 := cast_eq_dT X

/-- exactness of an inner sum: coefficients `κ_j·2^36 + 2^40` with `|κ_j| ≤ 7`, trigonometric values of
modulus `≤ 5/4` -/
theorem inner_spec (co v : V7) (κ : ℕ → ℝ)
    (hco : ∀ j < 7, (co.get j : ℝ) = κ j * 2 ^ 36 + 2 ^ 40) (hκ : ∀ j < 7, |κ j| ≤ 7)
    (hv : ∀ j < 7, |dT (v.get j)| ≤ 5 / 4) :
    ((inner co v : ℕ) : ℝ) = (∑ j ∈ range 7, κ j * dT (v.get j)) * 2 ^ 100 + 2 ^ 106 := by
  -- the real value of the minuend minus the subtrahend
  have key : (K1 : ℝ) + (dot7 co v : ℕ) - ((B : ℝ) * (sum7 co : ℕ) + (BA : ℝ) * (sum7 v : ℕ))
      = (∑ j ∈ range 7, κ j * dT (v.get j)) * 2 ^ 100 + 2 ^ 106 := by
    rw [dot7_cast, sum7_cast, sum7_cast, K1_cast, B_cast, BA_cast]
    have h1 : ∑ j ∈ range 7, (co.get j : ℝ) * (v.get j : ℝ)
        = ∑ j ∈ range 7, (κ j * 2 ^ 36 + 2 ^ 40) * (dT (v.get j) * 2 ^ 64 + 2 ^ 65) :=
      sum_congr rfl fun j hj => by rw [hco j (mem_range.mp hj), ← cast_trig]
    have h2 : ∑ j ∈ range 7, (co.get j : ℝ) = ∑ j ∈ range 7, (κ j * 2 ^ 36 + 2 ^ 40) :=
      sum_congr rfl fun j hj => by rw [hco j (mem_range.mp hj)]
    have h3 : ∑ j ∈ range 7, (v.get j : ℝ) = ∑ j ∈ range 7, (dT (v.get j) * 2 ^ 64 + 2 ^ 65) :=
      sum_congr rfl fun j _ => cast_trig _
    rw [h1, h2, h3]
    simp only [sum_range_succ, sum_range_zero]
    ring
  have bound : |∑ j ∈ range 7, κ j * dT (v.get j)| ≤ 62 := by
    refine (abs_sum_le_sum_abs _ _).trans ?_
    have : ∀ j ∈ range 7, |κ j * dT (v.get j)| ≤ 7 * (5 / 4) := fun j hj => by
      rw [abs_mul]
      exact mul_le_mul (hκ j (mem_range.mp hj)) (hv j (mem_range.mp hj)) (abs_nonneg _) (by norm_num)
    refine (sum_le_sum this).trans ?_
    simp only [sum_const, card_range]; norm_num
  have hle : Nat.add (Nat.mul B (sum7 co)) (Nat.mul BA (sum7 v)) ≤ Nat.add K1 (dot7 co v) := by
    have : (((Nat.add (Nat.mul B (sum7 co)) (Nat.mul BA (sum7 v)) : ℕ) : ℝ))
        ≤ ((Nat.add K1 (dot7 co v) : ℕ) : ℝ) := by
      simp only [Nat.add_eq, Nat.mul_eq]
      push_cast
      have := (abs_le.mp bound).1
      nlinarith
    exact_mod_cast this
  unfold inner
  simp only [Nat.sub_eq, Nat.add_eq, Nat.mul_eq] at hle ⊢
  rw [Nat.cast_sub hle]
  push_cast
  exact key

/-- row `i` (0-based) of a coefficient matrix -/
def Mat.row (M : Mat) : ℕ → Row
  | 0 => M.r1
  | 1 => M.r2
  | 2 => M.r3
  | 3 => M.r4
  | 4 => M.r5
  | 5 => M.r6
  | _ => M.r7

/-- the biased matrix `M` represents the real coefficients `α`, `β` (of modulus `≤ 1`) -/
structure MatRep (M : Mat) (α β : ℕ → ℕ → ℝ) : Prop where
  al : ∀ i < 7, ∀ j < 7, (((M.row i).al.get j : ℕ) : ℝ) = α i j * 2 ^ 36 + 2 ^ 40
  be : ∀ i < 7, ∀ j < 7, (((M.row i).be.get j : ℕ) : ℝ) = β i j * 2 ^ 36 + 2 ^ 40
  lal : ∀ i < 7, ∀ j < 7, (((M.row i).lal.get j : ℕ) : ℝ) = ((j + 1 : ℕ) : ℝ) * α i j * 2 ^ 36 + 2 ^ 40
  lbe : ∀ i < 7, ∀ j < 7, (((M.row i).lbe.get j : ℕ) : ℝ) = ((j + 1 : ℕ) : ℝ) * β i j * 2 ^ 36 + 2 ^ 40
  ha : ∀ i < 7, ∀ j < 7, |α i j| ≤ 1
  hb : ∀ i < 7, ∀ j < 7, |β i j| ≤ 1

/-- fixed-point sine / cosine values of a `TD` -/
noncomputable def sH (t : TD) (i : ℕ) : ℝ := dT (t.s.get i)
noncomputable def cH (t : TD) (i : ℕ) : ℝ := dT (t.c.get i)

/-- all components have modulus `≤ 5/4` -/
def TDok (t : TD) : Prop := ∀ i < 7, |sH t i| ≤ 5 / 4 ∧ |cH t i| ≤ 5 / 4

theorem yStage_get (M : Mat) (t : TD) (i : ℕ) (hi : i < 7) :
    (yStage M t).P.get i = inner (M.row i).al t.s ∧ (yStage M t).Q.get i = inner (M.row i).be t.c ∧
    (yStage M t).dP.get i = inner (M.row i).lal t.c ∧ (yStage M t).dQ.get i = inner (M.row i).lbe t.s := by
  interval_cases i <;> exact ⟨rfl, rfl, rfl, rfl⟩

theorem abs_weighted_le {j : ℕ} (hj : j < 7) {a : ℝ} (ha : |a| ≤ 1) : |((j + 1 : ℕ) : ℝ) * a| ≤ 7 := by
  rw [abs_mul, abs_of_nonneg (Nat.cast_nonneg _)]
  have : ((j + 1 : ℕ) : ℝ) ≤ 7 := by exact_mod_cast (by omega : j + 1 ≤ 7)
  calc ((j + 1 : ℕ) : ℝ) * |a| ≤ 7 * 1 := mul_le_mul this ha (abs_nonneg _) (by norm_num)
    _ = 7 := by ring

/-- the four inner sums in real terms -/
theorem yStage_spec {M : Mat} {α β : ℕ → ℕ → ℝ} (hM : MatRep M α β) {t : TD} (ht : TDok t) (i : ℕ) (hi : i < 7) :
    (((yStage M t).P.get i : ℕ) : ℝ) = (∑ j ∈ range 7, α i j * sH t j) * 2 ^ 100 + 2 ^ 106 ∧
    (((yStage M t).Q.get i : ℕ) : ℝ) = (∑ j ∈ range 7, β i j * cH t j) * 2 ^ 100 + 2 ^ 106 ∧
    (((yStage M t).dP.get i : ℕ) : ℝ) = (∑ j ∈ range 7, ((j + 1 : ℕ) : ℝ) * α i j * cH t j) * 2 ^ 100 + 2 ^ 106 ∧
    (((yStage M t).dQ.get i : ℕ) : ℝ) = (∑ j ∈ range 7, ((j + 1 : ℕ) : ℝ) * β i j * sH t j) * 2 ^ 100 + 2 ^ 106 := by
  obtain ⟨e1, e2, e3, e4⟩ := yStage_get M t i hi
  rw [e1, e2, e3, e4]
  have one7 : ∀ a : ℝ, |a| ≤ 1 → |a| ≤ 7 := fun a h => h.trans (by norm_num)
  refine ⟨?_, ?_, ?_, ?_⟩
  · exact inner_spec _ _ (fun j => α i j) (hM.al i hi) (fun j hj => one7 _ (hM.ha i hi j hj)) (fun j hj => (ht j hj).1)
  · exact inner_spec _ _ (fun j => β i j) (hM.be i hi) (fun j hj => one7 _ (hM.hb i hi j hj)) (fun j hj => (ht j hj).2)
  · exact inner_spec _ _ (fun j => ((j + 1 : ℕ) : ℝ) * α i j) (hM.lal i hi)
      (fun j hj => abs_weighted_le hj (hM.ha i hi j hj)) (fun j hj => (ht j hj).2)
  · exact inner_spec _ _ (fun j => ((j + 1 : ℕ) : ℝ) * β i j) (hM.lbe i hi)
      (fun j hj => abs_weighted_le hj (hM.hb i hi j hj)) (fun j hj => (ht j hj).1)

theorem cast_sH (t : TD) (i : ℕ) : ((t.s.get i : ℕ) : ℝ) = sH t i * 2 ^ 64 + 2 ^ 65 := cast_trig _
theorem cast_cH (t : TD) (i : ℕ) : ((t.c.get i : ℕ) : ℝ) = cH t i * 2 ^ 64 + 2 ^ 65 := cast_trig _

/-- the coefficient quadruple of `d = Σ α ss + β cc` -/
def coAB (α β : ℕ → ℕ → ℝ) : Co := ⟨α, β, 0, 0⟩

/-- exactness of the value -/
theorem val_spec {M : Mat} {α β : ℕ → ℕ → ℝ} (hM : MatRep M α β) {ty : TD} (hty : TDok ty) (xs : TD) :
    ((valPos (yStage M ty) xs : ℕ) : ℝ) - ((valNeg (yStage M ty) xs : ℕ) : ℝ)
      = 2 ^ 164 * genV (coAB α β) (sH xs) (cH xs) (sH ty) (cH ty) := by
  unfold valPos valNeg
  simp only [Nat.add_eq, Nat.mul_eq]
  push_cast
  rw [dot7_cast, dot7_cast, sum7_cast, sum7_cast, sum7_cast, sum7_cast, C14_cast, B_cast, BI_cast]
  have w1 := wdot (fun _ => 1) (fun m => (((yStage M ty).P.get m : ℕ) : ℝ)) (fun m => ((xs.s.get m : ℕ) : ℝ))
    (2 ^ 106) (2 ^ 65) 7
  have w2 := wdot (fun _ => 1) (fun m => (((yStage M ty).Q.get m : ℕ) : ℝ)) (fun m => ((xs.c.get m : ℕ) : ℝ))
    (2 ^ 106) (2 ^ 65) 7
  simp only [one_mul, sum_const, card_range, nsmul_eq_mul, mul_one] at w1 w2
  rw [w1, w2]
  have r1 : ∑ m ∈ range 7, ((((yStage M ty).P.get m : ℕ) : ℝ) - 2 ^ 106) * (((xs.s.get m : ℕ) : ℝ) - 2 ^ 65)
      = 2 ^ 164 * ∑ m ∈ range 7, (sH xs m * ∑ j ∈ range 7, α m j * sH ty j) := by
    rw [mul_sum]
    exact sum_congr rfl fun m hm => by
      rw [(yStage_spec hM hty m (mem_range.mp hm)).1, cast_sH]; ring
  have r2 : ∑ m ∈ range 7, ((((yStage M ty).Q.get m : ℕ) : ℝ) - 2 ^ 106) * (((xs.c.get m : ℕ) : ℝ) - 2 ^ 65)
      = 2 ^ 164 * ∑ m ∈ range 7, (cH xs m * ∑ j ∈ range 7, β m j * cH ty j) := by
    rw [mul_sum]
    exact sum_congr rfl fun m hm => by
      rw [(yStage_spec hM hty m (mem_range.mp hm)).2.1, cast_cH]; ring
  rw [r1, r2]
  have g : genV (coAB α β) (sH xs) (cH xs) (sH ty) (cH ty)
      = ∑ m ∈ range 7, (sH xs m * ∑ j ∈ range 7, α m j * sH ty j)
        + ∑ m ∈ range 7, (cH xs m * ∑ j ∈ range 7, β m j * cH ty j) := by
    unfold genV coAB
    rw [← sum_add_distrib]
    apply sum_congr rfl; intro m _
    rw [mul_sum, mul_sum, ← sum_add_distrib]
    apply sum_congr rfl; intro j _
    simp only [Pi.zero_apply]; ring
  rw [g]
  push_cast
  ring

theorem dot7_mw7_cast (p q : V7) :
    ((dot7 (mw7 p) q : ℕ) : ℝ) = ∑ m ∈ range 7, ((m + 1 : ℕ) : ℝ) * (p.get m : ℝ) * (q.get m : ℝ) := by
  rw [dot7_cast]
  exact sum_congr rfl fun m hm => by rw [mw7_get p m (mem_range.mp hm)]; push_cast; ring

theorem sum7_mw7_cast (p : V7) :
    ((sum7 (mw7 p) : ℕ) : ℝ) = ∑ m ∈ range 7, ((m + 1 : ℕ) : ℝ) * (p.get m : ℝ) := by
  rw [sum7_cast]
  exact sum_congr rfl fun m hm => by rw [mw7_get p m (mem_range.mp hm)]; push_cast; ring

/-- exactness of `∂x d / π` -/
theorem gx_spec {M : Mat} {α β : ℕ → ℕ → ℝ} (hM : MatRep M α β) {ty : TD} (hty : TDok ty) (xs : TD) :
    ((gxPos (yStage M ty) xs : ℕ) : ℝ) - ((gxNeg (yStage M ty) xs : ℕ) : ℝ)
      = 2 ^ 164 * genV (dxOp (coAB α β)) (sH xs) (cH xs) (sH ty) (cH ty) := by
  unfold gxPos gxNeg
  simp only [Nat.add_eq, Nat.mul_eq]
  push_cast
  rw [dot7_mw7_cast, dot7_mw7_cast, sum7_mw7_cast, sum7_mw7_cast, sum7_mw7_cast, sum7_mw7_cast, B_cast, BI_cast]
  have w1 := wdot (fun m => ((m + 1 : ℕ) : ℝ)) (fun m => (((yStage M ty).P.get m : ℕ) : ℝ))
    (fun m => ((xs.c.get m : ℕ) : ℝ)) (2 ^ 106) (2 ^ 65) 7
  have w2 := wdot (fun m => ((m + 1 : ℕ) : ℝ)) (fun m => (((yStage M ty).Q.get m : ℕ) : ℝ))
    (fun m => ((xs.s.get m : ℕ) : ℝ)) (2 ^ 106) (2 ^ 65) 7
  rw [w1, w2]
  have r1 : ∑ m ∈ range 7, ((m + 1 : ℕ) : ℝ) * ((((yStage M ty).P.get m : ℕ) : ℝ) - 2 ^ 106)
        * (((xs.c.get m : ℕ) : ℝ) - 2 ^ 65)
      = 2 ^ 164 * ∑ m ∈ range 7, (((m + 1 : ℕ) : ℝ) * cH xs m * ∑ j ∈ range 7, α m j * sH ty j) := by
    rw [mul_sum]
    exact sum_congr rfl fun m hm => by
      rw [(yStage_spec hM hty m (mem_range.mp hm)).1, cast_cH]; ring
  have r2 : ∑ m ∈ range 7, ((m + 1 : ℕ) : ℝ) * ((((yStage M ty).Q.get m : ℕ) : ℝ) - 2 ^ 106)
        * (((xs.s.get m : ℕ) : ℝ) - 2 ^ 65)
      = 2 ^ 164 * ∑ m ∈ range 7, (((m + 1 : ℕ) : ℝ) * sH xs m * ∑ j ∈ range 7, β m j * cH ty j) := by
    rw [mul_sum]
    exact sum_congr rfl fun m hm => by
      rw [(yStage_spec hM hty m (mem_range.mp hm)).2.1, cast_sH]; ring
  rw [r1, r2]
  have g : genV (dxOp (coAB α β)) (sH xs) (cH xs) (sH ty) (cH ty)
      = ∑ m ∈ range 7, (((m + 1 : ℕ) : ℝ) * cH xs m * ∑ j ∈ range 7, α m j * sH ty j)
        - ∑ m ∈ range 7, (((m + 1 : ℕ) : ℝ) * sH xs m * ∑ j ∈ range 7, β m j * cH ty j) := by
    unfold genV coAB dxOp
    rw [← sum_sub_distrib]
    apply sum_congr rfl; intro m _
    rw [mul_sum, mul_sum, ← sum_sub_distrib]
    apply sum_congr rfl; intro j _
    simp only [Pi.zero_apply]; ring
  rw [g]
  ring

/-- exactness of `∂y d / π` -/
theorem gy_spec {M : Mat} {α β : ℕ → ℕ → ℝ} (hM : MatRep M α β) {ty : TD} (hty : TDok ty) (xs : TD) :
    ((gyPos (yStage M ty) xs : ℕ) : ℝ) - ((gyNeg (yStage M ty) xs : ℕ) : ℝ)
      = 2 ^ 164 * genV (dyOp (coAB α β)) (sH xs) (cH xs) (sH ty) (cH ty) := by
  unfold gyPos gyNeg
  simp only [Nat.add_eq, Nat.mul_eq]
  push_cast
  rw [dot7_cast, dot7_cast, sum7_cast, sum7_cast, sum7_cast, sum7_cast, B_cast, BI_cast]
  have w1 := wdot (fun _ => 1) (fun m => (((yStage M ty).dP.get m : ℕ) : ℝ)) (fun m => ((xs.s.get m : ℕ) : ℝ))
    (2 ^ 106) (2 ^ 65) 7
  have w2 := wdot (fun _ => 1) (fun m => (((yStage M ty).dQ.get m : ℕ) : ℝ)) (fun m => ((xs.c.get m : ℕ) : ℝ))
    (2 ^ 106) (2 ^ 65) 7
  simp only [one_mul, sum_const, card_range, nsmul_eq_mul, mul_one] at w1 w2
  rw [w1, w2]
  have r1 : ∑ m ∈ range 7, ((((yStage M ty).dP.get m : ℕ) : ℝ) - 2 ^ 106) * (((xs.s.get m : ℕ) : ℝ) - 2 ^ 65)
      = 2 ^ 164 * ∑ m ∈ range 7, (sH xs m * ∑ j ∈ range 7, ((j + 1 : ℕ) : ℝ) * α m j * cH ty j) := by
    rw [mul_sum]
    exact sum_congr rfl fun m hm => by
      rw [(yStage_spec hM hty m (mem_range.mp hm)).2.2.1, cast_sH]; ring
  have r2 : ∑ m ∈ range 7, ((((yStage M ty).dQ.get m : ℕ) : ℝ) - 2 ^ 106) * (((xs.c.get m : ℕ) : ℝ) - 2 ^ 65)
      = 2 ^ 164 * ∑ m ∈ range 7, (cH xs m * ∑ j ∈ range 7, ((j + 1 : ℕ) : ℝ) * β m j * sH ty j) := by
    rw [mul_sum]
    exact sum_congr rfl fun m hm => by
      rw [(yStage_spec hM hty m (mem_range.mp hm)).2.2.2, cast_cH]; ring
  rw [r1, r2]
  have g : genV (dyOp (coAB α β)) (sH xs) (cH xs) (sH ty) (cH ty)
      = ∑ m ∈ range 7, (sH xs m * ∑ j ∈ range 7, ((j + 1 : ℕ) : ℝ) * α m j * cH ty j)
        - ∑ m ∈ range 7, (cH xs m * ∑ j ∈ range 7, ((j + 1 : ℕ) : ℝ) * β m j * sH ty j) := by
    unfold genV coAB dyOp
    rw [← sum_sub_distrib]
    apply sum_congr rfl; intro m _
    rw [mul_sum, mul_sum, ← sum_sub_distrib]
    apply sum_congr rfl; intro j _
    simp only [Pi.zero_apply]; ring
  rw [g]
  ring

end Grish
