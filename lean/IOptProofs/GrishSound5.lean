import IOptProofs.GrishSound4
/-!
# Grishagin checker, soundness part 5: the bisection and the complete row check
-/

namespace Grish
open Encl Finset

/-- soundness of `inside`: the whole interval lies within `1/R` of `p` -/
theorem inside_sound {pN pK R k n : ℕ} (hR : 0 < R) (h : inside pN pK R k n = true) {x : ℝ}
    (h1 : (n : ℝ) / 2 ^ k ≤ x) (h2 : x ≤ ((n : ℝ) + 1) / 2 ^ k) :
    |x - (pN : ℝ) / 2 ^ pK| ≤ 1 / R := by
  unfold inside at h
  simp only [Bool.and_eq_true, Nat.ble_eq] at h
  obtain ⟨a, b⟩ := h
  have a' : (((Nat.shiftLeft (Nat.mul R pN) k : ℕ)) : ℝ)
      ≤ ((Nat.add (Nat.shiftLeft (Nat.mul R n) pK) (Nat.shiftLeft 1 (Nat.add k pK)) : ℕ) : ℝ) := by exact_mod_cast a
  have b' : (((Nat.shiftLeft (Nat.mul R (Nat.add n 1)) pK : ℕ)) : ℝ)
      ≤ ((Nat.add (Nat.shiftLeft (Nat.mul R pN) k) (Nat.shiftLeft 1 (Nat.add k pK)) : ℕ) : ℝ) := by exact_mod_cast b
  simp only [Nat.add_eq, Nat.mul_eq] at a' b'
  push_cast [shl_cast] at a' b'
  have hk : (0 : ℝ) < 2 ^ k := by positivity
  have hp : (0 : ℝ) < 2 ^ pK := by positivity
  have hR' : (0 : ℝ) < R := by exact_mod_cast hR
  rw [pow_add] at a' b'
  rw [div_le_iff₀ hk] at h1
  rw [le_div_iff₀ hk] at h2
  have e : x - (pN : ℝ) / 2 ^ pK = (x * 2 ^ pK - pN) / 2 ^ pK := by field_simp
  rw [e, abs_div, abs_of_pos hp, div_le_div_iff₀ hp hR', one_mul]
  have m1 : (R : ℝ) * n * 2 ^ pK ≤ R * (x * 2 ^ k) * 2 ^ pK :=
    mul_le_mul_of_nonneg_right (mul_le_mul_of_nonneg_left h1 hR'.le) hp.le
  have m2 : (R : ℝ) * (x * 2 ^ k) * 2 ^ pK ≤ R * (n + 1) * 2 ^ pK :=
    mul_le_mul_of_nonneg_right (mul_le_mul_of_nonneg_left h2 hR'.le) hp.le
  have lo : (R : ℝ) * pN ≤ R * x * 2 ^ pK + 2 ^ pK := by
    have : ((R : ℝ) * pN) * 2 ^ k ≤ (R * x * 2 ^ pK + 2 ^ pK) * 2 ^ k := by linarith
    exact le_of_mul_le_mul_right this hk
  have hi : (R : ℝ) * x * 2 ^ pK ≤ R * pN + 2 ^ pK := by
    have : ((R : ℝ) * x * 2 ^ pK) * 2 ^ k ≤ (R * pN + 2 ^ pK) * 2 ^ k := by linarith
    exact le_of_mul_le_mul_right this hk
  have : |(x * 2 ^ pK - pN) * (R : ℝ)| ≤ 2 ^ pK := by
    rw [abs_le]; constructor <;> linarith
  rwa [abs_mul, abs_of_pos hR'] at this

/-- the property certified on every leaf: `S < S(w)` (lower bound `swlo`), or the point is within `1/200`
of the declared point in both coordinates and `S ≤ gthr` -/
def Good (ctx : Ctx) (α1 β1 α2 β2 : ℕ → ℕ → ℝ) (x y : ℝ) : Prop :=
  SS α1 β1 α2 β2 x y * 2 ^ 328 < (ctx.swlo : ℝ) ∨
  (SS α1 β1 α2 β2 x y * 2 ^ 328 ≤ (ctx.gthr : ℝ) ∧
    |x - (ctx.pxN : ℝ) / 2 ^ ctx.pxK| ≤ 1 / 200 ∧ |y - (ctx.pyN : ℝ) / 2 ^ ctx.pyK| ≤ 1 / 200)

/-- the dyadic square of level `lev` and index `(nx, ny)` -/
def InSq (lev nx ny : ℕ) (x y : ℝ) : Prop :=
  (nx : ℝ) / 2 ^ lev ≤ x ∧ x ≤ ((nx : ℝ) + 1) / 2 ^ lev ∧ (ny : ℝ) / 2 ^ lev ≤ y ∧ y ≤ ((ny : ℝ) + 1) / 2 ^ lev

theorem leafOK_sound {ctx : Ctx} {α1 β1 α2 β2 : ℕ → ℕ → ℝ} (hc : CtxRep ctx α1 β1 α2 β2)
    {lev nx ny : ℕ} (hnx : nx < 2 ^ lev) (hny : ny < 2 ^ lev) (h : leafOK ctx lev nx ny = true)
    {x y : ℝ} (hsq : InSq lev nx ny x y) : Good ctx α1 β1 α2 β2 x y := by
  obtain ⟨hx1, hx2, hy1, hy2⟩ := hsq
  have ls := leafSup_sound hc hnx hny hx1 hx2 hy1 hy2
  have esh : Nat.add (Nat.mul 4 lev) 84 = 4 * (Nat.add lev 1) + 80 := by
    show 4 * lev + 84 = 4 * (lev + 1) + 80
    ring
  unfold leafOK at h
  simp only [Bool.or_eq_true, Bool.and_eq_true, Nat.blt_eq, Nat.ble_eq] at h
  rw [esh] at h
  have hpos : (0 : ℝ) < 2 ^ (4 * (Nat.add lev 1) + 80) := by positivity
  rcases h with h | ⟨h, hix, hiy⟩
  · left
    have h' : ((leafSup ctx lev nx ny : ℕ) : ℝ)
        < ((Nat.shiftLeft ctx.swlo (4 * (Nat.add lev 1) + 80) : ℕ) : ℝ) := by exact_mod_cast h
    rw [shl_cast] at h'
    have : SS α1 β1 α2 β2 x y * 2 ^ 328 * 2 ^ (4 * (Nat.add lev 1) + 80)
        < (ctx.swlo : ℝ) * 2 ^ (4 * (Nat.add lev 1) + 80) := by
      calc SS α1 β1 α2 β2 x y * 2 ^ 328 * 2 ^ (4 * (Nat.add lev 1) + 80)
          = SS α1 β1 α2 β2 x y * (2 ^ 328 * 2 ^ (4 * (Nat.add lev 1) + 80)) := mul_assoc _ _ _
        _ ≤ _ := ls
        _ < _ := h'
    exact lt_of_mul_lt_mul_right this hpos.le
  · right
    have h' : ((leafSup ctx lev nx ny : ℕ) : ℝ)
        ≤ ((Nat.shiftLeft ctx.gthr (4 * (Nat.add lev 1) + 80) : ℕ) : ℝ) := by exact_mod_cast h
    rw [shl_cast] at h'
    have : SS α1 β1 α2 β2 x y * 2 ^ 328 * 2 ^ (4 * (Nat.add lev 1) + 80)
        ≤ (ctx.gthr : ℝ) * 2 ^ (4 * (Nat.add lev 1) + 80) := by
      calc SS α1 β1 α2 β2 x y * 2 ^ 328 * 2 ^ (4 * (Nat.add lev 1) + 80)
          = SS α1 β1 α2 β2 x y * (2 ^ 328 * 2 ^ (4 * (Nat.add lev 1) + 80)) := mul_assoc _ _ _
        _ ≤ _ := ls
        _ ≤ _ := h'
    refine ⟨le_of_mul_le_mul_right this hpos, ?_, ?_⟩
    · have := inside_sound (by norm_num : 0 < 200) hix hx1 hx2
      simpa using this
    · have := inside_sound (by norm_num : 0 < 200) hiy hy1 hy2
      simpa using this

/-- **soundness of the bisection** -/
theorem bnb_sound {ctx : Ctx} {α1 β1 α2 β2 : ℕ → ℕ → ℝ} (hc : CtxRep ctx α1 β1 α2 β2) :
    ∀ (fuel lev nx ny : ℕ), nx < 2 ^ lev → ny < 2 ^ lev → bnb ctx fuel lev nx ny = true →
      ∀ x y, InSq lev nx ny x y → Good ctx α1 β1 α2 β2 x y := by
  intro fuel
  induction fuel with
  | zero => intro lev nx ny _ _ h; simp [bnb] at h
  | succ fuel ih =>
    intro lev nx ny hnx hny h x y hsq
    unfold bnb at h
    simp only [Bool.or_eq_true, Bool.and_eq_true] at h
    rcases h with ⟨_, h⟩ | ⟨⟨⟨h00, h01⟩, h10⟩, h11⟩
    · exact leafOK_sound hc hnx hny h hsq
    · obtain ⟨hx1, hx2, hy1, hy2⟩ := hsq
      have hp : (0 : ℝ) < 2 ^ lev := by positivity
      have e : (2 : ℝ) ^ (Nat.add lev 1) = 2 ^ lev * 2 := by
        show (2 : ℝ) ^ (lev + 1) = _
        rw [pow_succ]
      have c0 : ∀ n : ℕ, ((Nat.mul 2 n : ℕ) : ℝ) = 2 * n := fun n => by
        show ((2 * n : ℕ) : ℝ) = _
        push_cast; ring
      have c1 : ∀ n : ℕ, ((Nat.add (Nat.mul 2 n) 1 : ℕ) : ℝ) = 2 * n + 1 := fun n => by
        show ((2 * n + 1 : ℕ) : ℝ) = _
        push_cast; ring
      have l0 : ∀ n : ℕ, n < 2 ^ lev → Nat.mul 2 n < 2 ^ (Nat.add lev 1) := fun n hn => by
        show 2 * n < 2 ^ (lev + 1)
        rw [pow_succ]; omega
      have l1 : ∀ n : ℕ, n < 2 ^ lev → Nat.add (Nat.mul 2 n) 1 < 2 ^ (Nat.add lev 1) := fun n hn => by
        show 2 * n + 1 < 2 ^ (lev + 1)
        rw [pow_succ]; omega
      -- lower / upper half in each coordinate
      have lowhalf : ∀ (n : ℕ) (t : ℝ), (n : ℝ) / 2 ^ lev ≤ t → t ≤ (2 * (n : ℝ) + 1) / (2 ^ lev * 2) →
          ((Nat.mul 2 n : ℕ) : ℝ) / 2 ^ (Nat.add lev 1) ≤ t ∧ t ≤ (((Nat.mul 2 n : ℕ) : ℝ) + 1) / 2 ^ (Nat.add lev 1) := by
        intro n t a b
        rw [e, c0]
        refine ⟨?_, b⟩
        have : 2 * (n : ℝ) / (2 ^ lev * 2) = (n : ℝ) / 2 ^ lev := by field_simp
        rw [this]; exact a
      have highhalf : ∀ (n : ℕ) (t : ℝ), (2 * (n : ℝ) + 1) / (2 ^ lev * 2) ≤ t → t ≤ ((n : ℝ) + 1) / 2 ^ lev →
          ((Nat.add (Nat.mul 2 n) 1 : ℕ) : ℝ) / 2 ^ (Nat.add lev 1) ≤ t ∧
            t ≤ (((Nat.add (Nat.mul 2 n) 1 : ℕ) : ℝ) + 1) / 2 ^ (Nat.add lev 1) := by
        intro n t a b
        rw [e, c1]
        refine ⟨a, ?_⟩
        have : (2 * (n : ℝ) + 1 + 1) / (2 ^ lev * 2) = ((n : ℝ) + 1) / 2 ^ lev := by field_simp; ring
        rw [this]; exact b
      rcases le_total x ((2 * (nx : ℝ) + 1) / (2 ^ lev * 2)) with hx | hx
      · obtain ⟨ax, bx⟩ := lowhalf nx x hx1 hx
        rcases le_total y ((2 * (ny : ℝ) + 1) / (2 ^ lev * 2)) with hy | hy
        · obtain ⟨ay, by'⟩ := lowhalf ny y hy1 hy
          exact ih _ _ _ (l0 nx hnx) (l0 ny hny) h00 x y ⟨ax, bx, ay, by'⟩
        · obtain ⟨ay, by'⟩ := highhalf ny y hy hy2
          exact ih _ _ _ (l0 nx hnx) (l1 ny hny) h01 x y ⟨ax, bx, ay, by'⟩
      · obtain ⟨ax, bx⟩ := highhalf nx x hx hx2
        rcases le_total y ((2 * (ny : ℝ) + 1) / (2 ^ lev * 2)) with hy | hy
        · obtain ⟨ay, by'⟩ := lowhalf ny y hy1 hy
          exact ih _ _ _ (l1 nx hnx) (l0 ny hny) h10 x y ⟨ax, bx, ay, by'⟩
        · obtain ⟨ay, by'⟩ := highhalf ny y hy hy2
          exact ih _ _ _ (l1 nx hnx) (l1 ny hny) h11 x y ⟨ax, bx, ay, by'⟩

end Grish
