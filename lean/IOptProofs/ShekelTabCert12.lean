import IOptProofs.ShekelTabDefs
/-! kernel-evaluated C18 table certificates (min / max / Lipschitz tables) of the Shekel functions 240..259
(one block per file, identical template; four kernel evaluations of 5 rows each keep the memory near 1 GB) -/
namespace Shk
set_option maxRecDepth 100000 in
theorem shekel_tab_block_12_a : ∀ i ∈ List.range' 240 5, shekelTabOK i = true := by decide +kernel
set_option maxRecDepth 100000 in
theorem shekel_tab_block_12_b : ∀ i ∈ List.range' 245 5, shekelTabOK i = true := by decide +kernel
set_option maxRecDepth 100000 in
theorem shekel_tab_block_12_c : ∀ i ∈ List.range' 250 5, shekelTabOK i = true := by decide +kernel
set_option maxRecDepth 100000 in
theorem shekel_tab_block_12_d : ∀ i ∈ List.range' 255 5, shekelTabOK i = true := by decide +kernel
theorem shekel_tab_block_12 : ∀ i ∈ List.range' 240 20, shekelTabOK i = true := by
  intro i hi
  have hi' := List.mem_range'_1.1 hi
  if h1 : i < 245 then exact shekel_tab_block_12_a i (List.mem_range'_1.2 ⟨by omega, by omega⟩) else
  if h2 : i < 250 then exact shekel_tab_block_12_b i (List.mem_range'_1.2 ⟨by omega, by omega⟩) else
  if h3 : i < 255 then exact shekel_tab_block_12_c i (List.mem_range'_1.2 ⟨by omega, by omega⟩) else
  exact shekel_tab_block_12_d i (List.mem_range'_1.2 ⟨by omega, by omega⟩)
end Shk
