import IOptModel.SearchData
import IOptGen.SearchDataCtlSrc
/-!
# A semantics for the statement trees of `IOptGen/SearchDataCtlSrc.lean` over the model state `SD.State`

`IOptGen/SearchDataCtlSrc.lean` is regenerated from the SOURCE TEXT of `iOpt/method/search_data.py` on every run and holds the
body of every method of `CharacteristicsQueue`, `SearchData`, `SearchDataDualQueue` as a statement tree (`Gen.ProcSrc.Stmt`).
This file gives such trees a meaning by structural recursion over the tree, GENERIC in the tree: the interpreter never looks at
which method it is executing.  Source strings are opaque keys of small tables (`exprTable`, `calleeTable`, `lvalTable`,
`excTable`, `otherTable`, and the method tables `cqMethods`, `baseMethods`, `dualMethods`, which point at the GENERATED trees);
whatever is not in a table makes the result `stuck`.  `IOptProofs/SDInterp.lean` proves that the interpretation of the generated
trees IS `SD.insert`, `SD.find`, `SD.refill`, `SD.popMaxGlobal`, `SD.popCurrent`, ….

## The object graph
* Three objects (`Obj`): the container (`sd`), its `_RGlobalQueue` (`gq`) and its `__RLocalQueue` (`lq`); the class of the
  container is `SearchDataDualQueue` iff `s.dual`.  Methods are resolved by Python's rule (own class, then base class) in tables
  built from the generated trees (`resolve`).  Name-mangled private attributes (`__baseQueue`, `__firstDataItem`,
  `__RLocalQueue`) are only visible in the text of the class that owns them (`Frame.cls`).
* Item objects live in the heap `s.trials`; a reference is an index (`Val.ref`), Python's `None` is `Val.none`.
  `_allTrials` is the list of the first `nall` heap objects: `self._allTrials.append(x)` is defined only when `x` is the next
  heap object (allocation order = insertion order, as in `Method`); with `nall = s.trials.size` the heap IS the model state.
  A caller that has created fresh items and not yet inserted them is a heap with `nall < s.trials.size`.
  Dereferencing an index outside the heap (impossible in Python) is `stuck`; calling a method on `None` raises `AttributeError`.
* `depq.DEPQ` is third party: `insert(item, key)`, `popfirst()`, `clear()`, `is_empty()`, `len`, `maxlen` are primitives given by
  the recorded contract (`SD.qinsert`, head removal (`IndexError` when empty), `[]`, …); the constructor `DEPQ(…)` gives an empty
  queue with the given `maxlen` (the model has ONE `maxlen` for both queues: assigning a new DEPQ sets it).
* `for v in coll` follows the iterator protocol through the generated trees of `__iter__` / `__next__`: the result of
  `coll.__iter__()` is asked for `__next__()` until that raises `StopIteration`; an exception of `__iter__` itself propagates
  (as in CPython).  The number of items visited is bounded by `Ctx.ifuel`; when it is reached the loop ENDS (the cut of
  `SD.walk`).  `while` is bounded by `Ctx.wfuel` body executions; needing more is reported as `outOfFuel`.

No Mathlib, no proofs: everything here is executable.
-/

namespace SDInterp
open SD Gen.ProcSrc

/-- the Python exceptions of the fragment -/
inductive Exc where
  | attributeError | indexError | stopIteration
deriving Repr, DecidableEq

/-- the model's errors as Python exceptions -/
def Exc.ofErr : Err → Exc
  | .attributeError => .attributeError
  | .indexError => .indexError

/-- the three objects -/
inductive Obj where
  | sd | gq | lq
deriving Repr, DecidableEq

/-- the class whose method text is being executed -/
inductive Cls where
  | cq | base | dual
deriving Repr, DecidableEq

/-- Python values of the fragment -/
inductive Val (χ κ : Type) where
  | none
  | bool (b : Bool)
  /-- a `SearchDataItem` (heap index) -/
  | ref (i : Nat)
  /-- a characteristic -/
  | key (k : κ)
  /-- a coordinate -/
  | coord (x : χ)
  | obj (o : Obj)
  /-- the tuple `(item, key)` that `DEPQ.popfirst` returns -/
  | pair (i : Nat) (k : κ)
  | nat (n : Nat)
  /-- a string literal (argument of `print`) -/
  | str
  /-- a freshly constructed, empty `DEPQ` with the given `maxlen` -/
  | depq (maxlen : Option Nat)
deriving Repr, DecidableEq

/-- `None` or an item -/
def Val.ofOpt {χ κ : Type} : Option Nat → Val χ κ
  | some i => .ref i
  | Option.none => .none

/-- an item reference or `None` (anything else: not a link value) -/
def Val.toOpt {χ κ : Type} : Val χ κ → Option (Option Nat)
  | .ref i => some (some i)
  | .none => some Option.none
  | _ => Option.none

/-- the object graph -/
structure Heap (χ κ : Type) where
  /-- `trials` = all item objects; queues, `first`, `maxlen`, `dual` as in the model -/
  s : State χ κ
  /-- `len(self._allTrials)`; `_allTrials` = the first `nall` heap objects -/
  nall : Nat
  /-- `self.curIter` -/
  cur : Option Nat := Option.none

abbrev Locals (χ κ : Type) := List (String × Val χ κ)

structure IState (χ κ : Type) where
  g : Heap χ κ
  l : Locals χ κ

/-- the activation: class that owns the text, and `self` -/
structure Frame where
  cls : Cls
  self : Obj

/-- comparison functions of the model and loop bounds -/
structure Ctx (χ κ : Type) where
  /-- `lt a b` : `a < b` on coordinates -/
  lt : χ → χ → Bool
  /-- `le a b` : `a ≤ b` on keys (DEPQ's comparison) -/
  le : κ → κ → Bool
  /-- `ne a b` : `a != b` on keys -/
  ne : κ → κ → Bool
  /-- bound on the number of items one `for … in self` visits (then the loop ends, as `SD.walk`) -/
  ifuel : Nat
  /-- bound on the number of body executions of one `while` -/
  wfuel : Nat

/-- outcome of a method call -/
inductive MOut (χ κ : Type) where
  | done (g : Heap χ κ) (v : Val χ κ)
  | raised (g : Heap χ κ) (e : Exc)
  | stuck
  | outOfFuel

/-- outcome of an expression -/
inductive EOut (χ κ : Type) where
  | val (v : Val χ κ) (g : Heap χ κ)
  | raised (g : Heap χ κ) (e : Exc)
  | stuck
  | outOfFuel

/-- outcome of an argument list -/
inductive AOut (χ κ : Type) where
  | vals (vs : List (Val χ κ)) (g : Heap χ κ)
  | raised (g : Heap χ κ) (e : Exc)
  | stuck
  | outOfFuel

/-- outcome of a statement (list) -/
inductive Out (χ κ : Type) where
  | normal (st : IState χ κ)
  | returned (st : IState χ κ) (v : Val χ κ)
  | raised (st : IState χ κ) (e : Exc)
  | stuck
  | outOfFuel

def MOut.toEOut {χ κ : Type} : MOut χ κ → EOut χ κ
  | .done g v => .val v g
  | .raised g e => .raised g e
  | .stuck => .stuck
  | .outOfFuel => .outOfFuel

/-- what calling method `m` of object `o` with argument values does -/
abbrev MEnv (χ κ : Type) := Obj → String → List (Val χ κ) → Heap χ κ → MOut χ κ

/-! ### tables: source strings ↦ meaning -/

/-- attribute reads of a `SearchDataItem` -/
inductive Acc where
  | getX | getLeft | getRight | globalR | localR
deriving Repr, DecidableEq

inductive Expr where
  | var (x : String)
  | litNone | litTrue | litFalse | litStr
  | self
  /-- `self.__firstDataItem` (text of `SearchData` only) -/
  | fFirst
  /-- `self.curIter` -/
  | fCur
  /-- `self._RGlobalQueue` -/
  | fGq
  /-- `self.__RLocalQueue` (text of `SearchDataDualQueue` only) -/
  | fLq
  | acc (a : Acc) (e : Expr)
  | isNone (e : Expr)
  /-- `a > b` on coordinates -/
  | gt (a b : Expr)
  /-- `a != b` on keys -/
  | ne (a b : Expr)
  /-- `e[0]`, `e[1]` of a popped tuple -/
  | idx0 (e : Expr)
  | idx1 (e : Expr)
  /-- `recv.m()` through the method tables -/
  | call0 (recv : Expr) (m : String)
  /-- DEPQ primitives on `self.__baseQueue` (text of `CharacteristicsQueue` only) -/
  | qPopfirst | qIsEmpty | qMaxlen | qLen
  /-- `len(self._allTrials)`, `self._allTrials[-1]` -/
  | lenAll | lastAll
deriving Repr

/-- every expression string the semantics understands -/
def exprTable : List (String × Expr) := [
  ("key", .var "key"), ("dataItem", .var "dataItem"), ("newDataItem", .var "newDataItem"),
  ("rightDataItem", .var "rightDataItem"), ("leftDataItem", .var "leftDataItem"), ("x", .var "x"),
  ("item", .var "item"), ("itr", .var "itr"), ("flag", .var "flag"), ("tmp", .var "tmp"),
  ("None", .litNone), ("True", .litTrue), ("False", .litFalse),
  ("'GetLastItem: List is empty'", .litStr),
  ("self", .self),
  ("self.__firstDataItem", .fFirst), ("self.curIter", .fCur),
  ("newDataItem.GetX()", .acc .getX (.var "newDataItem")),
  ("rightDataItem.GetLeft()", .acc .getLeft (.var "rightDataItem")),
  ("newDataItem.globalR", .acc .globalR (.var "newDataItem")),
  ("newDataItem.localR", .acc .localR (.var "newDataItem")),
  ("rightDataItem.globalR", .acc .globalR (.var "rightDataItem")),
  ("rightDataItem.localR", .acc .localR (.var "rightDataItem")),
  ("itr.globalR", .acc .globalR (.var "itr")),
  ("itr.localR", .acc .localR (.var "itr")),
  ("rightDataItem is None", .isNone (.var "rightDataItem")),
  ("self.curIter is None", .isNone .fCur),
  ("item.GetX() > x", .gt (.acc .getX (.var "item")) (.var "x")),
  ("self._RGlobalQueue.IsEmpty()", .call0 .fGq "IsEmpty"),
  ("self.__RLocalQueue.IsEmpty()", .call0 .fLq "IsEmpty"),
  ("self._RGlobalQueue.GetBestItem()[0]", .idx0 (.call0 .fGq "GetBestItem")),
  ("bestItem[0]", .idx0 (.var "bestItem")),
  ("bestItem[1] != bestItem[0].globalR", .ne (.idx1 (.var "bestItem")) (.acc .globalR (.idx0 (.var "bestItem")))),
  ("bestItem[1] != bestItem[0].localR", .ne (.idx1 (.var "bestItem")) (.acc .localR (.idx0 (.var "bestItem")))),
  ("self.__baseQueue.popfirst()", .qPopfirst),
  ("self.__baseQueue.is_empty()", .qIsEmpty),
  ("self.__baseQueue.maxlen", .qMaxlen),
  ("len(self.__baseQueue)", .qLen),
  ("len(self._allTrials)", .lenAll),
  ("self._allTrials[-1]", .lastAll)]

inductive Callee where
  /-- `recv.m(args)` through the method tables -/
  | method (recv : Expr) (m : String)
  /-- `recv.SetLeft(arg)`, `recv.SetRight(arg)` of `SearchDataItem` -/
  | setLeft (recv : Expr)
  | setRight (recv : Expr)
  /-- a call without arguments that is an expression of the fragment -/
  | pure (e : Expr)
  /-- `self._allTrials.append(arg)` -/
  | append
  /-- `self.__baseQueue.insert(item, key)`, `self.__baseQueue.clear()` -/
  | qInsert | qClear
  /-- the constructor `DEPQ()` / `DEPQ(iterable=None, maxlen=maxlen)` -/
  | depqNew
  | print
deriving Repr

/-- every callee string the semantics understands -/
def calleeTable : List (String × Callee) := [
  ("self.__baseQueue.clear", .qClear),
  ("self.__baseQueue.insert", .qInsert),
  ("self._RGlobalQueue.Clear", .method .fGq "Clear"),
  ("self._RGlobalQueue.Insert", .method .fGq "Insert"),
  ("self._RGlobalQueue.GetBestItem", .method .fGq "GetBestItem"),
  ("self.__RLocalQueue.Clear", .method .fLq "Clear"),
  ("self.__RLocalQueue.Insert", .method .fLq "Insert"),
  ("self.__RLocalQueue.GetBestItem", .method .fLq "GetBestItem"),
  ("self.FindDataItemByOneDimensionalPoint", .method .self "FindDataItemByOneDimensionalPoint"),
  ("self.RefillQueue", .method .self "RefillQueue"),
  ("self.ClearQueue", .method .self "ClearQueue"),
  ("newDataItem.SetLeft", .setLeft (.var "newDataItem")),
  ("rightDataItem.SetLeft", .setLeft (.var "rightDataItem")),
  ("newDataItem.SetRight", .setRight (.var "newDataItem")),
  ("leftDataItem.SetRight", .setRight (.var "leftDataItem")),
  ("newDataItem.GetLeft().SetRight", .setRight (.acc .getLeft (.var "newDataItem"))),
  ("self._allTrials.append", .append),
  ("self.curIter.GetRight", .pure (.acc .getRight .fCur)),
  ("DEPQ", .depqNew),
  ("print", .print)]

/-- assignable places -/
inductive LVal where
  | loc (x : String)
  | cur
  | first
  /-- `self.__baseQueue` (text of `CharacteristicsQueue` only) -/
  | baseQueue
deriving Repr

/-- every assignment / call / loop target the semantics understands -/
def lvalTable : List (String × LVal) := [
  ("flag", .loc "flag"), ("rightDataItem", .loc "rightDataItem"), ("tmp", .loc "tmp"), ("bestItem", .loc "bestItem"),
  ("item", .loc "item"), ("itr", .loc "itr"),
  ("self.curIter", .cur), ("self.__firstDataItem", .first), ("self.__baseQueue", .baseQueue)]

/-- `except` clauses: which exceptions they catch (all three are subclasses of `Exception`) -/
def excTable : List (String × (Exc → Bool)) := [("Exception", fun _ => true)]

/-- statements outside the statement grammar that are understood -/
def otherTable : List (String × Exc) := [("raise StopIteration", .stopIteration)]

open Gen.SearchDataCtl in
/-- method name ↦ (parameters, body): the GENERATED trees of `CharacteristicsQueue` -/
def cqMethods : List (String × (List String × List Stmt)) := [
  ("__init__", (characteristicsQueue_initParams, characteristicsQueue_init)),
  ("Clear", (characteristicsQueue_ClearParams, characteristicsQueue_Clear)),
  ("Insert", (characteristicsQueue_InsertParams, characteristicsQueue_Insert)),
  ("GetBestItem", (characteristicsQueue_GetBestItemParams, characteristicsQueue_GetBestItem)),
  ("IsEmpty", (characteristicsQueue_IsEmptyParams, characteristicsQueue_IsEmpty)),
  ("GetMaxLen", (characteristicsQueue_GetMaxLenParams, characteristicsQueue_GetMaxLen)),
  ("GetLen", (characteristicsQueue_GetLenParams, characteristicsQueue_GetLen))]

open Gen.SearchDataCtl in
/-- the GENERATED trees of `SearchData` -/
def baseMethods : List (String × (List String × List Stmt)) := [
  ("ClearQueue", (searchData_ClearQueueParams, searchData_ClearQueue)),
  ("InsertDataItem", (searchData_InsertDataItemParams, searchData_InsertDataItem)),
  ("InsertFirstDataItem", (searchData_InsertFirstDataItemParams, searchData_InsertFirstDataItem)),
  ("FindDataItemByOneDimensionalPoint",
    (searchData_FindDataItemByOneDimensionalPointParams, searchData_FindDataItemByOneDimensionalPoint)),
  ("GetDataItemWithMaxGlobalR", (searchData_GetDataItemWithMaxGlobalRParams, searchData_GetDataItemWithMaxGlobalR)),
  ("RefillQueue", (searchData_RefillQueueParams, searchData_RefillQueue)),
  ("GetCount", (searchData_GetCountParams, searchData_GetCount)),
  ("GetLastItem", (searchData_GetLastItemParams, searchData_GetLastItem)),
  ("SaveProgress", (searchData_SaveProgressParams, searchData_SaveProgress)),
  ("LoadProgress", (searchData_LoadProgressParams, searchData_LoadProgress)),
  ("__iter__", (searchData_iterParams, searchData_iter)),
  ("__next__", (searchData_nextParams, searchData_next))]

open Gen.SearchDataCtl in
/-- the GENERATED trees of the overrides of `SearchDataDualQueue` -/
def dualMethods : List (String × (List String × List Stmt)) := [
  ("ClearQueue", (searchDataDualQueue_ClearQueueParams, searchDataDualQueue_ClearQueue)),
  ("InsertDataItem", (searchDataDualQueue_InsertDataItemParams, searchDataDualQueue_InsertDataItem)),
  ("GetDataItemWithMaxGlobalR",
    (searchDataDualQueue_GetDataItemWithMaxGlobalRParams, searchDataDualQueue_GetDataItemWithMaxGlobalR)),
  ("GetDataItemWithMaxLocalR",
    (searchDataDualQueue_GetDataItemWithMaxLocalRParams, searchDataDualQueue_GetDataItemWithMaxLocalR)),
  ("RefillQueue", (searchDataDualQueue_RefillQueueParams, searchDataDualQueue_RefillQueue))]

/-- method resolution: the queues are `CharacteristicsQueue`s; the container looks in `SearchDataDualQueue` first when it is one,
then in `SearchData` -/
def resolve (dual : Bool) (o : Obj) (m : String) : Option (Cls × List String × List Stmt) :=
  match o with
  | .gq | .lq => (cqMethods.lookup m).map fun pb => (Cls.cq, pb)
  | .sd =>
    match (if dual then dualMethods.lookup m else none) with
    | some pb => some (Cls.dual, pb)
    | none => (baseMethods.lookup m).map fun pb => (Cls.base, pb)

/-! ### primitives -/

section
variable {χ κ : Type}

/-- the DEPQ behind `self.__baseQueue` -/
def Heap.queue (g : Heap χ κ) : Obj → Option (List (κ × Nat))
  | .gq => some g.s.gq
  | .lq => some g.s.lq
  | .sd => none

def Heap.setQueue (g : Heap χ κ) (o : Obj) (q : List (κ × Nat)) : Heap χ κ :=
  match o with
  | .gq => { g with s := { g.s with gq := q } }
  | .lq => { g with s := { g.s with lq := q } }
  | .sd => g

/-- is `self` the container, seen from the text of `SearchData` or a subclass? -/
def Frame.isSd (fr : Frame) : Bool := fr.self == .sd && fr.cls != .cq

def readAcc (a : Acc) (it : Item χ κ) : Val χ κ :=
  match a with
  | .getX => .coord it.x
  | .getLeft => .ofOpt it.left
  | .getRight => .ofOpt it.right
  | .globalR => .key it.globalR
  | .localR => .key it.localR

def evalExpr (c : Ctx χ κ) (env : MEnv χ κ) (fr : Frame) (l : Locals χ κ) : Expr → Heap χ κ → EOut χ κ
  | .var x, g =>
    match l.lookup x with
    | some v => .val v g
    | none => .stuck
  | .litNone, g => .val .none g
  | .litTrue, g => .val (.bool true) g
  | .litFalse, g => .val (.bool false) g
  | .litStr, g => .val .str g
  | .self, g => .val (.obj fr.self) g
  | .fFirst, g => if fr.self = .sd ∧ fr.cls = .base then .val (.ofOpt g.s.first) g else .stuck
  | .fCur, g => if fr.isSd then .val (.ofOpt g.cur) g else .stuck
  | .fGq, g => if fr.isSd then .val (.obj .gq) g else .stuck
  | .fLq, g => if fr.self = .sd ∧ fr.cls = .dual then .val (.obj .lq) g else .stuck
  | .acc a e, g =>
    match evalExpr c env fr l e g with
    | .val (.ref i) g' =>
      match g'.s.trials[i]? with
      | some it => .val (readAcc a it) g'
      | none => .stuck
    | .val .none g' => .raised g' .attributeError
    | .val _ _ => .stuck
    | o => o
  | .isNone e, g =>
    match evalExpr c env fr l e g with
    | .val .none g' => .val (.bool true) g'
    | .val _ g' => .val (.bool false) g'
    | o => o
  | .gt a b, g =>
    match evalExpr c env fr l a g with
    | .val (.coord xa) g' =>
      match evalExpr c env fr l b g' with
      | .val (.coord xb) g'' => .val (.bool (c.lt xb xa)) g''
      | .val _ _ => .stuck
      | o => o
    | .val _ _ => .stuck
    | o => o
  | .ne a b, g =>
    match evalExpr c env fr l a g with
    | .val (.key ka) g' =>
      match evalExpr c env fr l b g' with
      | .val (.key kb) g'' => .val (.bool (c.ne ka kb)) g''
      | .val _ _ => .stuck
      | o => o
    | .val _ _ => .stuck
    | o => o
  | .idx0 e, g =>
    match evalExpr c env fr l e g with
    | .val (.pair i _) g' => .val (.ref i) g'
    | .val _ _ => .stuck
    | o => o
  | .idx1 e, g =>
    match evalExpr c env fr l e g with
    | .val (.pair _ k) g' => .val (.key k) g'
    | .val _ _ => .stuck
    | o => o
  | .call0 recv m, g =>
    match evalExpr c env fr l recv g with
    | .val (.obj o) g' => (env o m [] g').toEOut
    | .val .none g' => .raised g' .attributeError
    | .val _ _ => .stuck
    | o => o
  | .qPopfirst, g =>
    if fr.cls = .cq then
      match g.queue fr.self with
      | some [] => .raised g .indexError
      | some ((k, i) :: t) => .val (.pair i k) (g.setQueue fr.self t)
      | none => .stuck
    else .stuck
  | .qIsEmpty, g =>
    if fr.cls = .cq then
      match g.queue fr.self with
      | some q => .val (.bool q.isEmpty) g
      | none => .stuck
    else .stuck
  | .qMaxlen, g =>
    if fr.cls = .cq then
      match g.queue fr.self with
      | some _ => .val (match g.s.maxlen with | some n => .nat n | none => .none) g
      | none => .stuck
    else .stuck
  | .qLen, g =>
    if fr.cls = .cq then
      match g.queue fr.self with
      | some q => .val (.nat q.length) g
      | none => .stuck
    else .stuck
  | .lenAll, g => if fr.isSd then .val (.nat g.nall) g else .stuck
  | .lastAll, g =>
    if fr.isSd then
      (if g.nall = 0 then .raised g .indexError else .val (.ref (g.nall - 1)) g)
    else .stuck

/-- the argument expressions, left to right -/
def evalArgs (c : Ctx χ κ) (env : MEnv χ κ) (fr : Frame) (l : Locals χ κ) : List String → Heap χ κ → AOut χ κ
  | [], g => .vals [] g
  | a :: rest, g =>
    match exprTable.lookup a with
    | none => .stuck
    | some e =>
      match evalExpr c env fr l e g with
      | .val v g' =>
        match evalArgs c env fr l rest g' with
        | .vals vs g'' => .vals (v :: vs) g''
        | o => o
      | .raised g' e => .raised g' e
      | .stuck => .stuck
      | .outOfFuel => .outOfFuel

/-- `recv.SetLeft(v)` / `recv.SetRight(v)` -/
def setLink (left : Bool) (g : Heap χ κ) (i : Nat) (v : Option Nat) : EOut χ κ :=
  if i < g.s.trials.size then
    .val .none { g with s := if left then setLeft g.s i v else setRight g.s i v }
  else .stuck

def evalCallee (c : Ctx χ κ) (env : MEnv χ κ) (fr : Frame) (l : Locals χ κ) (cl : Callee) (args : List String)
    (g : Heap χ κ) : EOut χ κ :=
  match cl with
  | .method recv m =>
    match evalExpr c env fr l recv g with
    | .val (.obj o) g' =>
      match evalArgs c env fr l args g' with
      | .vals vs g'' => (env o m vs g'').toEOut
      | .raised g'' e => .raised g'' e
      | .stuck => .stuck
      | .outOfFuel => .outOfFuel
    | .val .none g' => .raised g' .attributeError
    | .val _ _ => .stuck
    | o => o
  | .setLeft recv =>
    match evalExpr c env fr l recv g with
    | .val (.ref i) g' =>
      match evalArgs c env fr l args g' with
      | .vals [v] g'' =>
        match v.toOpt with
        | some o => setLink true g'' i o
        | none => .stuck
      | .vals _ _ => .stuck
      | .raised g'' e => .raised g'' e
      | .stuck => .stuck
      | .outOfFuel => .outOfFuel
    | .val .none g' => .raised g' .attributeError
    | .val _ _ => .stuck
    | o => o
  | .setRight recv =>
    match evalExpr c env fr l recv g with
    | .val (.ref i) g' =>
      match evalArgs c env fr l args g' with
      | .vals [v] g'' =>
        match v.toOpt with
        | some o => setLink false g'' i o
        | none => .stuck
      | .vals _ _ => .stuck
      | .raised g'' e => .raised g'' e
      | .stuck => .stuck
      | .outOfFuel => .outOfFuel
    | .val .none g' => .raised g' .attributeError
    | .val _ _ => .stuck
    | o => o
  | .pure e =>
    match args with
    | [] => evalExpr c env fr l e g
    | _ => .stuck
  | .append =>
    if fr.isSd then
      match evalArgs c env fr l args g with
      | .vals [.ref i] g' =>
        if i = g'.nall ∧ i < g'.s.trials.size then .val .none { g' with nall := g'.nall + 1 } else .stuck
      | .vals _ _ => .stuck
      | .raised g' e => .raised g' e
      | .stuck => .stuck
      | .outOfFuel => .outOfFuel
    else .stuck
  | .qInsert =>
    if fr.cls = .cq then
      match evalArgs c env fr l args g with
      | .vals [.ref i, .key k] g' =>
        match g'.queue fr.self with
        | some q => .val .none (g'.setQueue fr.self (qinsert c.le g'.s.maxlen k i q))
        | none => .stuck
      | .vals _ _ => .stuck
      | .raised g' e => .raised g' e
      | .stuck => .stuck
      | .outOfFuel => .outOfFuel
    else .stuck
  | .qClear =>
    if fr.cls = .cq then
      match args, g.queue fr.self with
      | [], some _ => .val .none (g.setQueue fr.self [])
      | _, _ => .stuck
    else .stuck
  | .depqNew =>
    match args with
    | [] => .val (.depq none) g
    | ["iterable=None", "maxlen=maxlen"] =>
      match l.lookup "maxlen" with
      | some .none => .val (.depq none) g
      | some (.nat n) => .val (.depq (some n)) g
      | _ => .stuck
    | _ => .stuck
  | .print =>
    match evalArgs c env fr l args g with
    | .vals [.str] g' => .val .none g'
    | .vals _ _ => .stuck
    | .raised g' e => .raised g' e
    | .stuck => .stuck
    | .outOfFuel => .outOfFuel

/-- store a value in an assignable place -/
def assignLVal (fr : Frame) (lv : LVal) (v : Val χ κ) (st : IState χ κ) : Option (IState χ κ) :=
  match lv with
  | .loc x => some { st with l := (x, v) :: st.l }
  | .cur =>
    if fr.isSd then
      match v.toOpt with
      | some o => some { st with g := { st.g with cur := o } }
      | none => none
    else none
  | .first =>
    if fr.self = .sd ∧ fr.cls = .base then
      match v.toOpt with
      | some o => some { st with g := { st.g with s := { st.g.s with first := o } } }
      | none => none
    else none
  | .baseQueue =>
    if fr.cls = .cq then
      match v, st.g.queue fr.self with
      | .depq m, some _ =>
        let g' := st.g.setQueue fr.self []
        some { st with g := { g' with s := { g'.s with maxlen := m } } }
      | _, _ => none
    else none

/-- no target: the value is dropped; one target: stored -/
def bindTargets (fr : Frame) (ts : List String) (v : Val χ κ) (st : IState χ κ) : Option (IState χ κ) :=
  match ts with
  | [] => some st
  | [t] =>
    match lvalTable.lookup t with
    | some lv => assignLVal fr lv v st
    | none => none
  | _ => none

/-! ### control -/

/-- `while cond: body`: `cnd` evaluates the condition (it may have effects); at most `fuel` body executions -/
def whileLoop : Nat → (IState χ κ → EOut χ κ) → (IState χ κ → Out χ κ) → IState χ κ → Out χ κ
  | fuel, cnd, b, st =>
    match cnd st with
    | .val (.bool true) g =>
      match fuel with
      | 0 => .outOfFuel
      | fuel+1 =>
        match b { st with g := g } with
        | .normal st' => whileLoop fuel cnd b st'
        | o => o
    | .val (.bool false) g => .normal { st with g := g }
    | .val _ _ => .stuck
    | .raised g e => .raised { st with g := g } e
    | .stuck => .stuck
    | .outOfFuel => .outOfFuel

/-- the iterator protocol: ask `next` until it raises `StopIteration`; at most `fuel` items (then the loop ends) -/
def iterLoop : Nat → (Heap χ κ → MOut χ κ) → (IState χ κ → Out χ κ) → String → IState χ κ → Out χ κ
  | 0, _, _, _, st => .normal st
  | fuel+1, next, b, x, st =>
    match next st.g with
    | .done g v =>
      match b { g := g, l := (x, v) :: st.l } with
      | .normal st' => iterLoop fuel next b x st'
      | o => o
    | .raised g .stopIteration => .normal { st with g := g }
    | .raised g e => .raised { st with g := g } e
    | .stuck => .stuck
    | .outOfFuel => .outOfFuel

mutual
def execStmt (c : Ctx χ κ) (env : MEnv χ κ) (fr : Frame) : Stmt → IState χ κ → Out χ κ
  | .call ts callee args, st =>
    match calleeTable.lookup callee with
    | none => .stuck
    | some cl =>
      match evalCallee c env fr st.l cl args st.g with
      | .val v g =>
        match bindTargets fr ts v { st with g := g } with
        | some st' => .normal st'
        | none => .stuck
      | .raised g e => .raised { st with g := g } e
      | .stuck => .stuck
      | .outOfFuel => .outOfFuel
  | .assign t v, st =>
    match lvalTable.lookup t, exprTable.lookup v with
    | some lv, some e =>
      match evalExpr c env fr st.l e st.g with
      | .val v g =>
        match assignLVal fr lv v { st with g := g } with
        | some st' => .normal st'
        | none => .stuck
      | .raised g e => .raised { st with g := g } e
      | .stuck => .stuck
      | .outOfFuel => .outOfFuel
    | _, _ => .stuck
  | .forRange _ _ _, _ => .stuck
  | .forEach v coll body, st =>
    match lvalTable.lookup v, exprTable.lookup coll with
    | some (.loc x), some ce =>
      match evalExpr c env fr st.l ce st.g with
      | .val (.obj o) g =>
        match env o "__iter__" [] g with
        | .done g' (.obj it) =>
          iterLoop c.ifuel (fun h => env it "__next__" [] h) (fun s => execList c env fr body s) x { st with g := g' }
        | .done _ _ => .stuck
        | .raised g' e => .raised { st with g := g' } e
        | .stuck => .stuck
        | .outOfFuel => .outOfFuel
      | .val _ _ => .stuck
      | .raised g e => .raised { st with g := g } e
      | .stuck => .stuck
      | .outOfFuel => .outOfFuel
    | _, _ => .stuck
  | .ite cond thn els, st =>
    match exprTable.lookup cond with
    | none => .stuck
    | some e =>
      match evalExpr c env fr st.l e st.g with
      | .val (.bool true) g => execList c env fr thn { st with g := g }
      | .val (.bool false) g => execList c env fr els { st with g := g }
      | .val _ _ => .stuck
      | .raised g e => .raised { st with g := g } e
      | .stuck => .stuck
      | .outOfFuel => .outOfFuel
  | .while cond body, st =>
    match exprTable.lookup cond with
    | none => .stuck
    | some e => whileLoop c.wfuel (fun s => evalExpr c env fr s.l e s.g) (fun s => execList c env fr body s) st
  | .tryExcept body exc handler, st =>
    match excTable.lookup exc with
    | none => .stuck
    | some catches =>
      match execList c env fr body st with
      | .raised st' e => if catches e then execList c env fr handler st' else .raised st' e
      | o => o
  | .ret v, st =>
    match exprTable.lookup v with
    | none => .stuck
    | some e =>
      match evalExpr c env fr st.l e st.g with
      | .val v g => .returned { st with g := g } v
      | .raised g e => .raised { st with g := g } e
      | .stuck => .stuck
      | .outOfFuel => .outOfFuel
  | .other src, st =>
    match otherTable.lookup src with
    | some e => .raised st e
    | none => .stuck

/-- a statement list: stops at the first outcome that is not `normal` -/
def execList (c : Ctx χ κ) (env : MEnv χ κ) (fr : Frame) : List Stmt → IState χ κ → Out χ κ
  | [], st => .normal st
  | s :: rest, st =>
    match execStmt c env fr s st with
    | .normal st' => execList c env fr rest st'
    | o => o
end

/-- bind the parameters (the first one is `self`) to the argument values; the arity must match -/
def bindParams (self : Obj) : List String → List (Val χ κ) → Option (Locals χ κ)
  | p :: ps, args => if ps.length = args.length then some ((p, Val.obj self) :: ps.zip args) else none
  | [], _ => none

/-- run a method body on fresh locals; falling off the end returns `None` -/
def runBody (c : Ctx χ κ) (env : MEnv χ κ) (fr : Frame) (params : List String) (body : List Stmt)
    (args : List (Val χ κ)) (g : Heap χ κ) : MOut χ κ :=
  match bindParams fr.self params args with
  | none => .stuck
  | some l =>
    match execList c env fr body { g := g, l := l } with
    | .normal st => .done st.g .none
    | .returned st v => .done st.g v
    | .raised st e => .raised st.g e
    | .stuck => .stuck
    | .outOfFuel => .outOfFuel

/-- the methods callable at call depth `d`, resolved in the tables of generated trees -/
def envN (c : Ctx χ κ) : Nat → MEnv χ κ
  | 0 => fun _ _ _ _ => .stuck
  | d+1 => fun o m args g =>
    match resolve g.s.dual o m with
    | none => .stuck
    | some (cls, params, body) => runBody c (envN c d) { cls := cls, self := o } params body args g

/-- call method `m` of object `o` (call depth `depth`) -/
def call (c : Ctx χ κ) (depth : Nat) (o : Obj) (m : String) (args : List (Val χ κ)) (g : Heap χ κ) : MOut χ κ :=
  envN c (depth + 1) o m args g

/-- run an arbitrary tree as the body of a method of `o` whose text belongs to class `cls` (for edited trees) -/
def runTree (c : Ctx χ κ) (depth : Nat) (cls : Cls) (o : Obj) (params : List String) (body : List Stmt)
    (args : List (Val χ κ)) (g : Heap χ κ) : MOut χ κ :=
  runBody c (envN c depth) { cls := cls, self := o } params body args g

/-! ### reading an outcome against the model -/

/-- what an outcome says, without the iteration cursor `curIter` (which the model does not have) -/
inductive View (χ κ : Type) where
  /-- normal return: container state, `len(_allTrials)`, returned value -/
  | ok (s : State χ κ) (nall : Nat) (v : Val χ κ)
  /-- an exception left the method -/
  | err (e : Exc)
  | stuck
  | outOfFuel

def MOut.view : MOut χ κ → View χ κ
  | .done g v => .ok g.s g.nall v
  | .raised _ e => .err e
  | .stuck => .stuck
  | .outOfFuel => .outOfFuel

/-- the view of a model result: the heap is the model state (`nall = trials.size`) -/
def View.ofModel (r : Except Err (State χ κ × Val χ κ)) : View χ κ :=
  match r with
  | .ok (s, v) => .ok s s.trials.size v
  | .error e => .err (Exc.ofErr e)

/-- a heap that is a model state -/
def Heap.ofState (s : State χ κ) (cur : Option Nat := none) : Heap χ κ := { s := s, nall := s.trials.size, cur := cur }

end
end SDInterp
