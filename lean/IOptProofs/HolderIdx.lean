import IOptProofs.EvFwd
import IOptProps.C07num
import IOptProps.C08
import Mathlib.Algebra.Order.Archimedean.Real.Basic
import Mathlib.Algebra.Order.Floor.Semifield
import Mathlib.Tactic.Ring
import Mathlib.Tactic.Linarith
import Mathlib.Tactic.Positivity
import Mathlib.Tactic.FieldSimp
/-!
# Hölder property of the evolvent, part 1: subinterval indices of real arguments  (worker h)

`Ev.cellIdx n m x` is the index of the density-`m` subinterval containing `x ∈ [0,1]`
(`x = 1` belongs to the last one — the code's `x >= 1.0` rule).  The image of every `x ∈ [0,1]` is the
centre of cell `cellIdx n m x` (`imageCube_cellIdx`); the density-`p` ancestor of that subinterval is
`cellIdx n p x` (`cellIdx_div`); two arguments at distance `≤ (2^n)^-p` have equal or consecutive
density-`p` ancestors (`cellIdx_close`).  Together with `C08_coord_bound` this gives the coordinate
bounds for real arguments (`cubeY_close`).
-/

namespace Ev

/-! ### digit prefixes -/

theorem digitsOf_take (n : Nat) {m p : Nat} (hp : p ≤ m) (i : Nat) :
    (digitsOf n m i).take p = digitsOf n p (i / (2^n)^(m - p)) := by
  apply List.ext_getElem
  · simp [digitsOf_length, List.length_take, Nat.min_eq_left hp]
  · intro j h1 h2
    have hj : j < p := by
      rw [digitsOf_length] at h2; exact h2
    simp only [digitsOf, List.getElem_take, List.getElem_map, List.getElem_range]
    rw [Nat.div_div_eq_div_mul, ← Nat.pow_add]
    have e : m - p + (p - 1 - j) = m - 1 - j := by omega
    rw [e]

theorem indexOf_take_digitsOf (n : Nat) {m p : Nat} (hp : p ≤ m) {i : Nat} (hi : i < (2^n)^m) :
    indexOf n ((digitsOf n m i).take p) = i / (2^n)^(m - p) := by
  rw [digitsOf_take n hp, indexOf_digitsOf]
  rw [Nat.div_lt_iff_lt_mul (Nat.pow_pos (Nat.two_pow_pos n)), ← Nat.pow_add]
  have e : p + (m - p) = m := by omega
  rw [e]; exact hi

theorem digitsOf_last (n m : Nat) :
    digitsOf n m ((2^n)^m - 1) = List.replicate m (2^n - 1) := by
  have hL : 2^n - 1 < 2^n := Nat.sub_lt (Nat.two_pow_pos n) Nat.one_pos
  have hv : validDigits n (List.replicate m (2^n - 1)) := validDigits_replicate hL
  have h := digitsOf_indexOf hv
  rw [List.length_replicate] at h
  have h2 := indexOf_replicate_last n m
  have e : indexOf n (List.replicate m (2^n - 1)) = (2^n)^m - 1 := by omega
  rw [e] at h
  exact h

/-! ### the subinterval index of a real argument -/

/-- index of the density-`m` subinterval (of `(2^n)^m`) that contains `x`; `x ≥ 1` is put into the
last subinterval (the code's `x >= 1.0` rule) -/
noncomputable def cellIdx (n m : Nat) (x : ℝ) : Nat := min ⌊x * (2^n)^m⌋₊ ((2^n)^m - 1)

theorem cellIdx_lt (n m : Nat) (x : ℝ) : cellIdx n m x < (2^n)^m := by
  have : 0 < (2^n)^m := Nat.pow_pos (Nat.two_pow_pos n)
  unfold cellIdx
  omega

theorem cellIdx_of_lt_one (n m : Nat) {x : ℝ} (h0 : 0 ≤ x) (h1 : x < 1) :
    cellIdx n m x = ⌊x * (2^n)^m⌋₊ := by
  have hB : (0:ℝ) < (2^n)^m := by positivity
  have : ⌊x * (2^n)^m⌋₊ < (2^n)^m := by
    rw [Nat.floor_lt (by positivity)]
    push_cast
    nlinarith
  unfold cellIdx
  omega

theorem cellIdx_of_one_le (n m : Nat) {x : ℝ} (h1 : 1 ≤ x) :
    cellIdx n m x = (2^n)^m - 1 := by
  have hB : (0:ℝ) < (2^n)^m := by positivity
  have : (2^n)^m ≤ ⌊x * (2^n)^m⌋₊ := by
    rw [Nat.le_floor_iff (by positivity)]
    push_cast
    nlinarith
  unfold cellIdx
  omega

/-- the density-`p` ancestor of the density-`m` subinterval of `x` is the density-`p` subinterval
of `x` -/
theorem cellIdx_div (n : Nat) {m p : Nat} (hp : p ≤ m) {x : ℝ} (h0 : 0 ≤ x) :
    cellIdx n m x / (2^n)^(m - p) = cellIdx n p x := by
  have hpow : (2^n)^m = (2^n)^p * (2^n)^(m - p) := by
    rw [← Nat.pow_add]; congr 1; omega
  have hQ : 0 < (2^n)^(m - p) := Nat.pow_pos (Nat.two_pow_pos n)
  have hP : 0 < (2^n)^p := Nat.pow_pos (Nat.two_pow_pos n)
  rcases lt_or_ge x 1 with h1 | h1
  · rw [cellIdx_of_lt_one n m h0 h1, cellIdx_of_lt_one n p h0 h1, ← Nat.floor_div_natCast]
    congr 1
    have : ((2:ℝ)^n)^m = ((2:ℝ)^n)^p * ((2:ℝ)^n)^(m - p) := by
      rw [← pow_add]; congr 1; omega
    push_cast
    rw [this]
    have hq : ((2:ℝ)^n)^(m - p) ≠ 0 := by positivity
    field_simp
  · rw [cellIdx_of_one_le n m h1, cellIdx_of_one_le n p h1, hpow]
    apply Nat.div_eq_of_lt_le
    · have : ((2^n)^p - 1) * (2^n)^(m - p) + (2^n)^(m - p) = (2^n)^p * (2^n)^(m - p) := by
        rw [← Nat.succ_mul, Nat.succ_eq_add_one, Nat.sub_add_cancel hP]
      omega
    · have : ((2^n)^p - 1 + 1) * (2^n)^(m - p) = (2^n)^p * (2^n)^(m - p) := by
        rw [Nat.sub_add_cancel hP]
      have h2 : 0 < (2^n)^p * (2^n)^(m - p) := Nat.mul_pos hP hQ
      omega

/-- arguments at distance at most `(2^n)^-p` lie in equal or consecutive density-`p` subintervals -/
theorem cellIdx_close (n p : Nat) {x' x'' : ℝ} (h0' : 0 ≤ x') (h0'' : 0 ≤ x'')
    (hd : |x' - x''| ≤ 1 / ((2:ℝ)^n)^p) :
    |(cellIdx n p x' : Int) - (cellIdx n p x'' : Int)| ≤ 1 := by
  have hB : (0:ℝ) < ((2:ℝ)^n)^p := by positivity
  rw [le_div_iff₀ hB] at hd
  have hd2 : |(x' - x'') * ((2:ℝ)^n)^p| ≤ 1 := by rw [abs_mul, abs_of_pos hB]; exact hd
  rw [abs_le] at hd2
  have key : ∀ a b : ℝ, 0 ≤ a → a ≤ b → b ≤ a + 1 → ⌊a⌋₊ ≤ ⌊b⌋₊ ∧ ⌊b⌋₊ ≤ ⌊a⌋₊ + 1 := by
    intro a b ha hab hba
    refine ⟨Nat.floor_le_floor hab, ?_⟩
    calc ⌊b⌋₊ ≤ ⌊a + 1⌋₊ := Nat.floor_le_floor hba
      _ = ⌊a⌋₊ + 1 := Nat.floor_add_one ha
  unfold cellIdx
  rcases le_total x' x'' with h | h
  · have := key (x' * ((2:ℝ)^n)^p) (x'' * ((2:ℝ)^n)^p) (by positivity)
      (by nlinarith) (by nlinarith)
    rw [abs_le]
    omega
  · have := key (x'' * ((2:ℝ)^n)^p) (x' * ((2:ℝ)^n)^p) (by positivity)
      (by nlinarith) (by nlinarith)
    rw [abs_le]
    omega

/-! ### the image of a real argument -/

attribute [local instance] Ev.Num.floorTrunc

/-- for every `x ∈ [0,1]` the image is the centre of cell `cellIdx n m x` -/
theorem imageCube_cellIdx {n : Nat} (hn : Ev.DimOK n) (m : Nat) {x : ℝ} (h0 : 0 ≤ x)
    (h1 : x ≤ 1) :
    imageCube n m x = (cubeY n (digitsOf n m (cellIdx n m x))).map
      (fun (Y : Int) => (Y : ℝ) / 2^(m+1)) := by
  rcases lt_or_eq_of_le h1 with h | h
  · rw [C07_image_cell hn m x h0 h, cellIdx_of_lt_one n m h0 h]
  · rw [C07_image_cell_end hn m x (le_of_eq h.symm), cellIdx_of_one_le n m (le_of_eq h.symm),
      digitsOf_last]

theorem mem_of_range {n : Nat} (hn : Ev.DimOK n) : Ev.DimOK n := hn

/-- **coordinate bound for real arguments**: if `|x' - x''| ≤ (2^n)^-p`, `p ≤ m`, then the
density-`m` cell centres of `x'`, `x''` differ by less than `2·2^(m-p+1)` units in every coordinate
and by less than `2^(m-p+1)` units in all coordinates but at most one. -/
theorem cubeY_close {n : Nat} (hn : Ev.DimOK n) {m p : Nat} (hp : p ≤ m) {x' x'' : ℝ}
    (h0' : 0 ≤ x') (h0'' : 0 ≤ x'') (hd : |x' - x''| ≤ 1 / ((2:ℝ)^n)^p) :
    (∀ i, |getI (cubeY n (digitsOf n m (cellIdx n m x'))) i -
        getI (cubeY n (digitsOf n m (cellIdx n m x''))) i| < 2 * 2^(m - p + 1)) ∧
    ∃ c, c < n ∧ ∀ i, i ≠ c →
      |getI (cubeY n (digitsOf n m (cellIdx n m x'))) i -
        getI (cubeY n (digitsOf n m (cellIdx n m x''))) i| < 2^(m - p + 1) := by
  have h := C08_coord_bound (mem_of_range hn) (digitsOf_valid n m (cellIdx n m x'))
    (digitsOf_valid n m (cellIdx n m x'')) (by simp [digitsOf_length]) p
    (by
      rw [indexOf_take_digitsOf n hp (cellIdx_lt n m x'),
        indexOf_take_digitsOf n hp (cellIdx_lt n m x''), cellIdx_div n hp h0',
        cellIdx_div n hp h0'']
      exact cellIdx_close n p h0' h0'' hd)
  rw [digitsOf_length] at h
  exact h

end Ev
