import IOptProofs.GrishDefs
/-! kernel-evaluated certificates (V), (G), (P) of the Grishagin functions 81..85 (one block per file, identical template;
one theorem per function so that the kernel's reduction cache is released between functions) -/
namespace Grish
set_option maxRecDepth 100000
theorem grish_ok_81 : grishOK 81 = true := by decide +kernel
theorem grish_ok_82 : grishOK 82 = true := by decide +kernel
theorem grish_ok_83 : grishOK 83 = true := by decide +kernel
theorem grish_ok_84 : grishOK 84 = true := by decide +kernel
theorem grish_ok_85 : grishOK 85 = true := by decide +kernel
theorem grish_block_16 : ∀ k ∈ List.range' 81 5, grishOK k = true := by
  intro k hk
  simp only [List.mem_range'_1] at hk
  obtain ⟨h1, h2⟩ := hk
  have : k = 81 ∨ k = 82 ∨ k = 83 ∨ k = 84 ∨ k = 85 := by omega
  rcases this with rfl | rfl | rfl | rfl | rfl
  · exact grish_ok_81
  · exact grish_ok_82
  · exact grish_ok_83
  · exact grish_ok_84
  · exact grish_ok_85
end Grish
