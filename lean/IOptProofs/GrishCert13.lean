import IOptProofs.GrishDefs
/-! kernel-evaluated certificates (V), (G), (P) of the Grishagin functions 66..70 (one block per file, identical template;
one theorem per function so that the kernel's reduction cache is released between functions) -/
namespace Grish
set_option maxRecDepth 100000
theorem grish_ok_66 : grishOK 66 = true := by decide +kernel
theorem grish_ok_67 : grishOK 67 = true := by decide +kernel
theorem grish_ok_68 : grishOK 68 = true := by decide +kernel
theorem grish_ok_69 : grishOK 69 = true := by decide +kernel
theorem grish_ok_70 : grishOK 70 = true := by decide +kernel
theorem grish_block_13 : ∀ k ∈ List.range' 66 5, grishOK k = true := by
  intro k hk
  simp only [List.mem_range'_1] at hk
  obtain ⟨h1, h2⟩ := hk
  have : k = 66 ∨ k = 67 ∨ k = 68 ∨ k = 69 ∨ k = 70 := by omega
  rcases this with rfl | rfl | rfl | rfl | rfl
  · exact grish_ok_66
  · exact grish_ok_67
  · exact grish_ok_68
  · exact grish_ok_69
  · exact grish_ok_70
end Grish
