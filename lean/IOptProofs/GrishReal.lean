import IOptProofs.BenchReal
import IOptProofs.EnclReal
import Mathlib.Analysis.SpecialFunctions.Trigonometric.Deriv
import Mathlib.Algebra.BigOperators.Group.Finset.Basic
import Mathlib.Tactic.Linarith
import Mathlib.Tactic.Ring
/-!
# Grishagin functions over `ℝ`: the recurrences are `sin (i+1)πt`, `cos (i+1)πt`; the function is
`-√(d1² + d2²)` with two bilinear trigonometric forms
-/

namespace Grish
open Finset

/-- the recurrence of `grishTrig.go` from index `k` -/
theorem go_spec (d : ℝ) : ∀ (n k : ℕ) (sn cs : List ℝ),
    Prob.grishTrig.go (Real.sin d) (Real.cos d) n (Real.sin ((k + 1 : ℕ) * d)) (Real.cos ((k + 1 : ℕ) * d)) sn cs
      = (sn.reverse ++ (List.range n).map (fun i => Real.sin ((k + 2 + i : ℕ) * d)),
         cs.reverse ++ (List.range n).map (fun i => Real.cos ((k + 2 + i : ℕ) * d))) := by
  intro n
  induction n with
  | zero => intro k sn cs; simp [Prob.grishTrig.go]
  | succ n ih =>
    intro k sn cs
    have hs : Real.sin ((k + 1 : ℕ) * d) * Real.cos d + Real.cos ((k + 1 : ℕ) * d) * Real.sin d
        = Real.sin ((k + 1 + 1 : ℕ) * d) := by
      rw [← Real.sin_add]; congr 1; push_cast; ring
    have hc : Real.cos ((k + 1 : ℕ) * d) * Real.cos d - Real.sin ((k + 1 : ℕ) * d) * Real.sin d
        = Real.cos ((k + 1 + 1 : ℕ) * d) := by
      rw [← Real.cos_add]; congr 1; push_cast; ring
    simp only [Prob.grishTrig.go]
    rw [hs, hc, ih (k + 1)]
    simp only [List.reverse_cons, List.append_assoc, List.singleton_append, List.range_succ_eq_map,
      List.map_cons, List.map_map, Prod.mk.injEq]
    have e : ∀ i : ℕ, k + 1 + 2 + i = k + 2 + (i + 1) := fun i => by omega
    constructor
    · congr 2
      apply List.map_congr_left
      intro i _
      simp only [Function.comp, Nat.succ_eq_add_one, e]
    · congr 2
      apply List.map_congr_left
      intro i _
      simp only [Function.comp, Nat.succ_eq_add_one, e]

/-- over `ℝ` the recurrences of `GrishaginFunction.Calculate` are `sin (i+1)πt`, `cos (i+1)πt`, `i = 0..6` -/
theorem grishTrig_real (t : ℝ) :
    Prob.grishTrig t = ((List.range 7).map (fun i => Real.sin ((i + 1 : ℕ) * (Real.pi * t))),
                        (List.range 7).map (fun i => Real.cos ((i + 1 : ℕ) * (Real.pi * t)))) := by
  unfold Prob.grishTrig
  simp only [BenchReal.sin_eq, BenchReal.cos_eq, BenchReal.pi_eq]
  have h := go_spec (Real.pi * t) 6 0 [Real.sin (Real.pi * t)] [Real.cos (Real.pi * t)]
  simp only [Nat.zero_add, Nat.cast_one, one_mul] at h
  rw [h]
  simp [List.range_succ_eq_map]
  norm_num

/-- `sin (i+1)πt` -/
noncomputable def sn (i : ℕ) (t : ℝ) : ℝ := Real.sin ((i + 1 : ℕ) * (Real.pi * t))
/-- `cos (i+1)πt` -/
noncomputable def cs (i : ℕ) (t : ℝ) : ℝ := Real.cos ((i + 1 : ℕ) * (Real.pi * t))

/-- coefficients of a general bilinear trigonometric form (indices `0..6`) -/
structure Co where
  a : ℕ → ℕ → ℝ
  b : ℕ → ℕ → ℝ
  c : ℕ → ℕ → ℝ
  d : ℕ → ℕ → ℝ

/-- `Σ a_ij s_i(x) s_j(y) + b_ij c_i(x) c_j(y) + c_ij c_i(x) s_j(y) + d_ij s_i(x) c_j(y)` -/
noncomputable def gen (K : Co) (x y : ℝ) : ℝ :=
  ∑ i ∈ range 7, ∑ j ∈ range 7,
    (K.a i j * sn i x * sn j y + K.b i j * cs i x * cs j y + K.c i j * cs i x * sn j y + K.d i j * sn i x * cs j y)

/-- a `7 × 7` matrix as a list of rows -/
def mat7 {α : Type} (f : ℕ → ℕ → α) : List (List α) := (List.range 7).map fun i => (List.range 7).map fun j => f i j

theorem range7 : List.range 7 = [0, 1, 2, 3, 4, 5, 6] := by decide

theorem foldl_pair {ι : Type} (step : ℝ × ℝ → ι → ℝ × ℝ) (g1 g2 : ι → ℝ)
    (h : ∀ acc e, step acc e = (acc.1 + g1 e, acc.2 + g2 e)) :
    ∀ (l : List ι) (acc : ℝ × ℝ),
      l.foldl step acc = (acc.1 + (l.map g1).sum, acc.2 + (l.map g2).sum) := by
  intro l
  induction l with
  | nil => intro acc; simp
  | cons e l ih =>
    intro acc
    rw [List.foldl_cons, ih, h]
    simp only [List.map_cons, List.sum_cons, add_assoc]

theorem sum_map_range7 (f : ℕ → ℝ) : ((List.range 7).map f).sum = ∑ i ∈ range 7, f i := by
  simp only [range7, List.map_cons, List.map_nil, List.sum_cons, List.sum_nil, sum_range_succ, sum_range_zero]
  ring

/-- the model function is `-√(d1² + d2²)` with `d1 = Σ af ss + bf cc`, `d2 = Σ cf ss - df cc` -/
theorem grishagin_eq (A B C D : ℕ → ℕ → ℝ) (x y : ℝ) :
    Prob.grishagin (mat7 A) (mat7 B) (mat7 C) (mat7 D) x y
      = -Real.sqrt (gen ⟨A, B, 0, 0⟩ x y ^ 2 + gen ⟨C, fun i j => -D i j, 0, 0⟩ x y ^ 2) := by
  unfold Prob.grishagin
  rw [grishTrig_real, grishTrig_real]
  simp only [mat7, List.zip_map', List.foldl_map, BenchReal.sqrt_eq]
  have e1 : ∀ (i : ℕ) (t : ℝ), Real.sin ((i + 1 : ℕ) * (Real.pi * t)) = sn i t := fun _ _ => rfl
  have e2 : ∀ (i : ℕ) (t : ℝ), Real.cos ((i + 1 : ℕ) * (Real.pi * t)) = cs i t := fun _ _ => rfl
  simp only [e1, e2]
  have inner : ∀ (i : ℕ) (acc : ℝ × ℝ),
      List.foldl (fun (acc : ℝ × ℝ) (j : ℕ) =>
          (acc.1 + A i j * sn i x * sn j y + B i j * cs i x * cs j y,
           acc.2 + C i j * sn i x * sn j y - D i j * cs i x * cs j y)) acc (List.range 7)
        = (acc.1 + ∑ j ∈ range 7, (A i j * sn i x * sn j y + B i j * cs i x * cs j y),
           acc.2 + ∑ j ∈ range 7, (C i j * sn i x * sn j y - D i j * cs i x * cs j y)) := by
    intro i acc
    rw [foldl_pair _ (fun j => A i j * sn i x * sn j y + B i j * cs i x * cs j y)
      (fun j => C i j * sn i x * sn j y - D i j * cs i x * cs j y)
      (fun acc e => by simp only [add_assoc, add_sub_assoc]), sum_map_range7, sum_map_range7]
  simp only [inner]
  rw [foldl_pair _ (fun i => ∑ j ∈ range 7, (A i j * sn i x * sn j y + B i j * cs i x * cs j y))
      (fun i => ∑ j ∈ range 7, (C i j * sn i x * sn j y - D i j * cs i x * cs j y))
      (fun acc e => rfl), sum_map_range7, sum_map_range7]
  simp only [zero_add, neg_one_mul, gen, Pi.zero_apply, zero_mul, add_zero]
  congr 2
  rw [pow_two, pow_two]
  congr 2
  · apply sum_congr rfl; intro i _
    apply sum_congr rfl; intro j _
    ring
  · apply sum_congr rfl; intro i _
    apply sum_congr rfl; intro j _
    ring

/-! ## partial derivatives: the family `gen` is closed under `∂x/π`, `∂y/π` -/

/-- coefficients of `∂x gen / π` -/
def dxOp (K : Co) : Co :=
  ⟨fun i j => -((i + 1 : ℕ) * K.c i j), fun i j => (i + 1 : ℕ) * K.d i j,
   fun i j => (i + 1 : ℕ) * K.a i j, fun i j => -((i + 1 : ℕ) * K.b i j)⟩
/-- coefficients of `∂y gen / π` -/
def dyOp (K : Co) : Co :=
  ⟨fun i j => -((j + 1 : ℕ) * K.d i j), fun i j => (j + 1 : ℕ) * K.c i j,
   fun i j => -((j + 1 : ℕ) * K.b i j), fun i j => (j + 1 : ℕ) * K.a i j⟩

theorem hasDerivAt_sn (i : ℕ) (t : ℝ) : HasDerivAt (sn i) (Real.pi * ((i + 1 : ℕ) * cs i t)) t := by
  have h1 : HasDerivAt (fun t : ℝ => ((i + 1 : ℕ) : ℝ) * (Real.pi * t)) (((i + 1 : ℕ) : ℝ) * (Real.pi * 1)) t :=
    ((hasDerivAt_id' t).const_mul Real.pi).const_mul _
  have := (Real.hasDerivAt_sin _).comp t h1
  refine this.congr_deriv ?_
  unfold cs; ring

theorem hasDerivAt_cs (i : ℕ) (t : ℝ) : HasDerivAt (cs i) (Real.pi * (-((i + 1 : ℕ) * sn i t))) t := by
  have h1 : HasDerivAt (fun t : ℝ => ((i + 1 : ℕ) : ℝ) * (Real.pi * t)) (((i + 1 : ℕ) : ℝ) * (Real.pi * 1)) t :=
    ((hasDerivAt_id' t).const_mul Real.pi).const_mul _
  have := (Real.hasDerivAt_cos _).comp t h1
  refine this.congr_deriv ?_
  unfold sn; ring

theorem hasDerivAt_gen_x (K : Co) (x y : ℝ) :
    HasDerivAt (fun x => gen K x y) (Real.pi * gen (dxOp K) x y) x := by
  unfold gen
  have : ∀ i ∈ range 7, HasDerivAt (fun x => ∑ j ∈ range 7,
      (K.a i j * sn i x * sn j y + K.b i j * cs i x * cs j y + K.c i j * cs i x * sn j y + K.d i j * sn i x * cs j y))
      (∑ j ∈ range 7, Real.pi * ((dxOp K).a i j * sn i x * sn j y + (dxOp K).b i j * cs i x * cs j y
        + (dxOp K).c i j * cs i x * sn j y + (dxOp K).d i j * sn i x * cs j y)) x := by
    intro i _
    apply HasDerivAt.fun_sum
    intro j _
    have hs := hasDerivAt_sn i x
    have hc := hasDerivAt_cs i x
    have := ((((hs.const_mul (K.a i j)).mul_const (sn j y)).fun_add ((hc.const_mul (K.b i j)).mul_const (cs j y))).fun_add
      ((hc.const_mul (K.c i j)).mul_const (sn j y))).fun_add ((hs.const_mul (K.d i j)).mul_const (cs j y))
    refine this.congr_deriv ?_
    simp only [dxOp]; ring
  have h2 := HasDerivAt.fun_sum this
  refine h2.congr_deriv ?_
  rw [mul_sum]
  apply sum_congr rfl; intro i _
  rw [mul_sum]

theorem hasDerivAt_gen_y (K : Co) (x y : ℝ) :
    HasDerivAt (fun y => gen K x y) (Real.pi * gen (dyOp K) x y) y := by
  unfold gen
  have : ∀ i ∈ range 7, HasDerivAt (fun y => ∑ j ∈ range 7,
      (K.a i j * sn i x * sn j y + K.b i j * cs i x * cs j y + K.c i j * cs i x * sn j y + K.d i j * sn i x * cs j y))
      (∑ j ∈ range 7, Real.pi * ((dyOp K).a i j * sn i x * sn j y + (dyOp K).b i j * cs i x * cs j y
        + (dyOp K).c i j * cs i x * sn j y + (dyOp K).d i j * sn i x * cs j y)) y := by
    intro i _
    apply HasDerivAt.fun_sum
    intro j _
    have hs := hasDerivAt_sn j y
    have hc := hasDerivAt_cs j y
    have := ((((hs.const_mul (K.a i j * sn i x))).fun_add ((hc.const_mul (K.b i j * cs i x)))).fun_add
      ((hs.const_mul (K.c i j * cs i x)))).fun_add ((hc.const_mul (K.d i j * sn i x)))
    refine this.congr_deriv ?_
    simp only [dyOp]; ring
  have h2 := HasDerivAt.fun_sum this
  refine h2.congr_deriv ?_
  rw [mul_sum]
  apply sum_congr rfl; intro i _
  rw [mul_sum]

/-- `Σ (i+1)^p (j+1)^q (|a| + |b| + |c| + |d|)` -/
noncomputable def nw (p q : ℕ) (K : Co) : ℝ :=
  ∑ i ∈ range 7, ∑ j ∈ range 7,
    ((i + 1 : ℕ) : ℝ) ^ p * ((j + 1 : ℕ) : ℝ) ^ q * (|K.a i j| + |K.b i j| + |K.c i j| + |K.d i j|)

theorem nw_dxOp (p q : ℕ) (K : Co) : nw p q (dxOp K) = nw (p + 1) q K := by
  unfold nw
  apply sum_congr rfl; intro i _
  apply sum_congr rfl; intro j _
  have h : |((i + 1 : ℕ) : ℝ)| = ((i + 1 : ℕ) : ℝ) := abs_of_nonneg (Nat.cast_nonneg _)
  simp only [dxOp, abs_neg, abs_mul, h]
  ring

theorem nw_dyOp (p q : ℕ) (K : Co) : nw p q (dyOp K) = nw p (q + 1) K := by
  unfold nw
  apply sum_congr rfl; intro i _
  apply sum_congr rfl; intro j _
  have h : |((j + 1 : ℕ) : ℝ)| = ((j + 1 : ℕ) : ℝ) := abs_of_nonneg (Nat.cast_nonneg _)
  simp only [dyOp, abs_neg, abs_mul, h]
  ring

theorem abs_sn_le (i : ℕ) (t : ℝ) : |sn i t| ≤ 1 := Real.abs_sin_le_one _
theorem abs_cs_le (i : ℕ) (t : ℝ) : |cs i t| ≤ 1 := Real.abs_cos_le_one _

theorem abs_gen_le (K : Co) (x y : ℝ) : |gen K x y| ≤ nw 0 0 K := by
  unfold gen nw
  refine (abs_sum_le_sum_abs _ _).trans (sum_le_sum fun i _ => ?_)
  refine (abs_sum_le_sum_abs _ _).trans (sum_le_sum fun j _ => ?_)
  have t : ∀ (k u v : ℝ), |u| ≤ 1 → |v| ≤ 1 → |k * u * v| ≤ |k| := by
    intro k u v hu hv
    rw [abs_mul, abs_mul]
    calc |k| * |u| * |v| ≤ |k| * 1 * 1 := by
          apply mul_le_mul (mul_le_mul_of_nonneg_left hu (abs_nonneg _)) hv (abs_nonneg _)
          positivity
      _ = |k| := by ring
  have h1 := t (K.a i j) _ _ (abs_sn_le i x) (abs_sn_le j y)
  have h2 := t (K.b i j) _ _ (abs_cs_le i x) (abs_cs_le j y)
  have h3 := t (K.c i j) _ _ (abs_cs_le i x) (abs_sn_le j y)
  have h4 := t (K.d i j) _ _ (abs_sn_le i x) (abs_cs_le j y)
  have := abs_add_le (K.a i j * sn i x * sn j y + K.b i j * cs i x * cs j y + K.c i j * cs i x * sn j y)
    (K.d i j * sn i x * cs j y)
  have := abs_add_le (K.a i j * sn i x * sn j y + K.b i j * cs i x * cs j y) (K.c i j * cs i x * sn j y)
  have := abs_add_le (K.a i j * sn i x * sn j y) (K.b i j * cs i x * cs j y)
  simp only [pow_zero, one_mul]
  linarith

/-! ## first-order Taylor bounds in one and two variables -/

/-- second-order remainder from a bound on the second derivative -/
theorem taylor2 {f f1 f2 : ℝ → ℝ} {D : ℝ}
    (h0 : ∀ x, HasDerivAt f (f1 x) x) (h1 : ∀ x, HasDerivAt f1 (f2 x) x) (hD : ∀ x, |f2 x| ≤ D) (c x : ℝ) :
    |f1 x - f1 c| ≤ D * |x - c| ∧ |f x - f c - f1 c * (x - c)| ≤ D * |x - c| ^ 2 / 2 := by
  have l1 : ∀ x, |f1 x - f1 c| ≤ D * |x - c| := by
    intro x
    have := Encl.abs_le_of_deriv_bound (h := fun x => f1 x - f1 c) (h' := f2) (c := c) (K := D) (n := 0)
      (fun x => (h1 x).sub_const _) (by simp) (fun x => by simpa using hD x) x
    simpa using this
  refine ⟨l1 x, ?_⟩
  have hd : ∀ x, HasDerivAt (fun x => f x - f c - f1 c * (x - c)) (f1 x - f1 c) x := by
    intro x
    have := ((h0 x).sub_const (f c)).fun_sub ((((hasDerivAt_id' x).sub_const c)).const_mul (f1 c))
    simpa using this
  have := Encl.abs_le_of_deriv_bound (c := c) (K := D) (n := 1) hd (by simp)
    (fun x => by simpa using l1 x) x
  norm_num at this ⊢
  linarith

/-- first-order Taylor bound in two variables from bounds of the second partial derivatives -/
theorem taylor2d {F Fx Fy Fxx Fxy Fyy : ℝ → ℝ → ℝ} {Mxx Mxy Myy : ℝ}
    (hx : ∀ x y, HasDerivAt (fun x => F x y) (Fx x y) x)
    (hxx : ∀ x y, HasDerivAt (fun x => Fx x y) (Fxx x y) x)
    (hy : ∀ x y, HasDerivAt (fun y => F x y) (Fy x y) y)
    (hyy : ∀ x y, HasDerivAt (fun y => Fy x y) (Fyy x y) y)
    (hxy : ∀ x y, HasDerivAt (fun y => Fx x y) (Fxy x y) y)
    (bxx : ∀ x y, |Fxx x y| ≤ Mxx) (bxy : ∀ x y, |Fxy x y| ≤ Mxy) (byy : ∀ x y, |Fyy x y| ≤ Myy)
    (a b x y : ℝ) :
    |F x y - F a b - Fx a b * (x - a) - Fy a b * (y - b)|
      ≤ Mxx * |x - a| ^ 2 / 2 + Mxy * |x - a| * |y - b| + Myy * |y - b| ^ 2 / 2 := by
  have t1 := (taylor2 (f := fun x => F x y) (f1 := fun x => Fx x y) (f2 := fun x => Fxx x y)
    (fun x => hx x y) (fun x => hxx x y) (fun x => bxx x y) a x).2
  have t2 := (taylor2 (f := fun y => F a y) (f1 := fun y => Fy a y) (f2 := fun y => Fyy a y)
    (fun y => hy a y) (fun y => hyy a y) (fun y => byy a y) b y).2
  -- mixed term: `|Fx a y - Fx a b| ≤ Mxy |y - b|`
  have t3 : |Fx a y - Fx a b| ≤ Mxy * |y - b| := by
    have := Encl.abs_le_of_deriv_bound (h := fun y => Fx a y - Fx a b) (h' := fun y => Fxy a y) (c := b)
      (K := Mxy) (n := 0) (fun y => (hxy a y).sub_const _) (by simp) (fun y => by simpa using bxy a y) y
    simpa using this
  have t3' : |(Fx a y - Fx a b) * (x - a)| ≤ Mxy * |x - a| * |y - b| := by
    rw [abs_mul]
    have := mul_le_mul_of_nonneg_right t3 (abs_nonneg (x - a))
    linarith
  have e : F x y - F a b - Fx a b * (x - a) - Fy a b * (y - b)
      = (F x y - F a y - Fx a y * (x - a)) + (Fx a y - Fx a b) * (x - a)
        + (F a y - F a b - Fy a b * (y - b)) := by ring
  rw [e]
  refine (abs_add_le _ _).trans ?_
  refine (add_le_add (abs_add_le _ _) le_rfl).trans ?_
  linarith

/-- `½ Σ ((i+1) + (j+1))² (|a| + |b| + |c| + |d|)`: bound of the first-order remainder on a square of
half-width `h`, divided by `π² h²` -/
noncomputable def wq (K : Co) : ℝ := (nw 2 0 K + 2 * nw 1 1 K + nw 0 2 K) / 2

theorem nw_nonneg (p q : ℕ) (K : Co) : 0 ≤ nw p q K := by
  unfold nw
  apply sum_nonneg; intro i _
  apply sum_nonneg; intro j _
  positivity

/-- first-order model of `gen K` on the square `|x - a| ≤ h`, `|y - b| ≤ h` -/
theorem gen_taylor (K : Co) {a b x y h : ℝ} (hxa : |x - a| ≤ h) (hyb : |y - b| ≤ h) :
    |gen K x y - gen K a b - Real.pi * gen (dxOp K) a b * (x - a) - Real.pi * gen (dyOp K) a b * (y - b)|
      ≤ Real.pi ^ 2 * wq K * h ^ 2 := by
  have hp : 0 ≤ Real.pi ^ 2 := by positivity
  have key := taylor2d (F := gen K) (Fx := fun x y => Real.pi * gen (dxOp K) x y)
    (Fy := fun x y => Real.pi * gen (dyOp K) x y)
    (Fxx := fun x y => Real.pi * (Real.pi * gen (dxOp (dxOp K)) x y))
    (Fxy := fun x y => Real.pi * (Real.pi * gen (dyOp (dxOp K)) x y))
    (Fyy := fun x y => Real.pi * (Real.pi * gen (dyOp (dyOp K)) x y))
    (Mxx := Real.pi ^ 2 * nw 2 0 K) (Mxy := Real.pi ^ 2 * nw 1 1 K) (Myy := Real.pi ^ 2 * nw 0 2 K)
    (fun x y => hasDerivAt_gen_x K x y)
    (fun x y => (hasDerivAt_gen_x (dxOp K) x y).const_mul Real.pi)
    (fun x y => hasDerivAt_gen_y K x y)
    (fun x y => (hasDerivAt_gen_y (dyOp K) x y).const_mul Real.pi)
    (fun x y => (hasDerivAt_gen_y (dxOp K) x y).const_mul Real.pi)
    (fun x y => by
      rw [← mul_assoc, ← pow_two, abs_mul, abs_of_nonneg hp]
      refine mul_le_mul_of_nonneg_left ?_ hp
      refine (abs_gen_le _ _ _).trans (le_of_eq ?_)
      rw [nw_dxOp, nw_dxOp])
    (fun x y => by
      rw [← mul_assoc, ← pow_two, abs_mul, abs_of_nonneg hp]
      refine mul_le_mul_of_nonneg_left ?_ hp
      refine (abs_gen_le _ _ _).trans (le_of_eq ?_)
      rw [nw_dyOp, nw_dxOp])
    (fun x y => by
      rw [← mul_assoc, ← pow_two, abs_mul, abs_of_nonneg hp]
      refine mul_le_mul_of_nonneg_left ?_ hp
      refine (abs_gen_le _ _ _).trans (le_of_eq ?_)
      rw [nw_dyOp, nw_dyOp])
    a b x y
  refine key.trans ?_
  have h0 : 0 ≤ h := (abs_nonneg _).trans hxa
  have n1 := nw_nonneg 2 0 K
  have n2 := nw_nonneg 1 1 K
  have n3 := nw_nonneg 0 2 K
  have s1 : |x - a| ^ 2 ≤ h ^ 2 := pow_le_pow_left₀ (abs_nonneg _) hxa 2
  have s2 : |y - b| ^ 2 ≤ h ^ 2 := pow_le_pow_left₀ (abs_nonneg _) hyb 2
  have s3 : |x - a| * |y - b| ≤ h * h := mul_le_mul hxa hyb (abs_nonneg _) h0
  have e : Real.pi ^ 2 * wq K * h ^ 2
      = Real.pi ^ 2 * nw 2 0 K * h ^ 2 / 2 + Real.pi ^ 2 * nw 1 1 K * (h * h) + Real.pi ^ 2 * nw 0 2 K * h ^ 2 / 2 := by
    unfold wq; ring
  rw [e]
  have u1 := mul_le_mul_of_nonneg_left s1 (mul_nonneg hp n1)
  have u2 := mul_le_mul_of_nonneg_left s2 (mul_nonneg hp n3)
  have u3 := mul_le_mul_of_nonneg_left s3 (mul_nonneg hp n2)
  have e3 : Real.pi ^ 2 * nw 1 1 K * |x - a| * |y - b| = Real.pi ^ 2 * nw 1 1 K * (|x - a| * |y - b|) := by ring
  rw [e3]
  linarith

/-! ## the bound of `d1² + d2²` on a square from first-order models of `d1`, `d2` -/

theorem S_bound {d1 d2 A1 A2 gx1 gy1 gx2 gy2 r1 r2 δx δy h P Q : ℝ} (hP : 0 ≤ P) (hPQ : P ≤ Q)
    (h1 : |d1 - A1 - P * gx1 * δx - P * gy1 * δy| ≤ r1)
    (h2 : |d2 - A2 - P * gx2 * δx - P * gy2 * δy| ≤ r2)
    (hx : |δx| ≤ h) (hy : |δy| ≤ h) :
    d1 ^ 2 + d2 ^ 2 ≤ A1 ^ 2 + A2 ^ 2
      + 2 * Q * (|A1 * gx1 + A2 * gx2| + |A1 * gy1 + A2 * gy2|) * h
      + ((Q * (|gx1| + |gy1|) * h + r1) ^ 2 + (Q * (|gx2| + |gy2|) * h + r2) ^ 2
        + 2 * (|A1| * r1 + |A2| * r2)) := by
  have h0 : 0 ≤ h := (abs_nonneg _).trans hx
  have hQ : 0 ≤ Q := hP.trans hPQ
  -- linear parts
  have lin : ∀ (gx gy : ℝ), |P * gx * δx + P * gy * δy| ≤ Q * (|gx| + |gy|) * h := by
    intro gx gy
    refine (abs_add_le _ _).trans ?_
    rw [abs_mul, abs_mul, abs_mul, abs_mul, abs_of_nonneg hP]
    have a1 : P * |gx| * |δx| ≤ Q * |gx| * h :=
      mul_le_mul (mul_le_mul_of_nonneg_right hPQ (abs_nonneg _)) hx (abs_nonneg _) (by positivity)
    have a2 : P * |gy| * |δy| ≤ Q * |gy| * h :=
      mul_le_mul (mul_le_mul_of_nonneg_right hPQ (abs_nonneg _)) hy (abs_nonneg _) (by positivity)
    linarith
  set L1 := P * gx1 * δx + P * gy1 * δy with hL1
  set L2 := P * gx2 * δx + P * gy2 * δy with hL2
  set ρ1 := d1 - A1 - L1 with hρ1
  set ρ2 := d2 - A2 - L2 with hρ2
  have hr1 : |ρ1| ≤ r1 := by rw [hρ1, hL1]; convert h1 using 2; ring
  have hr2 : |ρ2| ≤ r2 := by rw [hρ2, hL2]; convert h2 using 2; ring
  have e1 : d1 = A1 + L1 + ρ1 := by rw [hρ1]; ring
  have e2 : d2 = A2 + L2 + ρ2 := by rw [hρ2]; ring
  have u1 : |L1 + ρ1| ≤ Q * (|gx1| + |gy1|) * h + r1 :=
    (abs_add_le _ _).trans (add_le_add (lin gx1 gy1) hr1)
  have u2 : |L2 + ρ2| ≤ Q * (|gx2| + |gy2|) * h + r2 :=
    (abs_add_le _ _).trans (add_le_add (lin gx2 gy2) hr2)
  have q1 : (L1 + ρ1) ^ 2 ≤ (Q * (|gx1| + |gy1|) * h + r1) ^ 2 := by
    rw [← sq_abs (L1 + ρ1)]; exact pow_le_pow_left₀ (abs_nonneg _) u1 2
  have q2 : (L2 + ρ2) ^ 2 ≤ (Q * (|gx2| + |gy2|) * h + r2) ^ 2 := by
    rw [← sq_abs (L2 + ρ2)]; exact pow_le_pow_left₀ (abs_nonneg _) u2 2
  have c1 : A1 * ρ1 ≤ |A1| * r1 := by
    have := mul_le_mul (le_refl |A1|) hr1 (abs_nonneg _) (abs_nonneg _)
    have := le_abs_self (A1 * ρ1)
    rw [abs_mul] at this; linarith
  have c2 : A2 * ρ2 ≤ |A2| * r2 := by
    have := mul_le_mul (le_refl |A2|) hr2 (abs_nonneg _) (abs_nonneg _)
    have := le_abs_self (A2 * ρ2)
    rw [abs_mul] at this; linarith
  -- the gradient term
  have g : A1 * L1 + A2 * L2
      ≤ Q * (|A1 * gx1 + A2 * gx2| + |A1 * gy1 + A2 * gy2|) * h := by
    have e : A1 * L1 + A2 * L2 = P * (A1 * gx1 + A2 * gx2) * δx + P * (A1 * gy1 + A2 * gy2) * δy := by
      rw [hL1, hL2]; ring
    rw [e]
    exact (le_abs_self _).trans (lin _ _)
  have expand : d1 ^ 2 + d2 ^ 2 = A1 ^ 2 + A2 ^ 2 + 2 * (A1 * L1 + A2 * L2)
      + ((L1 + ρ1) ^ 2 + (L2 + ρ2) ^ 2 + 2 * (A1 * ρ1 + A2 * ρ2)) := by
    rw [e1, e2]; ring
  rw [expand]
  linarith

/-! ## evaluation with perturbed trigonometric values -/

/-- `gen` with arbitrary values in place of `sin (i+1)πx`, `cos (i+1)πx`, `sin (j+1)πy`, `cos (j+1)πy` -/
noncomputable def genV (K : Co) (sx cx sy cy : ℕ → ℝ) : ℝ :=
  ∑ i ∈ range 7, ∑ j ∈ range 7,
    (K.a i j * sx i * sy j + K.b i j * cx i * cy j + K.c i j * cx i * sy j + K.d i j * sx i * cy j)

theorem gen_eq_genV (K : Co) (x y : ℝ) :
    gen K x y = genV K (fun i => sn i x) (fun i => cs i x) (fun j => sn j y) (fun j => cs j y) := rfl

theorem prod_err {u v u' v' E : ℝ} (hu : |u| ≤ 1) (hv : |v| ≤ 1) (du : |u - u'| ≤ E) (dv : |v - v'| ≤ E) :
    |u * v - u' * v'| ≤ 2 * E + E ^ 2 := by
  have hE : 0 ≤ E := (abs_nonneg _).trans du
  have e : u * v - u' * v' = u * (v - v') + v * (u - u') - (u - u') * (v - v') := by ring
  rw [e]
  refine (abs_sub _ _).trans ?_
  refine (add_le_add (abs_add_le _ _) le_rfl).trans ?_
  rw [abs_mul, abs_mul, abs_mul]
  have a1 : |u| * |v - v'| ≤ 1 * E := mul_le_mul hu dv (abs_nonneg _) zero_le_one
  have a2 : |v| * |u - u'| ≤ 1 * E := mul_le_mul hv du (abs_nonneg _) zero_le_one
  have a3 : |u - u'| * |v - v'| ≤ E * E := mul_le_mul du dv (abs_nonneg _) hE
  nlinarith

/-- perturbing every trigonometric value by at most `E` changes `gen` by at most `(2E + E²) Σ|coefficients|` -/
theorem gen_sub_genV_le (K : Co) (x y : ℝ) {sx cx sy cy : ℕ → ℝ} {E : ℝ}
    (h1 : ∀ i < 7, |sn i x - sx i| ≤ E) (h2 : ∀ i < 7, |cs i x - cx i| ≤ E)
    (h3 : ∀ i < 7, |sn i y - sy i| ≤ E) (h4 : ∀ i < 7, |cs i y - cy i| ≤ E) :
    |gen K x y - genV K sx cx sy cy| ≤ (2 * E + E ^ 2) * nw 0 0 K := by
  unfold gen genV nw
  rw [← sum_sub_distrib, mul_sum]
  refine (abs_sum_le_sum_abs _ _).trans (sum_le_sum fun i hi => ?_)
  rw [← sum_sub_distrib, mul_sum]
  refine (abs_sum_le_sum_abs _ _).trans (sum_le_sum fun j hj => ?_)
  have hi' := mem_range.mp hi
  have hj' := mem_range.mp hj
  have p1 := prod_err (abs_sn_le i x) (abs_sn_le j y) (h1 i hi') (h3 j hj')
  have p2 := prod_err (abs_cs_le i x) (abs_cs_le j y) (h2 i hi') (h4 j hj')
  have p3 := prod_err (abs_cs_le i x) (abs_sn_le j y) (h2 i hi') (h3 j hj')
  have p4 := prod_err (abs_sn_le i x) (abs_cs_le j y) (h1 i hi') (h4 j hj')
  have e : K.a i j * sn i x * sn j y + K.b i j * cs i x * cs j y + K.c i j * cs i x * sn j y + K.d i j * sn i x * cs j y
      - (K.a i j * sx i * sy j + K.b i j * cx i * cy j + K.c i j * cx i * sy j + K.d i j * sx i * cy j)
      = K.a i j * (sn i x * sn j y - sx i * sy j) + K.b i j * (cs i x * cs j y - cx i * cy j)
        + K.c i j * (cs i x * sn j y - cx i * sy j) + K.d i j * (sn i x * cs j y - sx i * cy j) := by ring
  rw [e]
  have t : ∀ (k w : ℝ), |w| ≤ 2 * E + E ^ 2 → |k * w| ≤ |k| * (2 * E + E ^ 2) := by
    intro k w hw; rw [abs_mul]; exact mul_le_mul_of_nonneg_left hw (abs_nonneg _)
  have q1 := t (K.a i j) _ p1
  have q2 := t (K.b i j) _ p2
  have q3 := t (K.c i j) _ p3
  have q4 := t (K.d i j) _ p4
  have := abs_add_le (K.a i j * (sn i x * sn j y - sx i * sy j) + K.b i j * (cs i x * cs j y - cx i * cy j)
        + K.c i j * (cs i x * sn j y - cx i * sy j)) (K.d i j * (sn i x * cs j y - sx i * cy j))
  have := abs_add_le (K.a i j * (sn i x * sn j y - sx i * sy j) + K.b i j * (cs i x * cs j y - cx i * cy j))
    (K.c i j * (cs i x * sn j y - cx i * sy j))
  have := abs_add_le (K.a i j * (sn i x * sn j y - sx i * sy j)) (K.b i j * (cs i x * cs j y - cx i * cy j))
  simp only [pow_zero, one_mul]
  nlinarith
