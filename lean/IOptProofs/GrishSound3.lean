import IOptProofs.GrishSound2
import IOptProofs.EnclTrigReal
/-!
# Grishagin checker, soundness part 3: the leaf bound `supS`
-/

namespace Grish
open Encl Finset

theorem tsub_parts (a b : ℕ) :
    ((Nat.sub a b : ℕ) : ℝ) - ((Nat.sub b a : ℕ) : ℝ) = (a : ℝ) - b ∧
    ((Nat.sub a b : ℕ) : ℝ) + ((Nat.sub b a : ℕ) : ℝ) = |(a : ℝ) - b| := by
  simp only [Nat.sub_eq]
  rcases le_total a b with h | h
  · have h' : (a : ℝ) ≤ b := by exact_mod_cast h
    rw [Nat.sub_eq_zero_of_le h, Nat.cast_sub h, abs_of_nonpos (by linarith)]
    constructor <;> simp
  · have h' : (b : ℝ) ≤ a := by exact_mod_cast h
    rw [Nat.sub_eq_zero_of_le h, Nat.cast_sub h, abs_of_nonneg (by linarith)]
    constructor <;> simp

theorem adiff_cast (a b : ℕ) : ((adiff a b : ℕ) : ℝ) = |(a : ℝ) - b| := by
  unfold adiff
  rw [Nat.add_eq, Nat.cast_add]
  exact (tsub_parts a b).2

theorem PH_cast : (PH : ℝ) = 3294199 := by norm_num [PH]
theorem E0T_cast : (E0T : ℝ) = 2 ^ 137 := by norm_num [E0T]

/-- the value of `supS` as a real expression of its integer inputs -/
theorem supS_cast (w1 w2 lam pa1 na1 px1 nx1 py1 ny1 pa2 na2 px2 nx2 py2 ny2 : ℕ) :
    ((supS w1 w2 lam pa1 na1 px1 nx1 py1 ny1 pa2 na2 px2 nx2 py2 ny2 : ℕ) : ℝ)
      = (((pa1 : ℝ) + na1) ^ 2 + ((pa2 : ℝ) + na2) ^ 2) * 2 ^ (4 * lam + 80)
        + 2 * 3294199 * (|((pa1 : ℝ) - na1) * ((px1 : ℝ) - nx1) + ((pa2 : ℝ) - na2) * ((px2 : ℝ) - nx2)|
            + |((pa1 : ℝ) - na1) * ((py1 : ℝ) - ny1) + ((pa2 : ℝ) - na2) * ((py2 : ℝ) - ny2)|) * 2 ^ (3 * lam + 60)
        + ((3294199 * ((px1 : ℝ) + nx1 + (py1 + ny1)) * 2 ^ (lam + 20)
              + (3294199 ^ 2 * w1 + 2 ^ 137 * 2 ^ (2 * lam + 40))) ^ 2
          + (3294199 * ((px2 : ℝ) + nx2 + (py2 + ny2)) * 2 ^ (lam + 20)
              + (3294199 ^ 2 * w2 + 2 ^ 137 * 2 ^ (2 * lam + 40))) ^ 2
          + 2 * (((pa1 : ℝ) + na1) * (3294199 ^ 2 * w1 + 2 ^ 137 * 2 ^ (2 * lam + 40))
              + ((pa2 : ℝ) + na2) * (3294199 ^ 2 * w2 + 2 ^ 137 * 2 ^ (2 * lam + 40))) * 2 ^ (2 * lam + 40)) := by
  unfold supS
  simp only [Nat.add_eq, Nat.mul_eq]
  push_cast [shl_cast, adiff_cast, PH_cast, E0T_cast]
  have e1 : (2 : ℝ) ^ (2 * (2 * lam + 40)) = 2 ^ (4 * lam + 80) := by congr 1; ring
  rw [e1]
  have a1 : ((pa1 : ℝ) * px1 + na1 * nx1 + (pa2 * px2 + na2 * nx2) - (pa1 * nx1 + na1 * px1 + (pa2 * nx2 + na2 * px2)))
      = ((pa1 : ℝ) - na1) * ((px1 : ℝ) - nx1) + ((pa2 : ℝ) - na2) * ((px2 : ℝ) - nx2) := by ring
  have a2 : ((pa1 : ℝ) * py1 + na1 * ny1 + (pa2 * py2 + na2 * ny2) - (pa1 * ny1 + na1 * py1 + (pa2 * ny2 + na2 * py2)))
      = ((pa1 : ℝ) - na1) * ((py1 : ℝ) - ny1) + ((pa2 : ℝ) - na2) * ((py2 : ℝ) - ny2) := by ring
  rw [a1, a2]
  ring

/-- the bound of `S_bound` -/
noncomputable def RB (Q h A1 A2 gx1 gy1 gx2 gy2 r1 r2 : ℝ) : ℝ :=
  A1 ^ 2 + A2 ^ 2 + 2 * Q * (|A1 * gx1 + A2 * gx2| + |A1 * gy1 + A2 * gy2|) * h
    + ((Q * (|gx1| + |gy1|) * h + r1) ^ 2 + (Q * (|gx2| + |gy2|) * h + r2) ^ 2
      + 2 * (|A1| * r1 + |A2| * r2))

set_option exponentiation.threshold 400 in
/-- `supS` is `2^328 · 2^(4λ+80)` times the real bound, for parts that denote `2^164` times the centre values -/
theorem supS_eq_RB {w1 w2 lam pa1 na1 px1 nx1 py1 ny1 pa2 na2 px2 nx2 py2 ny2 : ℕ}
    {A1 A2 gx1 gy1 gx2 gy2 : ℝ}
    (hA1 : (pa1 : ℝ) - na1 = 2 ^ 164 * A1) (hA1' : (pa1 : ℝ) + na1 = 2 ^ 164 * |A1|)
    (hA2 : (pa2 : ℝ) - na2 = 2 ^ 164 * A2) (hA2' : (pa2 : ℝ) + na2 = 2 ^ 164 * |A2|)
    (hx1 : (px1 : ℝ) - nx1 = 2 ^ 164 * gx1) (hx1' : (px1 : ℝ) + nx1 = 2 ^ 164 * |gx1|)
    (hy1 : (py1 : ℝ) - ny1 = 2 ^ 164 * gy1) (hy1' : (py1 : ℝ) + ny1 = 2 ^ 164 * |gy1|)
    (hx2 : (px2 : ℝ) - nx2 = 2 ^ 164 * gx2) (hx2' : (px2 : ℝ) + nx2 = 2 ^ 164 * |gx2|)
    (hy2 : (py2 : ℝ) - ny2 = 2 ^ 164 * gy2) (hy2' : (py2 : ℝ) + ny2 = 2 ^ 164 * |gy2|) :
    ((supS w1 w2 lam pa1 na1 px1 nx1 py1 ny1 pa2 na2 px2 nx2 py2 ny2 : ℕ) : ℝ)
      = 2 ^ 328 * 2 ^ (4 * lam + 80) *
        RB (3294199 / 2 ^ 20) (1 / 2 ^ lam) A1 A2 gx1 gy1 gx2 gy2
          ((3294199 / 2 ^ 20) ^ 2 * ((w1 : ℝ) / 2 ^ 164) * (1 / 2 ^ lam) ^ 2 + 1 / 2 ^ 27)
          ((3294199 / 2 ^ 20) ^ 2 * ((w2 : ℝ) / 2 ^ 164) * (1 / 2 ^ lam) ^ 2 + 1 / 2 ^ 27) := by
  rw [supS_cast, hA1, hA1', hA2, hA2', hx1, hy1, hx2, hy2]
  have eg1 : (px1 : ℝ) + nx1 + (py1 + ny1) = 2 ^ 164 * (|gx1| + |gy1|) := by rw [hx1', hy1']; ring
  have eg2 : (px2 : ℝ) + nx2 + (py2 + ny2) = 2 ^ 164 * (|gx2| + |gy2|) := by rw [hx2', hy2']; ring
  rw [eg1, eg2]
  have ex : (2 : ℝ) ^ 164 * A1 * (2 ^ 164 * gx1) + 2 ^ 164 * A2 * (2 ^ 164 * gx2)
      = 2 ^ 328 * (A1 * gx1 + A2 * gx2) := by ring
  have ey : (2 : ℝ) ^ 164 * A1 * (2 ^ 164 * gy1) + 2 ^ 164 * A2 * (2 ^ 164 * gy2)
      = 2 ^ 328 * (A1 * gy1 + A2 * gy2) := by ring
  rw [ex, ey, abs_mul, abs_mul, abs_of_pos (by positivity : (0 : ℝ) < 2 ^ 328)]
  have p1 : (2 : ℝ) ^ (4 * lam + 80) = (2 ^ lam) ^ 4 * 2 ^ 80 := by rw [pow_add, mul_comm 4 lam, pow_mul]
  have p2 : (2 : ℝ) ^ (3 * lam + 60) = (2 ^ lam) ^ 3 * 2 ^ 60 := by rw [pow_add, mul_comm 3 lam, pow_mul]
  have p3 : (2 : ℝ) ^ (2 * lam + 40) = (2 ^ lam) ^ 2 * 2 ^ 40 := by rw [pow_add, mul_comm 2 lam, pow_mul]
  have p4 : (2 : ℝ) ^ (lam + 20) = (2 ^ lam) * 2 ^ 20 := by rw [pow_add]
  rw [p1, p2, p3, p4]
  have hH : (0 : ℝ) < 2 ^ lam := by positivity
  generalize (2 : ℝ) ^ lam = H at hH ⊢
  unfold RB
  rw [← sq_abs A1, ← sq_abs A2]
  field_simp

/-! ## the centre enclosure and the leaf bound -/

theorem nw_coAB_le {α β : ℕ → ℕ → ℝ} (ha : ∀ i < 7, ∀ j < 7, |α i j| ≤ 1) (hb : ∀ i < 7, ∀ j < 7, |β i j| ≤ 1)
    (p q : ℕ) :
    nw p q (coAB α β) ≤ ∑ i ∈ range 7, ∑ j ∈ range 7, ((i + 1 : ℕ) : ℝ) ^ p * ((j + 1 : ℕ) : ℝ) ^ q * 2 := by
  unfold nw coAB
  refine sum_le_sum fun i hi => sum_le_sum fun j hj => ?_
  have h1 := ha i (mem_range.mp hi) j (mem_range.mp hj)
  have h2 := hb i (mem_range.mp hi) j (mem_range.mp hj)
  refine mul_le_mul_of_nonneg_left ?_ (by positivity)
  simp only [Pi.zero_apply, abs_zero]
  linarith

theorem nw00_le {α β : ℕ → ℕ → ℝ} (ha : ∀ i < 7, ∀ j < 7, |α i j| ≤ 1) (hb : ∀ i < 7, ∀ j < 7, |β i j| ≤ 1) :
    nw 0 0 (coAB α β) ≤ 98 := by
  refine (nw_coAB_le ha hb 0 0).trans ?_
  simp only [sum_range_succ, sum_range_zero]; norm_num

theorem nw10_le {α β : ℕ → ℕ → ℝ} (ha : ∀ i < 7, ∀ j < 7, |α i j| ≤ 1) (hb : ∀ i < 7, ∀ j < 7, |β i j| ≤ 1) :
    nw 1 0 (coAB α β) ≤ 392 := by
  refine (nw_coAB_le ha hb 1 0).trans ?_
  simp only [sum_range_succ, sum_range_zero]; norm_num

theorem nw01_le {α β : ℕ → ℕ → ℝ} (ha : ∀ i < 7, ∀ j < 7, |α i j| ≤ 1) (hb : ∀ i < 7, ∀ j < 7, |β i j| ≤ 1) :
    nw 0 1 (coAB α β) ≤ 392 := by
  refine (nw_coAB_le ha hb 0 1).trans ?_
  simp only [sum_range_succ, sum_range_zero]; norm_num

/-- the fixed-point data of a dyadic point of `[0,1]` -/
theorem trigs_ok {num k : ℕ} (h : num ≤ 2 ^ k) :
    TDok (trigs num k) ∧
    (∀ i < 7, |sn i (num / 2 ^ k) - sH (trigs num k) i| ≤ 1 / 2 ^ 42) ∧
    (∀ i < 7, |cs i (num / 2 ^ k) - cH (trigs num k) i| ≤ 1 / 2 ^ 42) := by
  have key := fun i hi => trigs_spec h i hi
  refine ⟨fun i hi => ?_, fun i hi => (key i hi).1, fun i hi => (key i hi).2⟩
  obtain ⟨k1, k2⟩ := key i hi
  have s1 := abs_sn_le i ((num : ℝ) / 2 ^ k)
  have c1 := abs_cs_le i ((num : ℝ) / 2 ^ k)
  have e : (1 : ℝ) / 2 ^ 42 ≤ 1 / 4 := by norm_num
  constructor
  · have : |sH (trigs num k) i| ≤ |sn i (num / 2 ^ k)| + |sn i (num / 2 ^ k) - sH (trigs num k) i| := by
      have := abs_sub_abs_le_abs_sub (sH (trigs num k) i) (sn i (num / 2 ^ k))
      rw [abs_sub_comm] at this; linarith
    unfold sH at this ⊢; linarith
  · have : |cH (trigs num k) i| ≤ |cs i (num / 2 ^ k)| + |cs i (num / 2 ^ k) - cH (trigs num k) i| := by
      have := abs_sub_abs_le_abs_sub (cH (trigs num k) i) (cs i (num / 2 ^ k))
      rw [abs_sub_comm] at this; linarith
    unfold cH at this ⊢; linarith

/-- enclosure of the value and of the gradient (divided by `π`) at a dyadic point `(a, b)` -/
theorem centre_spec {α β : ℕ → ℕ → ℝ} (ha : ∀ i < 7, ∀ j < 7, |α i j| ≤ 1) (hb : ∀ i < 7, ∀ j < 7, |β i j| ≤ 1)
    {nx kx ny ky : ℕ} (hx : nx ≤ 2 ^ kx) (hy : ny ≤ 2 ^ ky) :
    |gen (coAB α β) (nx / 2 ^ kx) (ny / 2 ^ ky)
        - genV (coAB α β) (sH (trigs nx kx)) (cH (trigs nx kx)) (sH (trigs ny ky)) (cH (trigs ny ky))| ≤ 1 / 2 ^ 34 ∧
    |gen (dxOp (coAB α β)) (nx / 2 ^ kx) (ny / 2 ^ ky)
        - genV (dxOp (coAB α β)) (sH (trigs nx kx)) (cH (trigs nx kx)) (sH (trigs ny ky)) (cH (trigs ny ky))| ≤ 1 / 2 ^ 32 ∧
    |gen (dyOp (coAB α β)) (nx / 2 ^ kx) (ny / 2 ^ ky)
        - genV (dyOp (coAB α β)) (sH (trigs nx kx)) (cH (trigs nx kx)) (sH (trigs ny ky)) (cH (trigs ny ky))| ≤ 1 / 2 ^ 32 := by
  obtain ⟨_, xs1, xc1⟩ := trigs_ok hx
  obtain ⟨_, ys1, yc1⟩ := trigs_ok hy
  have e0 := gen_sub_genV_le (coAB α β) _ _ xs1 xc1 ys1 yc1
  have e1 := gen_sub_genV_le (dxOp (coAB α β)) _ _ xs1 xc1 ys1 yc1
  have e2 := gen_sub_genV_le (dyOp (coAB α β)) _ _ xs1 xc1 ys1 yc1
  rw [nw_dxOp] at e1
  rw [nw_dyOp] at e2
  have n0 := nw00_le ha hb
  have n1 := nw10_le ha hb
  have n2 := nw01_le ha hb
  have hε : (0 : ℝ) ≤ 2 * (1 / 2 ^ 42) + (1 / 2 ^ 42) ^ 2 := by positivity
  refine ⟨e0.trans ?_, e1.trans ?_, e2.trans ?_⟩
  · calc (2 * (1 / 2 ^ 42) + (1 / 2 ^ 42) ^ 2) * nw 0 0 (coAB α β)
        ≤ (2 * (1 / 2 ^ 42) + (1 / 2 ^ 42) ^ 2) * 98 := mul_le_mul_of_nonneg_left n0 hε
      _ ≤ 1 / 2 ^ 34 := by norm_num
  · calc (2 * (1 / 2 ^ 42) + (1 / 2 ^ 42) ^ 2) * nw (0 + 1) 0 (coAB α β)
        ≤ (2 * (1 / 2 ^ 42) + (1 / 2 ^ 42) ^ 2) * 392 := mul_le_mul_of_nonneg_left n1 hε
      _ ≤ 1 / 2 ^ 32 := by norm_num
  · calc (2 * (1 / 2 ^ 42) + (1 / 2 ^ 42) ^ 2) * nw 0 (0 + 1) (coAB α β)
        ≤ (2 * (1 / 2 ^ 42) + (1 / 2 ^ 42) ^ 2) * 392 := mul_le_mul_of_nonneg_left n2 hε
      _ ≤ 1 / 2 ^ 32 := by norm_num

theorem wq_nonneg (K : Co) : 0 ≤ wq K := by
  unfold wq
  have := nw_nonneg 2 0 K
  have := nw_nonneg 1 1 K
  have := nw_nonneg 0 2 K
  positivity

/-- `π ≤ PH / 2^20` -/
theorem pi_le_PH : Real.pi ≤ 3294199 / 2 ^ 20 := by
  have := Real.pi_lt_d20
  norm_num at this ⊢; linarith

/-- the affine model of `d` around a dyadic centre `(a, b)`, with the computed (fixed-point) coefficients -/
theorem affine_model {α β : ℕ → ℕ → ℝ} (ha : ∀ i < 7, ∀ j < 7, |α i j| ≤ 1) (hb : ∀ i < 7, ∀ j < 7, |β i j| ≤ 1)
    {nx kx ny ky : ℕ} (hx : nx ≤ 2 ^ kx) (hy : ny ≤ 2 ^ ky) {x y h W : ℝ}
    (hxa : |x - nx / 2 ^ kx| ≤ h) (hyb : |y - ny / 2 ^ ky| ≤ h) (hh : h ≤ 1 / 2) (hW : wq (coAB α β) ≤ W) :
    |gen (coAB α β) x y
        - genV (coAB α β) (sH (trigs nx kx)) (cH (trigs nx kx)) (sH (trigs ny ky)) (cH (trigs ny ky))
        - Real.pi * genV (dxOp (coAB α β)) (sH (trigs nx kx)) (cH (trigs nx kx)) (sH (trigs ny ky)) (cH (trigs ny ky))
            * (x - nx / 2 ^ kx)
        - Real.pi * genV (dyOp (coAB α β)) (sH (trigs nx kx)) (cH (trigs nx kx)) (sH (trigs ny ky)) (cH (trigs ny ky))
            * (y - ny / 2 ^ ky)|
      ≤ (3294199 / 2 ^ 20) ^ 2 * W * h ^ 2 + 1 / 2 ^ 27 := by
  obtain ⟨c0, c1, c2⟩ := centre_spec ha hb hx hy
  have t := gen_taylor (coAB α β) hxa hyb
  set a : ℝ := nx / 2 ^ kx
  set b : ℝ := ny / 2 ^ ky
  set A := gen (coAB α β) a b
  set Gx := gen (dxOp (coAB α β)) a b
  set Gy := gen (dyOp (coAB α β)) a b
  set Ah := genV (coAB α β) (sH (trigs nx kx)) (cH (trigs nx kx)) (sH (trigs ny ky)) (cH (trigs ny ky))
  set Gxh := genV (dxOp (coAB α β)) (sH (trigs nx kx)) (cH (trigs nx kx)) (sH (trigs ny ky)) (cH (trigs ny ky))
  set Gyh := genV (dyOp (coAB α β)) (sH (trigs nx kx)) (cH (trigs nx kx)) (sH (trigs ny ky)) (cH (trigs ny ky))
  have h0 : 0 ≤ h := (abs_nonneg _).trans hxa
  have hpi : 0 ≤ Real.pi := Real.pi_pos.le
  have hpi4 : Real.pi ≤ 4 := Real.pi_le_four
  have e : gen (coAB α β) x y - Ah - Real.pi * Gxh * (x - a) - Real.pi * Gyh * (y - b)
      = (gen (coAB α β) x y - A - Real.pi * Gx * (x - a) - Real.pi * Gy * (y - b))
        + (A - Ah) + Real.pi * ((Gx - Gxh) * (x - a)) + Real.pi * ((Gy - Gyh) * (y - b)) := by ring
  rw [e]
  have b1 : |Real.pi * ((Gx - Gxh) * (x - a))| ≤ 4 * (1 / 2 ^ 32 * (1 / 2)) := by
    rw [abs_mul, abs_mul, abs_of_nonneg hpi]
    exact mul_le_mul hpi4 (mul_le_mul c1 (hxa.trans hh) (abs_nonneg _) (by positivity))
      (by positivity) (by norm_num)
  have b2 : |Real.pi * ((Gy - Gyh) * (y - b))| ≤ 4 * (1 / 2 ^ 32 * (1 / 2)) := by
    rw [abs_mul, abs_mul, abs_of_nonneg hpi]
    exact mul_le_mul hpi4 (mul_le_mul c2 (hyb.trans hh) (abs_nonneg _) (by positivity))
      (by positivity) (by norm_num)
  have b3 : Real.pi ^ 2 * wq (coAB α β) * h ^ 2 ≤ (3294199 / 2 ^ 20) ^ 2 * W * h ^ 2 := by
    have q : Real.pi ^ 2 ≤ (3294199 / 2 ^ 20) ^ 2 := pow_le_pow_left₀ hpi pi_le_PH 2
    exact mul_le_mul_of_nonneg_right (mul_le_mul q hW (wq_nonneg _) (by positivity)) (by positivity)
  have tri := abs_add_le ((gen (coAB α β) x y - A - Real.pi * Gx * (x - a) - Real.pi * Gy * (y - b))
        + (A - Ah) + Real.pi * ((Gx - Gxh) * (x - a))) (Real.pi * ((Gy - Gyh) * (y - b)))
  have tri2 := abs_add_le ((gen (coAB α β) x y - A - Real.pi * Gx * (x - a) - Real.pi * Gy * (y - b))
        + (A - Ah)) (Real.pi * ((Gx - Gxh) * (x - a)))
  have tri3 := abs_add_le (gen (coAB α β) x y - A - Real.pi * Gx * (x - a) - Real.pi * Gy * (y - b)) (A - Ah)
  have : (1 : ℝ) / 2 ^ 34 + 4 * (1 / 2 ^ 32 * (1 / 2)) + 4 * (1 / 2 ^ 32 * (1 / 2)) ≤ 1 / 2 ^ 27 := by norm_num
  linarith

theorem parts_of {vp vn : ℕ} {A : ℝ} (h : (vp : ℝ) - vn = 2 ^ 164 * A) :
    ((Nat.sub vp vn : ℕ) : ℝ) - ((Nat.sub vn vp : ℕ) : ℝ) = 2 ^ 164 * A ∧
    ((Nat.sub vp vn : ℕ) : ℝ) + ((Nat.sub vn vp : ℕ) : ℝ) = 2 ^ 164 * |A| := by
  obtain ⟨t1, t2⟩ := tsub_parts vp vn
  refine ⟨t1.trans h, ?_⟩
  rw [t2, h, abs_mul, abs_of_pos (by positivity : (0 : ℝ) < 2 ^ 164)]

/-- the per-function constants represent the real coefficient matrices -/
structure CtxRep (ctx : Ctx) (α1 β1 α2 β2 : ℕ → ℕ → ℝ) : Prop where
  m1 : MatRep ctx.m1 α1 β1
  m2 : MatRep ctx.m2 α2 β2
  w1 : wq (coAB α1 β1) ≤ (ctx.w1 : ℝ) / 2 ^ 164
  w2 : wq (coAB α2 β2) ≤ (ctx.w2 : ℝ) / 2 ^ 164

/-- `d1² + d2²` on the dyadic square (`S` in the module documentation of `GrishDefs`) -/
noncomputable def SS (α1 β1 α2 β2 : ℕ → ℕ → ℝ) (x y : ℝ) : ℝ :=
  gen (coAB α1 β1) x y ^ 2 + gen (coAB α2 β2) x y ^ 2

theorem centre_dist {lev n : ℕ} {x : ℝ} (h1 : (n : ℝ) / 2 ^ lev ≤ x) (h2 : x ≤ ((n : ℝ) + 1) / 2 ^ lev) :
    |x - ((Nat.add (Nat.mul 2 n) 1 : ℕ) : ℝ) / 2 ^ (Nat.add lev 1)| ≤ 1 / 2 ^ (Nat.add lev 1) := by
  have hp : (0 : ℝ) < 2 ^ lev := by positivity
  have e : (2 : ℝ) ^ (Nat.add lev 1) = 2 ^ lev * 2 := by
    show (2 : ℝ) ^ (lev + 1) = _
    rw [pow_succ]
  have c : ((Nat.add (Nat.mul 2 n) 1 : ℕ) : ℝ) = 2 * n + 1 := by
    show ((2 * n + 1 : ℕ) : ℝ) = _
    push_cast; ring
  rw [e, c]
  rw [div_le_iff₀ hp] at h1
  rw [le_div_iff₀ hp] at h2
  have e2 : x - (2 * (n : ℝ) + 1) / (2 ^ lev * 2) = (2 * (x * 2 ^ lev) - (2 * n + 1)) / (2 ^ lev * 2) := by
    field_simp
  rw [e2, abs_div, abs_of_pos (by positivity : (0 : ℝ) < 2 ^ lev * 2),
    div_le_div_iff_of_pos_right (by positivity), abs_le]
  constructor <;> linarith

/-- **soundness of the leaf bound** -/
theorem leafSup_sound {ctx : Ctx} {α1 β1 α2 β2 : ℕ → ℕ → ℝ} (hc : CtxRep ctx α1 β1 α2 β2)
    {lev nx ny : ℕ} (hnx : nx < 2 ^ lev) (hny : ny < 2 ^ lev) {x y : ℝ}
    (hx1 : (nx : ℝ) / 2 ^ lev ≤ x) (hx2 : x ≤ ((nx : ℝ) + 1) / 2 ^ lev)
    (hy1 : (ny : ℝ) / 2 ^ lev ≤ y) (hy2 : y ≤ ((ny : ℝ) + 1) / 2 ^ lev) :
    SS α1 β1 α2 β2 x y * (2 ^ 328 * 2 ^ (4 * (Nat.add lev 1) + 80)) ≤ (leafSup ctx lev nx ny : ℝ) := by
  have hkx : Nat.add (Nat.mul 2 nx) 1 ≤ 2 ^ (Nat.add lev 1) := by
    show 2 * nx + 1 ≤ 2 ^ (lev + 1)
    rw [pow_succ]; omega
  have hky : Nat.add (Nat.mul 2 ny) 1 ≤ 2 ^ (Nat.add lev 1) := by
    show 2 * ny + 1 ≤ 2 ^ (lev + 1)
    rw [pow_succ]; omega
  have dx := centre_dist hx1 hx2
  have dy := centre_dist hy1 hy2
  have hh : (1 : ℝ) / 2 ^ (Nat.add lev 1) ≤ 1 / 2 := by
    show (1 : ℝ) / 2 ^ (lev + 1) ≤ 1 / 2
    rw [pow_succ]
    have : (1 : ℝ) ≤ 2 ^ lev := one_le_pow₀ (by norm_num)
    rw [div_le_div_iff₀ (by positivity) (by norm_num)]
    linarith
  have am1 := affine_model hc.m1.ha hc.m1.hb hkx hky dx dy hh hc.w1
  have am2 := affine_model hc.m2.ha hc.m2.hb hkx hky dx dy hh hc.w2
  have sb := S_bound Real.pi_pos.le pi_le_PH am1 am2 dx dy
  obtain ⟨tyok, _, _⟩ := trigs_ok hky
  set xs := trigs (Nat.add (Nat.mul 2 nx) 1) (Nat.add lev 1) with hxs
  set ty := trigs (Nat.add (Nat.mul 2 ny) 1) (Nat.add lev 1) with hty
  obtain ⟨a1, a1'⟩ := parts_of (val_spec hc.m1 tyok xs)
  obtain ⟨a2, a2'⟩ := parts_of (val_spec hc.m2 tyok xs)
  obtain ⟨x1, x1'⟩ := parts_of (gx_spec hc.m1 tyok xs)
  obtain ⟨x2, x2'⟩ := parts_of (gx_spec hc.m2 tyok xs)
  obtain ⟨y1, y1'⟩ := parts_of (gy_spec hc.m1 tyok xs)
  obtain ⟨y2, y2'⟩ := parts_of (gy_spec hc.m2 tyok xs)
  have key := supS_eq_RB (w1 := ctx.w1) (w2 := ctx.w2) (lam := Nat.add lev 1)
    a1 a1' a2 a2' x1 x1' y1 y1' x2 x2' y2 y2'
  have e : leafSup ctx lev nx ny = supS ctx.w1 ctx.w2 (Nat.add lev 1)
      (Nat.sub (valPos (yStage ctx.m1 ty) xs) (valNeg (yStage ctx.m1 ty) xs))
      (Nat.sub (valNeg (yStage ctx.m1 ty) xs) (valPos (yStage ctx.m1 ty) xs))
      (Nat.sub (gxPos (yStage ctx.m1 ty) xs) (gxNeg (yStage ctx.m1 ty) xs))
      (Nat.sub (gxNeg (yStage ctx.m1 ty) xs) (gxPos (yStage ctx.m1 ty) xs))
      (Nat.sub (gyPos (yStage ctx.m1 ty) xs) (gyNeg (yStage ctx.m1 ty) xs))
      (Nat.sub (gyNeg (yStage ctx.m1 ty) xs) (gyPos (yStage ctx.m1 ty) xs))
      (Nat.sub (valPos (yStage ctx.m2 ty) xs) (valNeg (yStage ctx.m2 ty) xs))
      (Nat.sub (valNeg (yStage ctx.m2 ty) xs) (valPos (yStage ctx.m2 ty) xs))
      (Nat.sub (gxPos (yStage ctx.m2 ty) xs) (gxNeg (yStage ctx.m2 ty) xs))
      (Nat.sub (gxNeg (yStage ctx.m2 ty) xs) (gxPos (yStage ctx.m2 ty) xs))
      (Nat.sub (gyPos (yStage ctx.m2 ty) xs) (gyNeg (yStage ctx.m2 ty) xs))
      (Nat.sub (gyNeg (yStage ctx.m2 ty) xs) (gyPos (yStage ctx.m2 ty) xs)) := rfl
  rw [e, key]
  unfold SS
  have pos : (0 : ℝ) < 2 ^ 328 * 2 ^ (4 * (Nat.add lev 1) + 80) := by positivity
  rw [mul_comm]
  exact mul_le_mul_of_nonneg_left sb pos.le

end Grish
