import IOptModel.Process
/-!
# Control-flow lemmas about the process model (`Proc.oneIteration`, `doGlobalIteration`, `solveLoop`, `solve`)

Everything here is generic in the numeric type: no arithmetic law is used.
-/

set_option linter.unusedSectionVars false

section
variable {α : Type} [Add α] [Sub α] [Mul α] [Div α] [Neg α] [LT α] [LE α]
  [DecidableLT α] [DecidableLE α] [OfNat α 0] [OfNat α 1] [OfNat α 2] [OfNat α 4] [Fns α]

namespace AGP.Ctl

/-! ### what `prepare` and `commit` do to the counters -/

/-- `recalcAll` followed by the refill of an empty queue: the state in which the selection is made -/
def selState (p : Params α) (s : State α) : State α :=
  let s := recalcAll p s
  if s.queue.isEmpty then { s with queue := refillQueue s.items } else s

theorem recalcAll_fields (p : Params α) (s : State α) :
    (recalcAll p s).M = s.M ∧ (recalcAll p s).Z = s.Z ∧ (recalcAll p s).best = s.best ∧
    (recalcAll p s).iters = s.iters ∧ (recalcAll p s).minDelta = s.minDelta ∧
    (recalcAll p s).nTrials = s.nTrials ∧ (recalcAll p s).nextId = s.nextId := by
  unfold recalcAll; split <;> simp

theorem selState_fields (p : Params α) (s : State α) :
    (selState p s).M = s.M ∧ (selState p s).Z = s.Z ∧ (selState p s).best = s.best ∧
    (selState p s).iters = s.iters ∧ (selState p s).minDelta = s.minDelta ∧
    (selState p s).nTrials = s.nTrials ∧ (selState p s).nextId = s.nextId ∧
    (selState p s).items = (recalcAll p s).items ∧ (selState p s).recalc = false := by
  have h := recalcAll_fields p s
  have hr : (recalcAll p s).recalc = false := by
    unfold recalcAll; split
    · rfl
    · next h => simpa using h
  unfold selState; simp only []; split <;> simp [h, hr]

/-- `prepare` written over `selState` -/
theorem prepare_eq (p : Params α) (s : State α) : prepare p s =
    match (selState p s).queue with
    | [] => .error (selState p s, .emptyQueue)
    | (_, oid) :: q =>
      match findItem (selState p s).items oid with
      | none => .error ({ selState p s with queue := q }, .emptyQueue)
      | some old =>
        match leftOf (selState p s).items oid with
        | none => .error ({ selState p s with queue := q, minDelta := some (minOpt old.delta (selState p s).minDelta) }, .leftIsNone)
        | some left =>
          if nextX p (selState p s).M left old ≤ left.x ∨ old.x ≤ nextX p (selState p s).M left old then
            .error ({ selState p s with queue := q, minDelta := some (minOpt old.delta (selState p s).minDelta) }, .outsideInterval)
          else .ok { s := { selState p s with queue := q, minDelta := some (minOpt old.delta (selState p s).minDelta) },
                     old := old, left := left, x := nextX p (selState p s).M left old,
                     point := p.image (nextX p (selState p s).M left old) } := by
  rfl

/-- `prepare` succeeds exactly as described: the head of the queue of `selState` is popped, the item
with that id and its left neighbour are found, `minDelta` is lowered and the new coordinate passes the range test. -/
theorem prepare_ok {p : Params α} {s : State α} {pr : Prep α} (h : prepare p s = .ok pr) :
    ∃ k oid q, (selState p s).queue = (k, oid) :: q ∧
      findItem (selState p s).items oid = some pr.old ∧
      leftOf (selState p s).items oid = some pr.left ∧
      pr.s = { selState p s with queue := q, minDelta := some (minOpt pr.old.delta s.minDelta) } ∧
      pr.x = nextX p s.M pr.left pr.old ∧ pr.point = p.image pr.x ∧
      ¬ (pr.x ≤ pr.left.x ∨ pr.old.x ≤ pr.x) := by
  have hf := selState_fields p s
  rw [prepare_eq] at h
  split at h
  · cases h
  · next k oid q hq =>
    refine ⟨k, oid, q, hq, ?_⟩
    split at h
    · cases h
    · next old hold =>
      split at h
      · cases h
      · next left hleft =>
        split at h
        · cases h
        · next hx =>
          cases h
          rw [hf.1] at hx
          simp only [hf.1, hf.2.2.2.2.1]
          exact ⟨hold, hleft, trivial, trivial, trivial, hx⟩

/-- `commit` touches the counters as `FinalizeIteration` and `RenewSearchData` do, and not `minDelta` -/
theorem commit_fields (p : Params α) (pr : Prep α) (z : α) :
    (commit p pr z).iters = pr.s.iters + 1 ∧ (commit p pr z).nTrials = pr.s.nTrials + 1 ∧
    (commit p pr z).nextId = pr.s.nextId + 1 ∧ (commit p pr z).minDelta = pr.s.minDelta := by
  unfold commit
  exact ⟨rfl, rfl, rfl, rfl⟩

theorem prepare_ok_fields {p : Params α} {s : State α} {pr : Prep α} (h : prepare p s = .ok pr) :
    pr.s.iters = s.iters ∧ pr.s.nTrials = s.nTrials ∧ pr.s.nextId = s.nextId ∧
    pr.s.minDelta = some (minOpt pr.old.delta s.minDelta) ∧ pr.s.M = s.M ∧ pr.s.Z = s.Z ∧
    pr.s.best = s.best ∧ pr.s.items = (recalcAll p s).items ∧ pr.s.recalc = false := by
  obtain ⟨k, oid, q, -, -, -, hs, -⟩ := prepare_ok h
  have hf := selState_fields p s
  rw [hs]
  simp [hf]

theorem firstIteration_fields (p : Params α) (z : α) :
    (firstIteration p z).iters = 1 ∧ (firstIteration p z).nTrials = 1 ∧
    (firstIteration p z).nextId = 3 ∧ (firstIteration p z).minDelta = none := by
  unfold firstIteration
  exact ⟨rfl, rfl, rfl, rfl⟩

/-- a raise inside `prepare` leaves the counters alone -/
theorem prepare_error_fields {p : Params α} {s s' : State α} {e : Raise} (h : prepare p s = .error (s', e)) :
    s'.iters = s.iters ∧ s'.nTrials = s.nTrials ∧ s'.nextId = s.nextId ∧ s'.M = s.M ∧ s'.Z = s.Z ∧
    s'.best = s.best ∧ s'.items = (recalcAll p s).items ∧ e ≠ .objective := by
  have hf := selState_fields p s
  rw [prepare_eq] at h
  repeat' split at h
  all_goals cases h
  all_goals simp [hf]

end AGP.Ctl
namespace Proc
open AGP AGP.Ctl

/-! ### accessors (what `GetResults` / the method report) -/

/-- `method.iterationsCount` (0 before the first iteration) -/
def PState.iters (ps : PState α) : Nat := match ps.m with | none => 0 | some s => s.iters
/-- `solution.numberOfGlobalTrials` -/
def PState.nTrials (ps : PState α) : Nat := match ps.m with | none => 0 | some s => s.nTrials
/-- `solution.solutionAccuracy` = `method.min_delta` (`none` = `inf`) -/
def PState.minDelta (ps : PState α) : Option α := match ps.m with | none => none | some s => s.minDelta
/-- the state without its event log -/
def PState.core (ps : PState α) : PState α := { ps with log := [] }
/-- put `l` in front of the event log -/
def PState.addLog (l : List Event) (ps : PState α) : PState α := { ps with log := l ++ ps.log }

@[simp] theorem PState.addLog_m (l : List Event) (ps : PState α) : (ps.addLog l).m = ps.m := rfl
@[simp] theorem PState.addLog_evals (l : List Event) (ps : PState α) : (ps.addLog l).evals = ps.evals := rfl
@[simp] theorem PState.addLog_calls (l : List Event) (ps : PState α) : (ps.addLog l).calls = ps.calls := rfl
@[simp] theorem PState.addLog_nLocal (l : List Event) (ps : PState α) : (ps.addLog l).nLocal = ps.nLocal := rfl
@[simp] theorem PState.addLog_refined (l : List Event) (ps : PState α) : (ps.addLog l).refined = ps.refined := rfl
@[simp] theorem PState.addLog_log (l : List Event) (ps : PState α) : (ps.addLog l).log = l ++ ps.log := rfl
@[simp] theorem PState.core_m (ps : PState α) : ps.core.m = ps.m := rfl
@[simp] theorem PState.core_evals (ps : PState α) : ps.core.evals = ps.evals := rfl
@[simp] theorem PState.core_calls (ps : PState α) : ps.core.calls = ps.calls := rfl
@[simp] theorem PState.core_nLocal (ps : PState α) : ps.core.nLocal = ps.nLocal := rfl
@[simp] theorem PState.core_refined (ps : PState α) : ps.core.refined = ps.refined := rfl
@[simp] theorem PState.core_log (ps : PState α) : ps.core.log = [] := rfl
@[simp] theorem PState.core_addLog (l : List Event) (ps : PState α) : (ps.addLog l).core = ps.core := rfl
@[simp] theorem PState.core_core (ps : PState α) : ps.core.core = ps.core := rfl
theorem PState.addLog_core (ps : PState α) : ps.core.addLog ps.log = ps := by
  cases ps; simp [PState.addLog, PState.core]
theorem PState.addLog_addLog (l l' : List Event) (ps : PState α) :
    (ps.addLog l).addLog l' = ps.addLog (l' ++ l) := by
  simp [PState.addLog]
@[simp] theorem PState.addLog_nil (ps : PState α) : ps.addLog [] = ps := by
  simp [PState.addLog]

/-- two states with the same log-free part -/
theorem PState.core_eq_iff {ps ps' : PState α} :
    ps.core = ps'.core ↔ ps.m = ps'.m ∧ ps.evals = ps'.evals ∧ ps.nLocal = ps'.nLocal ∧ ps.calls = ps'.calls ∧
      ps.refined = ps'.refined := by
  cases ps; cases ps'; simp [PState.core]

theorem PState.ext_core_log {ps ps' : PState α} (h : ps.core = ps'.core) (hl : ps.log = ps'.log) : ps = ps' := by
  rw [← PState.addLog_core ps, ← PState.addLog_core ps', h, hl]

@[simp] theorem PState.iters_addLog (l : List Event) (ps : PState α) : (ps.addLog l).iters = ps.iters := rfl
@[simp] theorem PState.nTrials_addLog (l : List Event) (ps : PState α) : (ps.addLog l).nTrials = ps.nTrials := rfl
@[simp] theorem PState.minDelta_addLog (l : List Event) (ps : PState α) : (ps.addLog l).minDelta = ps.minDelta := rfl

/-! ### `oneIteration` -/

/-- `oneIteration` in a flat form (call index written as `ps.calls`). -/
theorem oneIteration_eq (p : Params α) (f : Nat → List α → Option α) (ps : PState α) :
    oneIteration p f ps =
    match ps.m with
    | none =>
      match f ps.calls (firstPoint p) with
      | none => .error ({ ps with log := ps.log ++ [Event.beforeStart], calls := ps.calls + 1 }, .objective)
      | some z => .ok ({ ps with log := ps.log ++ [Event.beforeStart], calls := ps.calls + 1,
                                 m := some (firstIteration p z), evals := ps.evals ++ [(firstPoint p, z)] }, 2)
    | some s =>
      match prepare p s with
      | .error (s', e) => .error ({ ps with m := some s' }, e)
      | .ok pr =>
        match f ps.calls pr.point with
        | none => .error ({ ps with calls := ps.calls + 1, m := some pr.s }, .objective)
        | some z => .ok ({ ps with calls := ps.calls + 1, m := some (commit p pr z),
                                   evals := ps.evals ++ [(pr.point, z)] }, pr.s.nextId) := by
  rfl

/-- lift of a result to a state whose log has the extra prefix `l` -/
def liftLog {β : Type} (l : List Event) :
    Except (PState α × Raise) (PState α × β) → Except (PState α × Raise) (PState α × β)
  | .ok (ps, b) => .ok (ps.addLog l, b)
  | .error (ps, e) => .error (ps.addLog l, e)

/-- frame rule: the event log is write-only for `oneIteration` -/
theorem oneIteration_addLog (p : Params α) (f : Nat → List α → Option α) (l : List Event) (ps : PState α) :
    oneIteration p f (ps.addLog l) = liftLog l (oneIteration p f ps) := by
  rw [oneIteration_eq, oneIteration_eq]
  simp only [PState.addLog_m, PState.addLog_calls]
  cases hm : ps.m with
  | none =>
    simp only []
    cases f ps.calls (firstPoint p) <;> simp [liftLog, PState.addLog]
  | some s =>
    simp only []
    cases prepare p s with
    | error e => obtain ⟨s', e⟩ := e; simp [liftLog, PState.addLog]
    | ok pr =>
      simp only []
      cases f ps.calls pr.point <;> simp [liftLog, PState.addLog]

/-- everything a successful pass does -/
theorem oneIteration_ok {p : Params α} {f : Nat → List α → Option α} {ps ps' : PState α} {id : Nat}
    (h : oneIteration p f ps = .ok (ps', id)) :
    ps'.calls = ps.calls + 1 ∧ ps'.nLocal = ps.nLocal ∧
    ∃ pt z, f ps.calls pt = some z ∧ ps'.evals = ps.evals ++ [(pt, z)] ∧
      ((ps.m = none ∧ pt = firstPoint p ∧ ps'.m = some (firstIteration p z) ∧ id = 2 ∧
          ps'.log = ps.log ++ [Event.beforeStart]) ∨
       (∃ s pr, ps.m = some s ∧ prepare p s = .ok pr ∧ pt = pr.point ∧ ps'.m = some (commit p pr z) ∧
          id = s.nextId ∧ ps'.log = ps.log)) := by
  rw [oneIteration_eq] at h
  split at h
  · next hm =>
    split at h
    · cases h
    · next z hz =>
      cases h
      exact ⟨rfl, rfl, _, z, hz, rfl, .inl ⟨hm, rfl, rfl, rfl, rfl⟩⟩
  · next s hm =>
    split at h
    · cases h
    · next pr hpr =>
      split at h
      · cases h
      · next z hz =>
        cases h
        exact ⟨rfl, rfl, _, z, hz, rfl, .inr ⟨s, pr, hm, hpr, rfl, rfl, (prepare_ok_fields hpr).2.2.1, rfl⟩⟩

/-- everything a raising pass does: either the objective raised (one more call, no new record), or
`CalculateIterationPoint` raised (no call) -/
theorem oneIteration_error {p : Params α} {f : Nat → List α → Option α} {ps ps' : PState α} {e : Raise}
    (h : oneIteration p f ps = .error (ps', e)) :
    ps'.evals = ps.evals ∧ ps'.nLocal = ps.nLocal ∧
    ((e = .objective ∧ ps'.calls = ps.calls + 1 ∧ ∃ pt, f ps.calls pt = none ∧
        ((ps.m = none ∧ pt = firstPoint p ∧ ps'.m = none ∧ ps'.log = ps.log ++ [Event.beforeStart]) ∨
         (∃ s pr, ps.m = some s ∧ prepare p s = .ok pr ∧ pt = pr.point ∧ ps'.m = some pr.s ∧ ps'.log = ps.log))) ∨
     (e ≠ .objective ∧ ps'.calls = ps.calls ∧ ps'.log = ps.log ∧
        ∃ s s', ps.m = some s ∧ prepare p s = .error (s', e) ∧ ps'.m = some s')) := by
  rw [oneIteration_eq] at h
  split at h
  · next hm =>
    split at h
    · next hz =>
      cases h
      exact ⟨rfl, rfl, .inl ⟨rfl, rfl, _, hz, .inl ⟨hm, rfl, hm, rfl⟩⟩⟩
    · cases h
  · next s hm =>
    split at h
    · next s' e' hpr =>
      cases h
      refine ⟨rfl, rfl, .inr ⟨?_, rfl, rfl, s, s', hm, hpr, rfl⟩⟩
      intro he; subst he
      rw [prepare_eq] at hpr
      repeat' split at hpr
      all_goals cases hpr
    · next pr hpr =>
      split at h
      · next hz =>
        cases h
        exact ⟨rfl, rfl, .inl ⟨rfl, rfl, _, hz, .inr ⟨s, pr, hm, hpr, rfl, rfl, rfl⟩⟩⟩
      · cases h

/-- the global search never touches `__refinedTrial` -/
theorem oneIteration_ok_refined {p : Params α} {f : Nat → List α → Option α} {ps ps' : PState α} {id : Nat}
    (h : oneIteration p f ps = .ok (ps', id)) : ps'.refined = ps.refined := by
  rw [oneIteration_eq] at h
  repeat' split at h
  all_goals cases h
  all_goals rfl

theorem oneIteration_error_refined {p : Params α} {f : Nat → List α → Option α} {ps ps' : PState α} {e : Raise}
    (h : oneIteration p f ps = .error (ps', e)) : ps'.refined = ps.refined := by
  rw [oneIteration_eq] at h
  repeat' split at h
  all_goals cases h
  all_goals rfl

/-! ### the `for` loop of `DoGlobalIteration` -/

/-- `k` passes of the loop body, stopping at the first raise; returns the ids of the new trials -/
def iterN (p : Params α) (f : Nat → List α → Option α) : Nat → PState α → Except (PState α × Raise) (PState α × List Nat)
  | 0, ps => .ok (ps, [])
  | k+1, ps =>
    match oneIteration p f ps with
    | .error e => .error e
    | .ok (ps', id) =>
      match iterN p f k ps' with
      | .error e => .error e
      | .ok (ps'', ids) => .ok (ps'', id :: ids)

/-- `DoGlobalIteration(k)` = `k` passes, then one `OnEndIteration` carrying the saved new trials -/
theorem doGlobalIteration_eq (p : Params α) (f : Nat → List α → Option α) (k : Nat) (ps : PState α) (saved : List Nat) :
    doGlobalIteration p f k ps saved =
    match iterN p f k ps with
    | .ok (ps', ids) => { s := { ps' with log := ps'.log ++ [Event.endIteration (saved ++ ids)] }, raised := none }
    | .error (ps', e) => { s := ps', raised := some e } := by
  induction k generalizing ps saved with
  | zero => simp [doGlobalIteration, iterN]
  | succ k ih =>
    rw [doGlobalIteration, iterN]
    cases h1 : oneIteration p f ps with
    | error e => rfl
    | ok r =>
      obtain ⟨ps', id⟩ := r
      simp only []
      rw [ih]
      cases iterN p f k ps' with
      | error e => rfl
      | ok r' => simp

theorem iterN_add (p : Params α) (f : Nat → List α → Option α) (a b : Nat) (ps : PState α) :
    iterN p f (a + b) ps =
    match iterN p f a ps with
    | .error e => .error e
    | .ok (ps1, ids1) =>
      match iterN p f b ps1 with
      | .error e => .error e
      | .ok (ps2, ids2) => .ok (ps2, ids1 ++ ids2) := by
  induction a generalizing ps with
  | zero =>
    simp only [Nat.zero_add, iterN]
    cases iterN p f b ps with
    | error e => rfl
    | ok r => simp
  | succ a ih =>
    rw [Nat.succ_add, iterN, iterN]
    cases oneIteration p f ps with
    | error e => rfl
    | ok r =>
      obtain ⟨ps', id⟩ := r
      simp only []
      rw [ih]
      cases iterN p f a ps' with
      | error e => rfl
      | ok r1 =>
        obtain ⟨ps1, ids1⟩ := r1
        simp only []
        cases iterN p f b ps1 with
        | error e => rfl
        | ok r2 => simp

theorem iterN_addLog (p : Params α) (f : Nat → List α → Option α) (l : List Event) (k : Nat) (ps : PState α) :
    iterN p f k (ps.addLog l) = liftLog l (iterN p f k ps) := by
  induction k generalizing ps with
  | zero => rfl
  | succ k ih =>
    rw [iterN, iterN, oneIteration_addLog]
    cases oneIteration p f ps with
    | error e => rfl
    | ok r =>
      obtain ⟨ps', id⟩ := r
      simp only [liftLog]
      rw [ih]
      cases iterN p f k ps' with
      | error e => rfl
      | ok r' => rfl

/-! ### results only depend on the log-free part; the log only grows -/

theorem liftLog_ok {β : Type} {l : List Event} {r : Except (PState α × Raise) (PState α × β)} {a : PState α} {b : β} :
    liftLog l r = .ok (a, b) ↔ ∃ c, r = .ok (c, b) ∧ a = c.addLog l := by
  cases r with
  | error e => simp [liftLog]
  | ok x =>
    obtain ⟨c, b'⟩ := x
    simp only [liftLog, Except.ok.injEq, Prod.mk.injEq]
    constructor
    · rintro ⟨h1, h2⟩; exact ⟨c, ⟨rfl, h2⟩, h1.symm⟩
    · rintro ⟨c', ⟨h1, h2⟩, h3⟩; subst h1; exact ⟨h3.symm, h2⟩

theorem liftLog_error {β : Type} {l : List Event} {r : Except (PState α × Raise) (PState α × β)} {a : PState α} {e : Raise} :
    liftLog l r = .error (a, e) ↔ ∃ c, r = .error (c, e) ∧ a = c.addLog l := by
  cases r with
  | ok x => simp [liftLog]
  | error x =>
    obtain ⟨c, e'⟩ := x
    simp only [liftLog, Except.error.injEq, Prod.mk.injEq]
    constructor
    · rintro ⟨h1, h2⟩; exact ⟨c, ⟨rfl, h2⟩, h1.symm⟩
    · rintro ⟨c', ⟨h1, h2⟩, h3⟩; subst h1; exact ⟨h3.symm, h2⟩

theorem oneIteration_of_core (p : Params α) (f : Nat → List α → Option α) (ps : PState α) :
    oneIteration p f ps = liftLog ps.log (oneIteration p f ps.core) := by
  rw [← oneIteration_addLog, PState.addLog_core]

theorem iterN_of_core (p : Params α) (f : Nat → List α → Option α) (k : Nat) (ps : PState α) :
    iterN p f k ps = liftLog ps.log (iterN p f k ps.core) := by
  rw [← iterN_addLog, PState.addLog_core]

theorem oneIteration_congr_ok {p : Params α} {f : Nat → List α → Option α} {ps ps' a : PState α} {id : Nat}
    (hc : ps.core = ps'.core) (h : oneIteration p f ps = .ok (a, id)) :
    ∃ a', oneIteration p f ps' = .ok (a', id) ∧ a'.core = a.core := by
  rw [oneIteration_of_core, liftLog_ok] at h
  obtain ⟨c, hc1, rfl⟩ := h
  refine ⟨c.addLog ps'.log, ?_, rfl⟩
  rw [oneIteration_of_core, ← hc, hc1]; rfl

theorem oneIteration_congr_error {p : Params α} {f : Nat → List α → Option α} {ps ps' a : PState α} {e : Raise}
    (hc : ps.core = ps'.core) (h : oneIteration p f ps = .error (a, e)) :
    ∃ a', oneIteration p f ps' = .error (a', e) ∧ a'.core = a.core := by
  rw [oneIteration_of_core, liftLog_error] at h
  obtain ⟨c, hc1, rfl⟩ := h
  refine ⟨c.addLog ps'.log, ?_, rfl⟩
  rw [oneIteration_of_core, ← hc, hc1]; rfl

theorem iterN_congr_ok {p : Params α} {f : Nat → List α → Option α} {k : Nat} {ps ps' a : PState α} {ids : List Nat}
    (hc : ps.core = ps'.core) (h : iterN p f k ps = .ok (a, ids)) :
    ∃ a', iterN p f k ps' = .ok (a', ids) ∧ a'.core = a.core := by
  rw [iterN_of_core, liftLog_ok] at h
  obtain ⟨c, hc1, rfl⟩ := h
  refine ⟨c.addLog ps'.log, ?_, rfl⟩
  rw [iterN_of_core, ← hc, hc1]; rfl

theorem iterN_congr_error {p : Params α} {f : Nat → List α → Option α} {k : Nat} {ps ps' a : PState α} {e : Raise}
    (hc : ps.core = ps'.core) (h : iterN p f k ps = .error (a, e)) :
    ∃ a', iterN p f k ps' = .error (a', e) ∧ a'.core = a.core := by
  rw [iterN_of_core, liftLog_error] at h
  obtain ⟨c, hc1, rfl⟩ := h
  refine ⟨c.addLog ps'.log, ?_, rfl⟩
  rw [iterN_of_core, ← hc, hc1]; rfl

/-! ### counters along one pass -/

/-- Hölder length `old.delta` of the interval that the next pass from `ps` selects
(`none` for the first pass, which selects nothing, or if the selection raises) -/
def nextDelta (p : Params α) (ps : PState α) : Option α :=
  match ps.m with
  | none => none
  | some s => match prepare p s with
    | .ok pr => some pr.old.delta
    | .error _ => none

/-- Python `min_delta = min(old.delta, min_delta)` when an interval was selected -/
def stepMin (d : Option α) (acc : Option α) : Option α :=
  match d with
  | none => acc
  | some d => some (minOpt d acc)

theorem oneIteration_ok_counters {p : Params α} {f : Nat → List α → Option α} {ps ps' : PState α} {id : Nat}
    (h : oneIteration p f ps = .ok (ps', id)) :
    ps'.m ≠ none ∧ ps'.iters = ps.iters + 1 ∧ ps'.nTrials = ps.nTrials + 1 ∧
    ps'.minDelta = stepMin (nextDelta p ps) ps.minDelta ∧
    ps'.calls = ps.calls + 1 ∧ ps'.evals.length = ps.evals.length + 1 ∧ ps'.nLocal = ps.nLocal := by
  obtain ⟨hc, hl, pt, z, hz, he, h⟩ := oneIteration_ok h
  rcases h with ⟨hm, -, hm', -, -⟩ | ⟨s, pr, hm, hpr, -, hm', -, -⟩
  · have hf := firstIteration_fields p z
    simp [PState.iters, PState.nTrials, PState.minDelta, nextDelta, stepMin, hm, hm', hf, hc, he, hl]
  · have hf := commit_fields p pr z
    have hp := prepare_ok_fields hpr
    simp [PState.iters, PState.nTrials, PState.minDelta, nextDelta, stepMin, hm, hm', hf, hp, hpr, hc, he, hl]

/-- `CheckStopCondition` in terms of the reported quantities -/
theorem stopNow_iff (p : Params α) (ps : PState α) :
    stopNow p ps = true ↔ (∃ d, ps.minDelta = some d ∧ d < p.eps) ∨ p.itersLimit ≤ ps.iters := by
  unfold stopNow PState.minDelta PState.iters
  cases ps.m with
  | none => simp
  | some s =>
    simp only [stopCond]
    cases s.minDelta <;> simp

theorem stopNow_congr {p : Params α} {ps ps' : PState α} (h : ps.core = ps'.core) : stopNow p ps = stopNow p ps' := by
  have : ps.m = ps'.m := (PState.core_eq_iff.1 h).1
  unfold stopNow; rw [this]

/-- once the first iteration is done, the passes no longer write to the log -/
theorem oneIteration_ok_some {p : Params α} {f : Nat → List α → Option α} {ps ps' : PState α} {id : Nat}
    (hm : ps.m ≠ none) (h : oneIteration p f ps = .ok (ps', id)) : ps'.m ≠ none ∧ ps'.log = ps.log := by
  obtain ⟨-, -, pt, z, -, -, h⟩ := oneIteration_ok h
  rcases h with ⟨hm', -⟩ | ⟨s, pr, -, -, -, hm', -, hl⟩
  · exact absurd hm' hm
  · exact ⟨by simp [hm'], hl⟩

theorem oneIteration_error_some {p : Params α} {f : Nat → List α → Option α} {ps ps' : PState α} {e : Raise}
    (hm : ps.m ≠ none) (h : oneIteration p f ps = .error (ps', e)) : ps'.m ≠ none ∧ ps'.log = ps.log := by
  obtain ⟨-, -, h⟩ := oneIteration_error h
  rcases h with ⟨-, -, pt, -, ⟨hm', -⟩ | ⟨s, pr, -, -, -, hm', hl⟩⟩ | ⟨-, -, hl, s, s', -, -, hm'⟩
  · exact absurd hm' hm
  · exact ⟨by simp [hm'], hl⟩
  · exact ⟨by simp [hm'], hl⟩

theorem iterN_ok_some {p : Params α} {f : Nat → List α → Option α} {k : Nat} {ps ps' : PState α} {ids : List Nat}
    (hm : ps.m ≠ none) (h : iterN p f k ps = .ok (ps', ids)) : ps'.m ≠ none ∧ ps'.log = ps.log := by
  induction k generalizing ps ids with
  | zero => simp only [iterN, Except.ok.injEq, Prod.mk.injEq] at h; obtain ⟨rfl, -⟩ := h; exact ⟨hm, rfl⟩
  | succ k ih =>
    rw [iterN] at h
    split at h
    · cases h
    · next ps1 id h1 =>
      split at h
      · cases h
      · next ps2 ids2 h2 =>
        cases h
        have h3 := oneIteration_ok_some hm h1
        have h4 := ih h3.1 h2
        exact ⟨h4.1, by rw [h4.2, h3.2]⟩

theorem iterN_ok_refined {p : Params α} {f : Nat → List α → Option α} {k : Nat} {ps ps' : PState α} {ids : List Nat}
    (h : iterN p f k ps = .ok (ps', ids)) : ps'.refined = ps.refined := by
  induction k generalizing ps ids with
  | zero => simp only [iterN, Except.ok.injEq, Prod.mk.injEq] at h; obtain ⟨rfl, -⟩ := h; rfl
  | succ k ih =>
    rw [iterN] at h
    split at h
    · cases h
    · next ps1 id h1 =>
      split at h
      · cases h
      · next ps2 ids2 h2 =>
        cases h
        rw [ih h2, oneIteration_ok_refined h1]

theorem iterN_error_refined {p : Params α} {f : Nat → List α → Option α} {k : Nat} {ps ps' : PState α} {e : Raise}
    (h : iterN p f k ps = .error (ps', e)) : ps'.refined = ps.refined := by
  induction k generalizing ps with
  | zero => simp [iterN] at h
  | succ k ih =>
    rw [iterN] at h
    split at h
    · next x h1 => cases h; exact oneIteration_error_refined h1
    · next ps1 id h1 =>
      split at h
      · next x h2 => cases h; rw [ih h2, oneIteration_ok_refined h1]
      · cases h

/-! ### `solveLoop` -/

/-- append to the event log -/
def PState.appendLog (ps : PState α) (l : List Event) : PState α := { ps with log := ps.log ++ l }

@[simp] theorem PState.appendLog_core (ps : PState α) (l : List Event) : (ps.appendLog l).core = ps.core := rfl
@[simp] theorem PState.appendLog_log (ps : PState α) (l : List Event) : (ps.appendLog l).log = ps.log ++ l := rfl
@[simp] theorem PState.appendLog_m (ps : PState α) (l : List Event) : (ps.appendLog l).m = ps.m := rfl
@[simp] theorem PState.appendLog_evals (ps : PState α) (l : List Event) : (ps.appendLog l).evals = ps.evals := rfl
@[simp] theorem PState.appendLog_calls (ps : PState α) (l : List Event) : (ps.appendLog l).calls = ps.calls := rfl
@[simp] theorem PState.appendLog_nLocal (ps : PState α) (l : List Event) : (ps.appendLog l).nLocal = ps.nLocal := rfl
@[simp] theorem PState.appendLog_refined (ps : PState α) (l : List Event) : (ps.appendLog l).refined = ps.refined := rfl

theorem solveLoop_succ (p : Params α) (f : Nat → List α → Option α) (fuel : Nat) (ps : PState α) :
    solveLoop p f (fuel + 1) ps =
    if stopNow p ps then (ps, false) else
    match oneIteration p f ps with
    | .error (ps', _) => (ps'.appendLog [Event.exceptionPrinted], true)
    | .ok (ps', id) => solveLoop p f fuel (ps'.appendLog [Event.endIteration [id]]) := by
  rw [solveLoop]
  split
  · rfl
  · rw [doGlobalIteration]
    cases oneIteration p f ps with
    | error e => rfl
    | ok r => rfl

/-- the exception caught by the `try` of `Solve`, if any (`solveLoop` only records that there was one) -/
def solveRaise (p : Params α) (f : Nat → List α → Option α) : Nat → PState α → Option Raise
  | 0, _ => none
  | fuel+1, ps =>
    if stopNow p ps then none else
    match oneIteration p f ps with
    | .error (_, e) => some e
    | .ok (ps', id) => solveRaise p f fuel (ps'.appendLog [Event.endIteration [id]])

theorem solveLoop_raised (p : Params α) (f : Nat → List α → Option α) (fuel : Nat) (ps : PState α) :
    (solveLoop p f fuel ps).2 = (solveRaise p f fuel ps).isSome := by
  induction fuel generalizing ps with
  | zero => rfl
  | succ fuel ih =>
    rw [solveLoop_succ, solveRaise]
    split
    · rfl
    · cases oneIteration p f ps with
      | error x => rfl
      | ok x => exact ih _

/-- the termination measure of the `while` loop of `Solve` -/
def remaining (p : Params α) (ps : PState α) : Nat := p.itersLimit - ps.iters

theorem stopNow_of_remaining_zero {p : Params α} {ps : PState α} (h : remaining p ps = 0) : stopNow p ps = true := by
  rw [stopNow_iff]; right; unfold remaining at h; omega

theorem remaining_step {p : Params α} {f : Nat → List α → Option α} {ps ps' : PState α} {id : Nat}
    (hs : stopNow p ps = false) (h : oneIteration p f ps = .ok (ps', id)) : remaining p ps' + 1 = remaining p ps := by
  have h1 := (oneIteration_ok_counters h).2.1
  have : ¬ (p.itersLimit ≤ ps.iters) := by
    intro hle
    have := (stopNow_iff p ps).2 (.inr hle)
    rw [hs] at this; cases this
  unfold remaining; omega

/-- `e1 ids` : the `OnEndIteration` notifications of a sequence of single-iteration calls -/
def endEach (ids : List Nat) : List Event := ids.map fun i => Event.endIteration [i]

/-- The canonical sequence from `ps` makes `j` passes without raising and the stop criterion holds in none of
the states before the `j`-th (numbered `0 … j-1`). -/
structure RunPrefix (p : Params α) (f : Nat → List α → Option α) (ps : PState α) (j : Nat) (psj : PState α) (ids : List Nat) : Prop where
  run : iterN p f j ps = .ok (psj, ids)
  notStop : ∀ i, i < j → ∃ psi idsi, iterN p f i ps = .ok (psi, idsi) ∧ stopNow p psi = false

theorem RunPrefix.zero (p : Params α) (f : Nat → List α → Option α) (ps : PState α) : RunPrefix p f ps 0 ps [] :=
  ⟨rfl, fun i hi => absurd hi (Nat.not_lt_zero i)⟩

theorem RunPrefix.cons {p : Params α} {f : Nat → List α → Option α} {ps ps1 psj : PState α} {id j : Nat} {ids : List Nat}
    (hs : stopNow p ps = false) (h1 : oneIteration p f ps = .ok (ps1, id)) (h : RunPrefix p f ps1 j psj ids) :
    RunPrefix p f ps (j + 1) psj (id :: ids) := by
  constructor
  · rw [iterN, h1]; simp only []; rw [h.run]
  · intro i hi
    cases i with
    | zero => exact ⟨ps, [], rfl, hs⟩
    | succ i =>
      obtain ⟨psi, idsi, hr, hst⟩ := h.notStop i (by omega)
      refine ⟨psi, id :: idsi, ?_, hst⟩
      rw [iterN, h1]; simp only []; rw [hr]

theorem RunPrefix.congr {p : Params α} {f : Nat → List α → Option α} {ps ps' psj : PState α} {j : Nat} {ids : List Nat}
    (hc : ps.core = ps'.core) (h : RunPrefix p f ps j psj ids) :
    ∃ psj', RunPrefix p f ps' j psj' ids ∧ psj'.core = psj.core := by
  obtain ⟨psj', hr, hcj⟩ := iterN_congr_ok hc h.run
  refine ⟨psj', ⟨hr, ?_⟩, hcj⟩
  intro i hi
  obtain ⟨psi, idsi, hri, hst⟩ := h.notStop i hi
  obtain ⟨psi', hri', hci⟩ := iterN_congr_ok hc hri
  exact ⟨psi', idsi, hri', by rw [stopNow_congr hci]; exact hst⟩

/-- **Characterisation of the `while` loop of `Solve`.**  With enough fuel, `solveLoop` follows the canonical
sequence `iterN` one pass at a time up to the first state `psj` in which either the stop criterion holds
(normal end) or the next pass raises (the `except` branch); it emits one `OnEndIteration` per pass. -/
theorem solveLoop_spec (p : Params α) (f : Nat → List α → Option α) :
    ∀ (fuel : Nat) (ps : PState α), remaining p ps < fuel →
    ∃ j psj ids, RunPrefix p f ps j psj ids ∧
      ((stopNow p psj = true ∧ solveRaise p f fuel ps = none ∧
          ∃ ps', solveLoop p f fuel ps = (ps', false) ∧ ps'.core = psj.core ∧
          ps'.log = psj.log ++ endEach ids) ∨
       (stopNow p psj = false ∧ ∃ pe e ps', oneIteration p f psj = .error (pe, e) ∧
          solveRaise p f fuel ps = some e ∧
          solveLoop p f fuel ps = (ps', true) ∧ ps'.core = pe.core ∧
          ps'.log = pe.log ++ endEach ids ++ [Event.exceptionPrinted])) := by
  intro fuel
  induction fuel with
  | zero => intro ps h; exact absurd h (Nat.not_lt_zero _)
  | succ fuel ih =>
    intro ps hrem
    rw [solveLoop_succ, solveRaise]
    cases hs : stopNow p ps with
    | true =>
      exact ⟨0, ps, [], RunPrefix.zero p f ps, .inl ⟨hs, by simp, ps, by simp, rfl, by simp [endEach]⟩⟩
    | false =>
      simp only [Bool.false_eq_true, if_false]
      cases h1 : oneIteration p f ps with
      | error x =>
        obtain ⟨pe, e⟩ := x
        exact ⟨0, ps, [], RunPrefix.zero p f ps, .inr ⟨hs, pe, e, _, h1, rfl, rfl, rfl, by simp [endEach]⟩⟩
      | ok x =>
        obtain ⟨ps1, id⟩ := x
        simp only []
        have hrem1 : remaining p (ps1.appendLog [Event.endIteration [id]]) < fuel := by
          have := remaining_step hs h1
          have h' : remaining p (ps1.appendLog [Event.endIteration [id]]) = remaining p ps1 := rfl
          omega
        have hm1 := (oneIteration_ok_counters h1).1
        obtain ⟨j, psj', ids, hpre', hcase⟩ := ih _ hrem1
        obtain ⟨psj, hpre, hcj⟩ := hpre'.congr (ps' := ps1) (PState.appendLog_core _ _)
        have hlog' := (iterN_ok_some (ps := ps1.appendLog [Event.endIteration [id]]) hm1 hpre'.run)
        have hlog := (iterN_ok_some hm1 hpre.run)
        refine ⟨j + 1, psj, id :: ids, hpre.cons hs h1, ?_⟩
        rcases hcase with ⟨hst, hsr, ps', hsl, hc', hl'⟩ | ⟨hst, pe', e, ps', herr', hsr, hsl, hc', hl'⟩
        · left
          refine ⟨by rw [stopNow_congr hcj]; exact hst, hsr, ps', hsl, hc'.trans hcj.symm, ?_⟩
          rw [hl', hlog'.2, hlog.2]; simp [endEach]
        · right
          obtain ⟨pe, herr, hce⟩ := oneIteration_congr_error hcj.symm herr'
          have hle' := oneIteration_error_some hlog'.1 herr'
          have hle := oneIteration_error_some hlog.1 herr
          refine ⟨by rw [stopNow_congr hcj]; exact hst, pe, e, ps', herr, hsr, hsl, hc'.trans hce.symm, ?_⟩
          rw [hl', hle'.2, hle.2, hlog'.2, hlog.2]; simp [endEach]

/-- more fuel than the measure makes no difference -/
theorem solveLoop_fuel (p : Params α) (f : Nat → List α → Option α) :
    ∀ (fuel1 fuel2 : Nat) (ps : PState α), remaining p ps < fuel1 → remaining p ps < fuel2 →
      solveLoop p f fuel1 ps = solveLoop p f fuel2 ps := by
  intro fuel1
  induction fuel1 with
  | zero => intro _ ps h; exact absurd h (Nat.not_lt_zero _)
  | succ fuel1 ih =>
    intro fuel2 ps h1 h2
    cases fuel2 with
    | zero => exact absurd h2 (Nat.not_lt_zero _)
    | succ fuel2 =>
      rw [solveLoop_succ, solveLoop_succ]
      cases hs : stopNow p ps with
      | true => rfl
      | false =>
        simp only [Bool.false_eq_true, if_false]
        cases ho : oneIteration p f ps with
        | error x => rfl
        | ok x =>
          obtain ⟨ps1, id⟩ := x
          simp only []
          have := remaining_step hs ho
          have h' : remaining p (ps1.appendLog [Event.endIteration [id]]) = remaining p ps1 := rfl
          exact ih fuel2 _ (by omega) (by omega)

theorem remaining_le (p : Params α) (ps : PState α) : remaining p ps ≤ p.itersLimit := Nat.sub_le _ _

/-- the loop never ends because the fuel ran out -/
theorem solveLoop_end (p : Params α) (f : Nat → List α → Option α) (fuel : Nat) (ps : PState α)
    (h : remaining p ps < fuel) :
    (solveLoop p f fuel ps).2 = true ∨ stopNow p (solveLoop p f fuel ps).1 = true := by
  obtain ⟨j, psj, ids, -, hcase⟩ := solveLoop_spec p f fuel ps h
  rcases hcase with ⟨hst, -, ps', hsl, hc, -⟩ | ⟨-, pe, e, ps', -, -, hsl, -, -⟩
  · right; rw [hsl]; simp only []; rw [stopNow_congr hc]; exact hst
  · left; rw [hsl]

/-! ### counters along the canonical sequence -/

theorem iterN_succ' (p : Params α) (f : Nat → List α → Option α) (k : Nat) (ps : PState α) :
    iterN p f (k + 1) ps =
    match iterN p f k ps with
    | .error e => .error e
    | .ok (psk, ids) =>
      match oneIteration p f psk with
      | .error e => .error e
      | .ok (ps', id) => .ok (ps', ids ++ [id]) := by
  rw [iterN_add]
  cases iterN p f k ps with
  | error e => rfl
  | ok x =>
    obtain ⟨psk, ids⟩ := x
    simp only [iterN]
    cases oneIteration p f psk with
    | error e => rfl
    | ok y => rfl

/-- fold of Python's `min` over the selected lengths -/
def foldMin (acc : Option α) (ds : List α) : Option α := ds.foldl (fun acc d => some (minOpt d acc)) acc

/-- the state after `j` passes of the canonical sequence from `ps`, if none raised -/
def stateAt (p : Params α) (f : Nat → List α → Option α) (ps : PState α) (j : Nat) : Option (PState α) :=
  match iterN p f j ps with
  | .ok (psj, _) => some psj
  | .error _ => none

/-- the Hölder length selected by pass number `j+1` (counting from 1) of the canonical sequence from `ps`;
from a fresh state pass 1 is the first iteration and selects nothing -/
def deltaAt (p : Params α) (f : Nat → List α → Option α) (ps : PState α) (j : Nat) : Option α :=
  (stateAt p f ps j).bind (nextDelta p)

/-- the lengths selected by the first `k` passes from `ps`, in order -/
def deltas (p : Params α) (f : Nat → List α → Option α) (ps : PState α) (k : Nat) : List α :=
  (List.range k).filterMap (deltaAt p f ps)

theorem foldMin_append (acc : Option α) (l1 l2 : List α) : foldMin acc (l1 ++ l2) = foldMin (foldMin acc l1) l2 := by
  simp [foldMin]

theorem deltas_succ (p : Params α) (f : Nat → List α → Option α) (ps : PState α) (k : Nat) :
    deltas p f ps (k + 1) = deltas p f ps k ++ (deltaAt p f ps k).toList := by
  simp only [deltas, List.range_succ, List.filterMap_append]
  cases h : deltaAt p f ps k <;> simp [h]

theorem iterN_counters {p : Params α} {f : Nat → List α → Option α} {k : Nat} {ps ps' : PState α} {ids : List Nat}
    (h : iterN p f k ps = .ok (ps', ids)) :
    ps'.iters = ps.iters + k ∧ ps'.nTrials = ps.nTrials + k ∧ ps'.calls = ps.calls + k ∧
    ps'.evals.length = ps.evals.length + k ∧ ids.length = k ∧ ps'.nLocal = ps.nLocal ∧
    ps'.minDelta = foldMin ps.minDelta (deltas p f ps k) := by
  induction k generalizing ps' ids with
  | zero =>
    simp only [iterN, Except.ok.injEq, Prod.mk.injEq] at h
    obtain ⟨rfl, rfl⟩ := h
    simp [deltas, foldMin]
  | succ k ih =>
    rw [iterN_succ'] at h
    split at h
    · cases h
    · next psk idsk hk =>
      split at h
      · cases h
      · next ps1 id h1 =>
        cases h
        obtain ⟨i1, i2, i3, i4, i5, i6, i7⟩ := ih hk
        obtain ⟨-, c1, c2, c3, c4, c5, c6⟩ := oneIteration_ok_counters h1
        refine ⟨by omega, by omega, by omega, by omega, by simp [i5], by rw [c6, i6], ?_⟩
        rw [c3, deltas_succ, foldMin_append, ← i7]
        have : deltaAt p f ps k = nextDelta p psk := by simp [deltaAt, stateAt, hk]
        rw [this]
        cases nextDelta p psk <;> simp [stepMin, foldMin]

end Proc
end
