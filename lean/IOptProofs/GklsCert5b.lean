import IOptProofs.GklsClass
/-!
# Kernel-decided certificates of the regenerated GKLS data sets of dimension 5, function numbers 51..100

`Gkls.Cert 5 k` = well-formedness `WF` + class clauses `ClassOK` + identity (`dim = 5`, `number = k`).
One lemma per block of five function numbers (`decide +kernel`: exact integer arithmetic in the kernel).
-/

namespace Gkls
set_option maxRecDepth 100000

theorem cert5_10 : ∀ k ∈ List.range' 51 5, Cert 5 k = true := by decide +kernel
theorem cert5_11 : ∀ k ∈ List.range' 56 5, Cert 5 k = true := by decide +kernel
theorem cert5_12 : ∀ k ∈ List.range' 61 5, Cert 5 k = true := by decide +kernel
theorem cert5_13 : ∀ k ∈ List.range' 66 5, Cert 5 k = true := by decide +kernel
theorem cert5_14 : ∀ k ∈ List.range' 71 5, Cert 5 k = true := by decide +kernel
theorem cert5_15 : ∀ k ∈ List.range' 76 5, Cert 5 k = true := by decide +kernel
theorem cert5_16 : ∀ k ∈ List.range' 81 5, Cert 5 k = true := by decide +kernel
theorem cert5_17 : ∀ k ∈ List.range' 86 5, Cert 5 k = true := by decide +kernel
theorem cert5_18 : ∀ k ∈ List.range' 91 5, Cert 5 k = true := by decide +kernel
theorem cert5_19 : ∀ k ∈ List.range' 96 5, Cert 5 k = true := by decide +kernel

end Gkls
