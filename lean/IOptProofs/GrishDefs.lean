import IOptProofs.EnclDefs
import IOptGen.GrishaginTables
/-!
# Grishagin functions: the kernel-evaluable certificate checker `grishOK` (no Mathlib)

`grishOK k` checks, for row `k` (1..100) of the regenerated tables, by one adaptive bisection of `[0,1]²`
into dyadic squares with first-order mean-value leaf tests, the table claims (V), (G), (P) of property C10.
Soundness (`grishOK k = true → …` over `ℝ`) is `Grish.grishOK_sound` in `GrishSound7.lean`
(`GrishSound1`: trigonometric data, `2`: exactness of the integer arithmetic, `3`: the leaf bound,
`4`: table row → real coefficients, `5`: bisection, `6`: the row check, `7`: the function `-√S` and C10).

With `θ = πx`, `φ = πy`, `d(x,y) = Σ_{m,l=1..7} α_ml sin mθ sin lφ + β_ml cos mθ cos lφ` (for `d1`: `α = af`, `β = bf`;
for `d2`: `α = cf`, `β = -df`) and `S = d1² + d2²` (the function is `-√S`).  On a square of half-width `h` with
centre `c`: `d_k = A_k + π g_k·δ + ρ_k`, `|ρ_k| ≤ π² w_k h² + E0` (`w_k = ½ Σ (m+l)² (|α_ml| + |β_ml|)`, `E0 = 2^-27`
covers the enclosure error of the trigonometric values), hence
`S ≤ A1² + A2² + 2π(|Γx| + |Γy|)h + Σ_k [(π(|g_kx| + |g_ky|)h + r_k)² + 2|A_k| r_k]`, `Γ = A1 g1 + A2 g2` (`supS`).

Formats (everything is exact integer arithmetic after the trigonometric enclosure):
* trigonometric values: biased `x·2^64 + B`, `B = 2^65` (`EnclDefs`);
* coefficients: `α·2^36 + BA`, `BA = 2^40` (the table entries are multiples of `2^-36` of modulus `≤ 1`; checked);
* inner sums over `l` (functions of `y`): `p·2^100 + BI`, `BI = 2^106`;
* the six values `d, ∂x d/π, ∂y d/π` at the centre: positive and negative parts in units `2^-164`.
Sharing: the data that depend on one coordinate only (`trigs`, `yStage`) are closed sub-terms that are
syntactically equal for all leaves of the same column / row, so that the kernel's reduction cache evaluates
them once (measured: about 1.5 ms per leaf, 2000..7000 leaves and 3..10 s per function).
-/

namespace Grish
open Encl

/-- seven naturals -/
structure V7 where
  a1 : Nat
  a2 : Nat
  a3 : Nat
  a4 : Nat
  a5 : Nat
  a6 : Nat
  a7 : Nat

def dot7 (p q : V7) : Nat :=
  Nat.add (Nat.add (Nat.add (Nat.add (Nat.add (Nat.add (Nat.mul p.a1 q.a1) (Nat.mul p.a2 q.a2))
    (Nat.mul p.a3 q.a3)) (Nat.mul p.a4 q.a4)) (Nat.mul p.a5 q.a5)) (Nat.mul p.a6 q.a6)) (Nat.mul p.a7 q.a7)

def sum7 (p : V7) : Nat :=
  Nat.add (Nat.add (Nat.add (Nat.add (Nat.add (Nat.add p.a1 p.a2) p.a3) p.a4) p.a5) p.a6) p.a7

/-- weights `1..7` -/
def mw7 (p : V7) : V7 :=
  ⟨p.a1, Nat.mul 2 p.a2, Nat.mul 3 p.a3, Nat.mul 4 p.a4, Nat.mul 5 p.a5, Nat.mul 6 p.a6, Nat.mul 7 p.a7⟩

/-- biased `sin mθ` (`s`) and `cos mθ` (`c`), `m = 1..7` -/
structure TD where
  s : V7
  c : V7

/-- trigonometric data of the point `x = num/2^k`: `θ = πx = 2π·num/2^(k+1)` -/
def trigs (num k : Nat) : TD :=
  trig num (Nat.add k 1) fun X1 U1 =>
  (fun X2 U2 =>
  (fun X3 U3 =>
  (fun X4 U4 =>
  (fun X5 U5 =>
  (fun X6 U6 =>
  (fun X7 U7 => TD.mk ⟨U1, U2, U3, U4, U5, U6, U7⟩ ⟨X1, X2, X3, X4, X5, X6, X7⟩)
    (cmulRe X6 X1 U6 U1) (cmulIm X6 X1 U6 U1))
    (cmulRe X5 X1 U5 U1) (cmulIm X5 X1 U5 U1))
    (cmulRe X4 X1 U4 U1) (cmulIm X4 X1 U4 U1))
    (cmulRe X3 X1 U3 U1) (cmulIm X3 X1 U3 U1))
    (cmulRe X2 X1 U2 U1) (cmulIm X2 X1 U2 U1))
    (cmulRe X1 X1 U1 U1) (cmulIm X1 X1 U1 U1)

/-- `2^40`: bias of a coefficient (format `2^-36`) -/
def BA : Nat := 1099511627776
/-- `2^106`: bias of an inner sum (format `2^-100`) -/
def BI : Nat := 81129638414606681695789005144064
/-- `7·BA·B + BI` -/
def K1 : Nat := 365083372865730067631050523148288
/-- `14·BI·B` -/
def C14 : Nat := 41904174945551648470736051523641266739574897872207872

/-- `Σ_l α̃_l ṽ_l + BI` for a biased coefficient row `co` and biased trigonometric values `v` -/
def inner (co v : V7) : Nat :=
  Nat.sub (Nat.add K1 (dot7 co v)) (Nat.add (Nat.mul B (sum7 co)) (Nat.mul BA (sum7 v)))

/-- row `m` of a coefficient matrix pair: `α_m·`, `β_m·`, `l·α_ml`, `l·β_ml` (biased) -/
structure Row where
  al : V7
  be : V7
  lal : V7
  lbe : V7

structure Mat where
  r1 : Row
  r2 : Row
  r3 : Row
  r4 : Row
  r5 : Row
  r6 : Row
  r7 : Row

/-- inner sums (index `m = 1..7`): `P_m = Σ_l α_ml sin lφ`, `Q_m = Σ_l β_ml cos lφ`,
`dP_m = Σ_l l α_ml cos lφ`, `dQ_m = Σ_l l β_ml sin lφ` -/
structure YS where
  P : V7
  Q : V7
  dP : V7
  dQ : V7

def yStage (M : Mat) (t : TD) : YS :=
  ⟨⟨inner M.r1.al t.s, inner M.r2.al t.s, inner M.r3.al t.s, inner M.r4.al t.s, inner M.r5.al t.s,
      inner M.r6.al t.s, inner M.r7.al t.s⟩,
   ⟨inner M.r1.be t.c, inner M.r2.be t.c, inner M.r3.be t.c, inner M.r4.be t.c, inner M.r5.be t.c,
      inner M.r6.be t.c, inner M.r7.be t.c⟩,
   ⟨inner M.r1.lal t.c, inner M.r2.lal t.c, inner M.r3.lal t.c, inner M.r4.lal t.c, inner M.r5.lal t.c,
      inner M.r6.lal t.c, inner M.r7.lal t.c⟩,
   ⟨inner M.r1.lbe t.s, inner M.r2.lbe t.s, inner M.r3.lbe t.s, inner M.r4.lbe t.s, inner M.r5.lbe t.s,
      inner M.r6.lbe t.s, inner M.r7.lbe t.s⟩⟩

/-- value of `d` at the centre, units `2^-164`: `F + C14` against `corr` -/
def valPos (ys : YS) (xs : TD) : Nat :=
  Nat.add C14 (Nat.add (dot7 ys.P xs.s) (dot7 ys.Q xs.c))
def valNeg (ys : YS) (xs : TD) : Nat :=
  Nat.add (Nat.mul B (Nat.add (sum7 ys.P) (sum7 ys.Q))) (Nat.mul BI (Nat.add (sum7 xs.s) (sum7 xs.c)))

/-- `∂x d/π` at the centre, units `2^-164` -/
def gxPos (ys : YS) (xs : TD) : Nat :=
  Nat.add (Nat.add (dot7 (mw7 ys.P) xs.c) (Nat.mul B (sum7 (mw7 ys.Q)))) (Nat.mul BI (sum7 (mw7 xs.s)))
def gxNeg (ys : YS) (xs : TD) : Nat :=
  Nat.add (Nat.add (dot7 (mw7 ys.Q) xs.s) (Nat.mul B (sum7 (mw7 ys.P)))) (Nat.mul BI (sum7 (mw7 xs.c)))

/-- `∂y d/π` at the centre, units `2^-164` -/
def gyPos (ys : YS) (xs : TD) : Nat :=
  Nat.add (Nat.add (dot7 ys.dP xs.s) (Nat.mul B (sum7 ys.dQ))) (Nat.mul BI (sum7 xs.c))
def gyNeg (ys : YS) (xs : TD) : Nat :=
  Nat.add (Nat.add (dot7 ys.dQ xs.c) (Nat.mul B (sum7 ys.dP))) (Nat.mul BI (sum7 xs.s))

/-- `⌈π·2^20⌉` -/
def PH : Nat := 3294199
/-- `2^137`: bound (units `2^-164`) of the enclosure error of the affine model on a leaf -/
def E0T : Nat := 174224571863520493293247799005065324265472

/-- per-function constants -/
structure Ctx where
  m1 : Mat
  m2 : Mat
  /-- `½ Σ (m+l)² (|α_ml| + |β_ml|)` in units `2^-164`, for `d1`, `d2` -/
  w1 : Nat
  w2 : Nat
  /-- `⌊(1.002·|v|)²·2^328⌋` -/
  gthr : Nat
  /-- lower bound of `S(w)·2^328` at the witness point -/
  swlo : Nat
  pxN : Nat
  pxK : Nat
  pyN : Nat
  pyK : Nat

/-- `|a - b|` -/
def adiff (a b : Nat) : Nat := Nat.add (Nat.sub a b) (Nat.sub b a)

/-- `S ≤ Sup` on the square of half-width `2^-lam` (all in units `2^-(328 + 4·lam + 80)`), from
the parts of `d_k`, `∂x d_k/π`, `∂y d_k/π` at the centre -/
def supS (w1 w2 lam pa1 na1 px1 nx1 py1 ny1 pa2 na2 px2 nx2 py2 ny2 : Nat) : Nat :=
  (fun r1 r2 sh =>
    (fun u1 u2 =>
      Nat.add
        (Nat.add
          (Nat.shiftLeft (Nat.add (Nat.mul (Nat.add pa1 na1) (Nat.add pa1 na1)) (Nat.mul (Nat.add pa2 na2) (Nat.add pa2 na2)))
            (Nat.mul 2 sh))
          (Nat.shiftLeft
            (Nat.mul (Nat.mul 2 PH)
              (Nat.add
                (adiff (Nat.add (Nat.add (Nat.mul pa1 px1) (Nat.mul na1 nx1)) (Nat.add (Nat.mul pa2 px2) (Nat.mul na2 nx2)))
                       (Nat.add (Nat.add (Nat.mul pa1 nx1) (Nat.mul na1 px1)) (Nat.add (Nat.mul pa2 nx2) (Nat.mul na2 px2))))
                (adiff (Nat.add (Nat.add (Nat.mul pa1 py1) (Nat.mul na1 ny1)) (Nat.add (Nat.mul pa2 py2) (Nat.mul na2 ny2)))
                       (Nat.add (Nat.add (Nat.mul pa1 ny1) (Nat.mul na1 py1)) (Nat.add (Nat.mul pa2 ny2) (Nat.mul na2 py2))))))
            (Nat.add (Nat.mul 3 lam) 60)))
        (Nat.add
          (Nat.add (Nat.mul u1 u1) (Nat.mul u2 u2))
          (Nat.shiftLeft (Nat.mul 2 (Nat.add (Nat.mul (Nat.add pa1 na1) r1) (Nat.mul (Nat.add pa2 na2) r2))) sh)))
      (Nat.add (Nat.shiftLeft (Nat.mul PH (Nat.add (Nat.add px1 nx1) (Nat.add py1 ny1))) (Nat.add lam 20)) r1)
      (Nat.add (Nat.shiftLeft (Nat.mul PH (Nat.add (Nat.add px2 nx2) (Nat.add py2 ny2))) (Nat.add lam 20)) r2))
    (Nat.add (Nat.mul (Nat.mul PH PH) w1) (Nat.shiftLeft E0T (Nat.add (Nat.mul 2 lam) 40)))
    (Nat.add (Nat.mul (Nat.mul PH PH) w2) (Nat.shiftLeft E0T (Nat.add (Nat.mul 2 lam) 40)))
    (Nat.add (Nat.mul 2 lam) 40)

/-- `supS` at the centre `((2nx+1)/2^(lev+1), (2ny+1)/2^(lev+1))` of the square of side `2^-lev` -/
def leafSup (ctx : Ctx) (lev nx ny : Nat) : Nat :=
  (fun (xs : TD) (y1 y2 : YS) =>
    supS ctx.w1 ctx.w2 (Nat.add lev 1)
      (Nat.sub (valPos y1 xs) (valNeg y1 xs)) (Nat.sub (valNeg y1 xs) (valPos y1 xs))
      (Nat.sub (gxPos y1 xs) (gxNeg y1 xs)) (Nat.sub (gxNeg y1 xs) (gxPos y1 xs))
      (Nat.sub (gyPos y1 xs) (gyNeg y1 xs)) (Nat.sub (gyNeg y1 xs) (gyPos y1 xs))
      (Nat.sub (valPos y2 xs) (valNeg y2 xs)) (Nat.sub (valNeg y2 xs) (valPos y2 xs))
      (Nat.sub (gxPos y2 xs) (gxNeg y2 xs)) (Nat.sub (gxNeg y2 xs) (gxPos y2 xs))
      (Nat.sub (gyPos y2 xs) (gyNeg y2 xs)) (Nat.sub (gyNeg y2 xs) (gyPos y2 xs)))
    (trigs (Nat.add (Nat.mul 2 nx) 1) (Nat.add lev 1))
    (yStage ctx.m1 (trigs (Nat.add (Nat.mul 2 ny) 1) (Nat.add lev 1)))
    (yStage ctx.m2 (trigs (Nat.add (Nat.mul 2 ny) 1) (Nat.add lev 1)))

/-- the interval `[n/2^k, (n+1)/2^k]` lies inside `[p - 1/R, p + 1/R]`, `p = pN/2^pK` -/
def inside (pN pK R k n : Nat) : Bool :=
  Nat.ble (Nat.shiftLeft (Nat.mul R pN) k)
          (Nat.add (Nat.shiftLeft (Nat.mul R n) pK) (Nat.shiftLeft 1 (Nat.add k pK))) &&
  Nat.ble (Nat.shiftLeft (Nat.mul R (Nat.add n 1)) pK)
          (Nat.add (Nat.shiftLeft (Nat.mul R pN) k) (Nat.shiftLeft 1 (Nat.add k pK)))

/-- leaf test: `S < S(w)` on the square, or the square lies in the 0.005-neighbourhood of `p` and `S ≤ gthr` -/
def leafOK (ctx : Ctx) (lev nx ny : Nat) : Bool :=
  (fun sup sh =>
    Nat.blt sup (Nat.shiftLeft ctx.swlo sh) ||
    (Nat.ble sup (Nat.shiftLeft ctx.gthr sh) &&
      (inside ctx.pxN ctx.pxK 200 lev nx && inside ctx.pyN ctx.pyK 200 lev ny)))
  (leafSup ctx lev nx ny) (Nat.add (Nat.mul 4 lev) 84)

/-- adaptive bisection of the square `[nx/2^lev, (nx+1)/2^lev] × [ny/2^lev, (ny+1)/2^lev]`; no tests above level 5 -/
def bnb (ctx : Ctx) : Nat → Nat → Nat → Nat → Bool
  | 0, _, _, _ => false
  | fuel+1, lev, nx, ny =>
    (Nat.ble 5 lev && leafOK ctx lev nx ny) ||
    (bnb ctx fuel (Nat.add lev 1) (Nat.mul 2 nx) (Nat.mul 2 ny) &&
     bnb ctx fuel (Nat.add lev 1) (Nat.mul 2 nx) (Nat.add (Nat.mul 2 ny) 1) &&
     bnb ctx fuel (Nat.add lev 1) (Nat.add (Nat.mul 2 nx) 1) (Nat.mul 2 ny) &&
     bnb ctx fuel (Nat.add lev 1) (Nat.add (Nat.mul 2 nx) 1) (Nat.add (Nat.mul 2 ny) 1))

/-! ## per-function constants from the table row -/

/-- entry `(i, j)` (0-based) of matrix `mat` (0 = af, 1 = bf, 2 = cf, 3 = df) of the packed table row -/
def ent (row mat i j : Nat) : Dy := Dy.get row (1 + 49 * mat + 7 * i + j)

/-- `d·2^36` (an integer for the table entries) -/
def scaled (d : Dy) : Int := (d.1 * (2:Int)^36) / (2:Int)^d.2
/-- `d·2^36` is an integer of absolute value `≤ 2^36` -/
def coefOK (d : Dy) : Bool := (d.1 * (2:Int)^36) % (2:Int)^d.2 == 0 && (scaled d).natAbs ≤ 68719476736
def enc (z : Int) : Nat := (z + (BA : Int)).toNat

def v7 (f : Nat → Nat) : V7 := ⟨f 0, f 1, f 2, f 3, f 4, f 5, f 6⟩

/-- row `i` (0-based) of the pair (`α` = matrix `ma`, `β` = `sg`·matrix `mb`) -/
def mkRow (row ma mb : Nat) (sg : Int) (i : Nat) : Row :=
  ⟨v7 fun j => enc (scaled (ent row ma i j)),
   v7 fun j => enc (sg * scaled (ent row mb i j)),
   v7 fun j => enc ((j + 1 : Nat) * scaled (ent row ma i j)),
   v7 fun j => enc ((j + 1 : Nat) * (sg * scaled (ent row mb i j)))⟩

def mkMat (row ma mb : Nat) (sg : Int) : Mat :=
  ⟨mkRow row ma mb sg 0, mkRow row ma mb sg 1, mkRow row ma mb sg 2, mkRow row ma mb sg 3,
   mkRow row ma mb sg 4, mkRow row ma mb sg 5, mkRow row ma mb sg 6⟩

/-- `Σ_{i,j} (i+j+2)² (|α̃_ij| + |β̃_ij|)` -/
def wSum (row ma mb : Nat) : Nat :=
  (List.range 7).foldl (fun acc i => (List.range 7).foldl (fun acc j =>
    acc + (i + j + 2) * (i + j + 2) * ((scaled (ent row ma i j)).natAbs + (scaled (ent row mb i j)).natAbs)) acc) 0

def allCoefOK (row : Nat) : Bool :=
  (List.range 196).all fun n => coefOK (Dy.get row (1 + n))

/-- `|d_k|` at a point (units `2^-164`) -/
def absVal (M : Mat) (xs ty : TD) : Nat :=
  adiff (valPos (yStage M ty) xs) (valNeg (yStage M ty) xs)

/-- lower / upper bound of `S·2^328` at the point with trigonometric data `xs`, `ty` -/
def sLo (m1 m2 : Mat) (xs ty : TD) : Nat :=
  Nat.add (Nat.mul (Nat.sub (absVal m1 xs ty) E0T) (Nat.sub (absVal m1 xs ty) E0T))
          (Nat.mul (Nat.sub (absVal m2 xs ty) E0T) (Nat.sub (absVal m2 xs ty) E0T))
def sHi (m1 m2 : Mat) (xs ty : TD) : Nat :=
  Nat.add (Nat.mul (Nat.add (absVal m1 xs ty) E0T) (Nat.add (absVal m1 xs ty) E0T))
          (Nat.mul (Nat.add (absVal m2 xs ty) E0T) (Nat.add (absVal m2 xs ty) E0T))

/-- witness points `w` (numerators over `2^32`): refined maximisers of `S`, used for clause (P) -/
def witnessTab : List (Nat × Nat) := [
  (2590077060, 1753788598), (2804548913, 1376926968), (4294967296, 0), (284246411, 2502184872), (3883974689, 3747964320),
  (1479087664, 2254571544), (0, 4294967296), (4072875680, 3809794658), (970850034, 2234035361), (1467728840, 848766229),
  (297487385, 1850931236), (0, 4294967296), (1942560964, 313041162), (2490564703, 199473465), (0, 4294967296),
  (1332218329, 4294967296), (3907375470, 3977969172), (1866441569, 3545952099), (287158810, 3309324949), (2754525877, 580636706),
  (3801119944, 1676198752), (2790207178, 1779318985), (612568885, 675723852), (3706357373, 4294967296), (1977240328, 4265522412),
  (1628665827, 2955360967), (3630540369, 1823445561), (1894773655, 72161269), (4294967296, 4294967296), (1302642287, 578643856),
  (467701447, 1136804132), (4294967296, 0), (2550036650, 2160415777), (2984599628, 4294967296), (223230315, 1758091929),
  (539722774, 2228950273), (0, 0), (666207049, 1025161092), (2306718127, 1983471379), (476674032, 3941892714),
  (4294967296, 0), (3333306523, 3284435447), (375232199, 2910403513), (1323011789, 2302578768), (180829129, 2420679687),
  (1236812507, 680894851), (1940995838, 729457681), (3800032045, 1053723195), (205205442, 737160530), (0, 1786543008),
  (825092273, 1304761857), (2380064704, 3478152967), (3928826943, 2325673783), (2847711682, 3984531759), (4142494335, 1868218640),
  (0, 0), (2646067349, 2406371912), (1889308848, 1476265297), (936879028, 2908528716), (4294967296, 4294967296),
  (851024750, 1365260500), (3761846991, 2806068026), (987809719, 1444161809), (727097857, 66879181), (3264491423, 3891387433),
  (3019115577, 1324566561), (1569248158, 1212586227), (1348659310, 2797631103), (1020861020, 1607921142), (2504474441, 2173760045),
  (0, 0), (1646342080, 4294967296), (3350509277, 445754830), (1504374886, 2435007560), (3429676435, 2056017859),
  (1364035785, 299231192), (3074903789, 3027012291), (2418217802, 1900774832), (2426987048, 1385628904), (630215219, 2192612837),
  (0, 2332881333), (895650366, 1950986178), (666195579, 4176126348), (0, 4294967296), (1445113144, 3904368054),
  (2448175378, 3901839090), (1272558025, 2321763528), (741018129, 1430113438), (0, 4294967296), (4294967296, 0),
  (4294967296, 4294967296), (2895021264, 3736446368), (4294967296, 4294967296), (3661505695, 2737088505), (3768495022, 1716798745),
  (3589058601, 3229606973), (2892165982, 3553797953), (3572350904, 1576764591), (2585378624, 3154571292), (0, 0)]

def witness (k : Nat) : Nat × Nat := witnessTab.getD (k - 1) (0, 0)

def mkCtx (row : Nat) (wx wy : Nat) : Ctx :=
  { m1 := mkMat row 0 1 1
    m2 := mkMat row 2 3 (-1)
    w1 := Nat.shiftLeft (wSum row 0 1) 127
    w2 := Nat.shiftLeft (wSum row 2 3) 127
    gthr := Nat.shiftLeft ((501 * (Dy.get row 199).1.natAbs) ^ 2) 328 / (500 * 2 ^ (Dy.get row 199).2) ^ 2
    swlo := sLo (mkMat row 0 1 1) (mkMat row 2 3 (-1)) (trigs wx 32) (trigs wy 32)
    pxN := (Dy.get row 197).1.toNat
    pxK := (Dy.get row 197).2
    pyN := (Dy.get row 198).1.toNat
    pyK := (Dy.get row 198).2 }

/-- (V): `(|v| - 1e-4)² ≤ S(p) ≤ (|v| + 1e-4)²`, `v = vn/2^vk` -/
def valueOK (ctx : Ctx) (vn vk : Nat) : Bool :=
  (fun lo hi =>
    Nat.ble (Nat.shiftLeft 1 vk) (10000 * vn) &&
    Nat.ble (Nat.shiftLeft ((10000 * vn - 2 ^ vk) ^ 2) 328) (lo * (10000 * 2 ^ vk) ^ 2) &&
    Nat.ble (hi * (10000 * 2 ^ vk) ^ 2) (Nat.shiftLeft ((10000 * vn + 2 ^ vk) ^ 2) 328))
  (sLo ctx.m1 ctx.m2 (trigs ctx.pxN ctx.pxK) (trigs ctx.pyN ctx.pyK))
  (sHi ctx.m1 ctx.m2 (trigs ctx.pxN ctx.pxK) (trigs ctx.pyN ctx.pyK))

/-- the complete check of one table row -/
def rowOK (row wx wy : Nat) : Bool :=
  allCoefOK row &&
  decide (0 ≤ (Dy.get row 197).1) && decide (0 ≤ (Dy.get row 198).1) &&
  Nat.ble (Dy.get row 197).1.toNat (2 ^ (Dy.get row 197).2) &&
  Nat.ble (Dy.get row 198).1.toNat (2 ^ (Dy.get row 198).2) &&
  Nat.ble wx (2 ^ 32) && Nat.ble wy (2 ^ 32) &&
  decide ((Dy.get row 199).1 < 0) &&
  Nat.ble (2 ^ (Dy.get row 199).2) (Dy.get row 199).1.natAbs &&
  (fun ctx =>
    valueOK ctx (Dy.get row 199).1.natAbs (Dy.get row 199).2 &&
    Nat.ble ctx.swlo ctx.gthr &&
    bnb ctx 24 0 0 0) (mkCtx row wx wy)

def grishOK (k : Nat) : Bool :=
  rowOK (Gen.grishaginRows[k - 1]!) (witness k).1 (witness k).2

end Grish
