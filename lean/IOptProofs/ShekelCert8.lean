import IOptProofs.BenchShekelDefs
/-! kernel-evaluated C10 certificates of the Shekel functions 400..449 (one block per file, identical template) -/
namespace Shk
set_option maxRecDepth 100000 in
theorem shekel_block_8 : ∀ i ∈ List.range' 400 50, shekelOK i = true := by decide +kernel
end Shk
