import IOptProofs.EvNumPt
/-!
# The loop of `__GetYonX` over a linearly ordered field (worker a2)

* `loopDigits`: the digits extracted by `yLoop` (`d *= 2^N; iis = int(d); d -= iis`, or the end
  rule `x >= 1.0`); `yLoop_eq`: `yLoop` adds the cube point of these digits to `y`.
* `loopDigits_false`: for `0 ≤ d < 1` the digits are `digitsOf n k ⌊d·(2^n)^k⌋₊`.
-/

set_option linter.unusedSectionVars false
namespace Ev.Num
variable {α : Type} [Field α] [LinearOrder α] [IsStrictOrderedRing α] [FloorSemiring α]
attribute [local instance] floorTrunc

/-- digits extracted by the loop of `__GetYonX` (same recursion as `yLoop`) -/
def loopDigits (n : Nat) (x1 : Bool) : Nat → α → List Nat
  | 0, _ => []
  | k+1, d =>
    (if x1 then 2^n - 1 else ⌊d * 2^n⌋₊) ::
      loopDigits n x1 k (if x1 then 0 else d * 2^n - (⌊d * 2^n⌋₊ : α))

theorem length_loopDigits (n : Nat) (x1 : Bool) : ∀ (k : Nat) (d : α),
    (loopDigits n x1 k d).length = k
  | 0, _ => rfl
  | k+1, d => by simp [loopDigits, length_loopDigits n x1 k]

theorem zipWith_add_assoc {f : α → Int → α} {g : Int → α → α}
    (h : ∀ a s b, f a s + b = a + g s b) : ∀ (y : List α) (o : List Int) (b : List α),
    (∀ s ∈ o, s = 1 ∨ s = -1) →
    List.zipWith (· + ·) (List.zipWith f y o) b = List.zipWith (· + ·) y (List.zipWith g o b)
  | [], _, _, _ => by simp
  | _ :: _, [], _, _ => by simp
  | _ :: _, _ :: _, [], _ => by simp
  | a :: y, s :: o, c :: b, ho => by
    simp only [List.zipWith_cons_cons, List.cons.injEq]
    exact ⟨h a s c, zipWith_add_assoc h y o b (fun s hs => ho s (by simp [hs]))⟩

theorem zipWith_addSigned (r : α) : ∀ (y : List α) (o : List Int), Inv.pm1 o = true →
    List.zipWith (fun yi ui => addSigned yi r ui) y o =
      List.zipWith (fun yi (ui : Int) => yi + (ui : α) * r) y o
  | [], _, _ => by simp
  | _ :: _, [], _ => by simp
  | a :: y, s :: o, ho => by
    simp only [Inv.pm1, List.all_cons, Bool.and_eq_true, Bool.or_eq_true, beq_iff_eq] at ho
    simp only [List.zipWith_cons_cons, List.cons.injEq]
    exact ⟨addSigned_pm a r s ho.1, zipWith_addSigned r y o ho.2⟩

/-- `yLoop` adds to `y` the cube point of the digits it extracts -/
theorem yLoop_eq {n : Nat} (hn : Ev.DimOK n) (x1 : Bool) : ∀ (k : Nat) (d r : α) (s : St)
    (y : List α), Inv.Valid n s → y.length = n → validDigits n (loopDigits n x1 k d) →
    yLoop n x1 k d r s y =
      List.zipWith (· + ·) y (ptOf n (signs n s (loopDigits n x1 k d)) r)
  | 0, d, r, s, y, _, hy, _ => by
    simp only [yLoop, loopDigits, signs_nil, ptOf]
    apply List.ext_getElem <;> simp [hy]
  | k+1, d, r, s, y, hs, hy, hd => by
    simp only [loopDigits, validDigits_cons] at hd
    have hr2 : r * half = r / 2 := by rw [half_eq]; ring
    have hs' := Inv.step_valid hn hs hd.1
    have hpm := Inv.step_snd_pm1 hn hs hd.1
    have hlen := Inv.step_snd_length hn hs hd.1
    have e : yLoop n x1 (k+1) d r s y =
        yLoop n x1 k (if x1 then 0 else d * 2^n - (⌊d * 2^n⌋₊ : α)) (r / 2)
          (step n s (if x1 then 2^n - 1 else ⌊d * 2^n⌋₊)).1
          (List.zipWith (fun yi ui => addSigned yi (r / 2) ui) y
            (step n s (if x1 then 2^n - 1 else ⌊d * 2^n⌋₊)).2) := by
      simp only [yLoop, nexp_eq, hr2]
      cases x1 <;> rfl
    rw [e, yLoop_eq hn x1 k _ _ _ _ hs' (by simp [hy, hlen]) hd.2, zipWith_addSigned _ _ _ hpm]
    simp only [loopDigits, signs_cons, ptOf]
    apply zipWith_add_assoc
    · intro a s b; ring
    · exact fun s hs => pm1_mem hpm hs

/-! ### the extracted digits -/

theorem loopDigits_true (n : Nat) : ∀ (k : Nat) (d : α),
    loopDigits n true k d = List.replicate k (2^n - 1)
  | 0, _ => rfl
  | k+1, d => by simp [loopDigits, loopDigits_true n k, List.replicate_succ]

/-- for `0 ≤ d < 1` the extracted digits are valid and their index is `⌊d·(2^n)^k⌋₊` -/
theorem loopDigits_false_aux (n : Nat) : ∀ (k : Nat) (d : α), 0 ≤ d → d < 1 →
    validDigits n (loopDigits n false k d) ∧
      indexOf n (loopDigits n false k d) = ⌊d * (2^n)^k⌋₊
  | 0, d, h0, h1 => by
    refine ⟨validDigits_nil n, ?_⟩
    simp only [loopDigits, indexOf_nil, pow_zero, mul_one]
    exact ((Nat.floor_eq_zero).2 h1).symm
  | k+1, d, h0, h1 => by
    have hB : (0 : α) < 2^n := by positivity
    have hd0 : 0 ≤ d * 2^n := by positivity
    have hfl := Nat.floor_le hd0
    have hlt := Nat.lt_floor_add_one (d * 2^n)
    have hr0 : 0 ≤ d * 2^n - (⌊d * 2^n⌋₊ : α) := by linarith
    have hr1 : d * 2^n - (⌊d * 2^n⌋₊ : α) < 1 := by linarith
    obtain ⟨ihv, ihi⟩ := loopDigits_false_aux n k _ hr0 hr1
    have hdig : ⌊d * 2^n⌋₊ < 2^n := by
      rw [Nat.floor_lt hd0]; push_cast; nlinarith
    simp only [loopDigits, Bool.false_eq_true, if_false, validDigits_cons]
    refine ⟨⟨hdig, ihv⟩, ?_⟩
    rw [indexOf_cons, ihi, length_loopDigits]
    have hpos : 0 ≤ (d * 2^n - (⌊d * 2^n⌋₊ : α)) * (2^n)^k := by positivity
    have : d * (2^n)^(k+1) =
        (d * 2^n - (⌊d * 2^n⌋₊ : α)) * (2^n)^k + ((⌊d * 2^n⌋₊ * (2^n)^k : ℕ) : α) := by
      push_cast; ring
    rw [this, Nat.floor_add_natCast hpos, Nat.add_comm]

theorem loopDigits_false (n k : Nat) (d : α) (h0 : 0 ≤ d) (h1 : d < 1) :
    loopDigits n false k d = digitsOf n k ⌊d * (2^n)^k⌋₊ := by
  obtain ⟨hv, hi⟩ := loopDigits_false_aux n k d h0 h1
  have := digitsOf_indexOf hv
  rw [length_loopDigits, hi] at this
  exact this.symm

/-- `imageCube` is the cube point of the extracted digits -/
theorem imageCube_eq {n : Nat} (hn : Ev.DimOK n) (m : Nat) (x : α)
    (hd : validDigits n (loopDigits n (decide ((1 : α) ≤ x)) m x)) :
    imageCube n m x =
      ptOf n (signs n (St.init n) (loopDigits n (decide ((1 : α) ≤ x)) m x)) (1 / 2) := by
  have h1 : (n == 1) = false := by
    rw [beq_eq_false_iff_ne]; exact hn.ne_one
  have hv := Inv.valid_init n hn.pos
  simp only [imageCube, h1, Bool.false_eq_true, if_false]
  rw [yLoop_eq hn _ m x half _ _ hv (by simp) hd, half_eq]
  have hl := length_ptOf (α := α) _ (1 / 2) (signList_signs hn _ _ hv hd)
  apply List.ext_getElem
  · rw [List.length_zipWith, hl]; simp
  · intro i h1 h2
    simp

/-- (3), first part: every point of subinterval `i` is mapped to the centre of cell `i` -/
theorem imageCube_cell {n : Nat} (hn : Ev.DimOK n) (m : Nat) (x : α) (h0 : 0 ≤ x)
    (h1 : x < 1) :
    imageCube n m x = (cubeY n (digitsOf n m ⌊x * (2^n)^m⌋₊)).map
      (fun (Y : Int) => (Y : α) / 2^(m+1)) := by
  have hx : decide ((1 : α) ≤ x) = false := by simpa using h1
  have hd := digitsOf_valid n m ⌊x * (2^n)^m⌋₊
  have e := loopDigits_false n m x h0 h1
  have := cubeY_map_eq_ptOf (α := α) hn _ hd
  rw [digitsOf_length] at this
  rw [this, imageCube_eq hn m x (by rw [hx, e]; exact hd), hx, e]

/-- (3), second part: the end rule `x >= 1.0` gives the centre of the last cell -/
theorem imageCube_end {n : Nat} (hn : Ev.DimOK n) (m : Nat) (x : α) (h1 : 1 ≤ x) :
    imageCube n m x = (cubeY n (List.replicate m (2^n - 1))).map
      (fun (Y : Int) => (Y : α) / 2^(m+1)) := by
  have hx : decide ((1 : α) ≤ x) = true := by simpa using h1
  have hd : validDigits n (List.replicate m (2^n - 1)) :=
    validDigits_replicate (Nat.sub_lt (Nat.two_pow_pos n) Nat.one_pos)
  have e := loopDigits_true (α := α) n m x
  have := cubeY_map_eq_ptOf (α := α) hn _ hd
  rw [List.length_replicate] at this
  rw [this, imageCube_eq hn m x (by rw [hx, e]; exact hd), hx, e]

end Ev.Num
