import IOptProofs.EnclSoundTaylor
/-!
# Enclosure kit, soundness part 2: biased complex multiplication, squarings, `trig`

Ball arithmetic in `ℂ`: a pair of biased fixed-point numbers `(X, U)` denotes `dZ X U`; multiplication by
a unit complex number is an isometry, so radii add up.
-/

namespace Encl
open Complex

/-- decoded complex fixed-point value -/
noncomputable def dZ (X U : ℕ) : ℂ := ⟨dT X, dT U⟩

@[simp] theorem dZ_re (X U : ℕ) : (dZ X U).re = dT X := rfl
@[simp] theorem dZ_im (X U : ℕ) : (dZ X U).im = dT U := rfl

theorem cast_eq_dT (X : ℕ) : (X : ℝ) = dT X * 2 ^ 64 + 2 ^ 65 := by
  unfold dT; rw [B_cast]; field_simp; ring

/-- truncated subtraction followed by a right shift is a floor -/
theorem sub_shr_spec (M S : ℕ) (h : (S : ℝ) ≤ M) :
    ∃ ρ : ℝ, 0 ≤ ρ ∧ ρ < 1 ∧
      ((Nat.shiftRight (Nat.sub M S) 64 : ℕ) : ℝ) = ((M : ℝ) - S) / 2 ^ 64 - ρ := by
  have hle : S ≤ M := by exact_mod_cast h
  have hc : ((Nat.sub M S : ℕ) : ℝ) = (M : ℝ) - S := by
    show ((M - S : ℕ) : ℝ) = _
    rw [Nat.cast_sub hle]
  have h1 := shr_cast_le (Nat.sub M S) 64
  have h2 := lt_shr_cast (Nat.sub M S) 64
  rw [hc] at h1 h2
  refine ⟨((M : ℝ) - S) / 2 ^ 64 - ((Nat.shiftRight (Nat.sub M S) 64 : ℕ) : ℝ), by linarith, by linarith, by ring⟩

/-- the biased complex product is the exact product minus a rounding error of norm `≤ 2·2^-64` -/
theorem cmul_spec {X Y U V : ℕ} (hz : ‖dZ X U‖ ≤ 5 / 4) (hw : ‖dZ Y V‖ ≤ 5 / 4) :
    ∃ r : ℂ, ‖r‖ ≤ 2 / 2 ^ 64 ∧
      dZ (cmulRe X Y U V) (cmulIm X Y U V) = dZ X U * dZ Y V - r := by
  set x := dT X with hx
  set u := dT U with hu
  set y := dT Y with hy
  set v := dT V with hv
  have hprod : ‖dZ X U * dZ Y V‖ ≤ 25 / 16 := by
    rw [norm_mul]
    calc ‖dZ X U‖ * ‖dZ Y V‖ ≤ 5 / 4 * (5 / 4) :=
          mul_le_mul hz hw (norm_nonneg _) (by norm_num)
      _ = 25 / 16 := by norm_num
  have hre : |x * y - u * v| ≤ 25 / 16 := by
    have := (abs_re_le_norm (dZ X U * dZ Y V)).trans hprod
    simpa [mul_re] using this
  have him : |x * v + u * y| ≤ 25 / 16 := by
    have := (abs_im_le_norm (dZ X U * dZ Y V)).trans hprod
    simpa [mul_im] using this
  have hre' := abs_le.mp hre
  have him' := abs_le.mp him
  have cX := cast_eq_dT X
  have cY := cast_eq_dT Y
  have cU := cast_eq_dT U
  have cV := cast_eq_dT V
  rw [← hx] at cX; rw [← hy] at cY; rw [← hu] at cU; rw [← hv] at cV
  -- real part
  set M1 : ℕ := Nat.add (Nat.mul X Y) (Nat.shiftLeft (Nat.add ONE (Nat.add U V)) 65) with hM1
  set S1 : ℕ := Nat.add (Nat.mul U V) (Nat.shiftLeft (Nat.add X Y) 65) with hS1
  have eM1 : (M1 : ℝ) = (X : ℝ) * Y + ((U : ℝ) + V + 2 ^ 64) * 2 ^ 65 := by
    have : M1 = X * Y + Nat.shiftLeft (ONE + (U + V)) 65 := rfl
    rw [this]; push_cast; rw [shl_cast]; push_cast; rw [ONE_cast]; ring
  have eS1 : (S1 : ℝ) = (U : ℝ) * V + ((X : ℝ) + Y) * 2 ^ 65 := by
    have : S1 = U * V + Nat.shiftLeft (X + Y) 65 := rfl
    rw [this]; push_cast; rw [shl_cast]; push_cast; ring
  have d1 : (M1 : ℝ) - S1 = (x * y - u * v) * 2 ^ 128 + 2 ^ 129 := by
    rw [eM1, eS1, cX, cY, cU, cV]; ring
  have le1 : (S1 : ℝ) ≤ M1 := by
    have h1 := mul_le_mul_of_nonneg_right hre'.1 (by positivity : (0 : ℝ) ≤ 2 ^ 128)
    have h2 : (-(25 / 16) : ℝ) * 2 ^ 128 + 2 ^ 129 ≥ 0 := by norm_num
    linarith
  obtain ⟨ρ1, r10, r11, e1⟩ := sub_shr_spec M1 S1 le1
  -- imaginary part
  set M2 : ℕ := Nat.add CIM (Nat.add (Nat.mul X V) (Nat.mul U Y)) with hM2
  set S2 : ℕ := Nat.shiftLeft (Nat.add (Nat.add X Y) (Nat.add U V)) 65 with hS2
  have eM2 : (M2 : ℝ) = (X : ℝ) * V + (U : ℝ) * Y + 5 * 2 ^ 129 := by
    have : M2 = CIM + (X * V + U * Y) := rfl
    rw [this]; push_cast
    rw [show (CIM : ℝ) = 5 * 2 ^ 129 by norm_num [CIM]]; ring
  have eS2 : (S2 : ℝ) = ((X : ℝ) + Y + (U + V)) * 2 ^ 65 := by
    have : S2 = Nat.shiftLeft (X + Y + (U + V)) 65 := rfl
    rw [this, shl_cast]; push_cast; ring
  have d2 : (M2 : ℝ) - S2 = (x * v + u * y) * 2 ^ 128 + 2 ^ 129 := by
    rw [eM2, eS2, cX, cY, cU, cV]; ring
  have le2 : (S2 : ℝ) ≤ M2 := by
    have h1 := mul_le_mul_of_nonneg_right him'.1 (by positivity : (0 : ℝ) ≤ 2 ^ 128)
    have h2 : (-(25 / 16) : ℝ) * 2 ^ 128 + 2 ^ 129 ≥ 0 := by norm_num
    linarith
  obtain ⟨ρ2, r20, r21, e2⟩ := sub_shr_spec M2 S2 le2
  have eRe : dT (cmulRe X Y U V) = x * y - u * v - ρ1 / 2 ^ 64 := by
    unfold dT
    rw [show cmulRe X Y U V = Nat.shiftRight (Nat.sub M1 S1) 64 from rfl, e1, d1, B_cast]
    field_simp; ring
  have eIm : dT (cmulIm X Y U V) = x * v + u * y - ρ2 / 2 ^ 64 := by
    unfold dT
    rw [show cmulIm X Y U V = Nat.shiftRight (Nat.sub M2 S2) 64 from rfl, e2, d2, B_cast]
    field_simp; ring
  refine ⟨⟨ρ1 / 2 ^ 64, ρ2 / 2 ^ 64⟩, ?_, ?_⟩
  · refine (norm_le_abs_re_add_abs_im _).trans ?_
    have h64 : (0 : ℝ) < 2 ^ 64 := by positivity
    simp only
    rw [abs_of_nonneg (by positivity), abs_of_nonneg (by positivity), ← add_div]
    gcongr; linarith
  · apply Complex.ext
    · simp only [dZ_re, sub_re, mul_re, dZ_im]
      rw [eRe]
    · simp only [dZ_im, sub_im, mul_im, dZ_re]
      rw [eIm]

/-! ## squarings -/

/-- `m` squarings (the non-CPS form of `pow2`) -/
def sqN : ℕ → ℕ × ℕ → ℕ × ℕ
  | 0, z => z
  | m+1, z => sqN m (cmulRe z.1 z.1 z.2 z.2, cmulIm z.1 z.1 z.2 z.2)

theorem pow2_eq {α : Type} (m X U : ℕ) (k : ℕ → ℕ → α) :
    pow2 m X U k = k (sqN m (X, U)).1 (sqN m (X, U)).2 := by
  induction m generalizing X U with
  | zero => simp only [pow2, sqN]
  | succ m ih => simp only [pow2, sqN, ih]

theorem exp_two_mul (φ : ℝ) : exp (((2 * φ : ℝ) : ℂ) * I) = exp ((φ : ℂ) * I) * exp ((φ : ℂ) * I) := by
  rw [← Complex.exp_add]; congr 1; push_cast; ring

/-- one squaring doubles the radius (plus 3 units), for radii `≤ 2^-32` -/
theorem sq_spec {X U : ℕ} {φ E : ℝ} (hE0 : 0 ≤ E) (hE : E ≤ 2 ^ 32)
    (h : ‖exp ((φ : ℂ) * I) - dZ X U‖ ≤ E / 2 ^ 64) :
    ‖exp (((2 * φ : ℝ) : ℂ) * I) - dZ (cmulRe X X U U) (cmulIm X X U U)‖ ≤ (2 * E + 3) / 2 ^ 64 := by
  have h64 : (0 : ℝ) < 2 ^ 64 := by positivity
  set Z := exp ((φ : ℂ) * I) with hZ
  set z := dZ X U with hz
  have nZ : ‖Z‖ = 1 := norm_exp_ofReal_mul_I φ
  have he : E / 2 ^ 64 ≤ 1 / 2 ^ 32 := by
    rw [div_le_div_iff₀ h64 (by positivity)]
    calc E * 2 ^ 32 ≤ 2 ^ 32 * 2 ^ 32 := by gcongr
      _ = 1 * 2 ^ 64 := by norm_num
  have nz : ‖z‖ ≤ 5 / 4 := by
    have : ‖z‖ ≤ ‖Z‖ + ‖Z - z‖ := by
      have := norm_sub_le Z (Z - z)
      simpa using this
    rw [nZ] at this
    have : (1 : ℝ) / 2 ^ 32 ≤ 1 / 4 := by norm_num
    linarith
  obtain ⟨r, hr, e⟩ := cmul_spec nz nz
  rw [e, exp_two_mul]
  have : Z * Z - (z * z - r) = (Z - z) * (Z + z) + r := by ring
  rw [this]
  refine (norm_add_le _ _).trans ?_
  rw [norm_mul]
  have hs : ‖Z + z‖ ≤ 2 + E / 2 ^ 64 := by
    have : Z + z = 2 * Z - (Z - z) := by ring
    rw [this]
    refine (norm_sub_le _ _).trans ?_
    rw [norm_mul, nZ]; simp only [Complex.norm_ofNat, mul_one]
    linarith
  have hsq : E / 2 ^ 64 * (E / 2 ^ 64) ≤ 1 / 2 ^ 64 := by
    calc E / 2 ^ 64 * (E / 2 ^ 64) ≤ 1 / 2 ^ 32 * (1 / 2 ^ 32) :=
          mul_le_mul he he (by positivity) (by positivity)
      _ = 1 / 2 ^ 64 := by norm_num
  calc ‖Z - z‖ * ‖Z + z‖ + ‖r‖ ≤ E / 2 ^ 64 * (2 + E / 2 ^ 64) + 2 / 2 ^ 64 := by
        gcongr
    _ = 2 * E / 2 ^ 64 + E / 2 ^ 64 * (E / 2 ^ 64) + 2 / 2 ^ 64 := by ring
    _ ≤ 2 * E / 2 ^ 64 + 1 / 2 ^ 64 + 2 / 2 ^ 64 := by linarith
    _ = (2 * E + 3) / 2 ^ 64 := by ring

/-- `m` squarings: the radius plus 3 doubles `m` times -/
theorem sqN_spec (m : ℕ) : ∀ {X U : ℕ} {φ E : ℝ}, 0 ≤ E → 2 ^ m * (E + 3) ≤ 2 ^ 32 →
    ‖exp ((φ : ℂ) * I) - dZ X U‖ ≤ E / 2 ^ 64 →
    ‖exp (((2 ^ m * φ : ℝ) : ℂ) * I) - dZ (sqN m (X, U)).1 (sqN m (X, U)).2‖
      ≤ (2 ^ m * (E + 3) - 3) / 2 ^ 64 := by
  induction m with
  | zero =>
    intro X U φ E _ _ h
    simpa [sqN] using h
  | succ m ih =>
    intro X U φ E hE0 hE h
    have hm : (1 : ℝ) ≤ 2 ^ m := one_le_pow₀ (by norm_num)
    have hE' : E ≤ 2 ^ 32 := by
      have : 2 ^ (m + 1) * (E + 3) = 2 * (2 ^ m * (E + 3)) := by ring
      nlinarith
    have s := sq_spec hE0 hE' h
    have := ih (X := cmulRe X X U U) (U := cmulIm X X U U) (φ := 2 * φ) (E := 2 * E + 3)
      (by linarith) (by
        have : 2 ^ m * (2 * E + 3 + 3) = 2 ^ (m + 1) * (E + 3) := by ring
        rw [this]; exact hE) s
    have e1 : (2 : ℝ) ^ m * (2 * φ) = 2 ^ (m + 1) * φ := by ring
    have e2 : (2 : ℝ) ^ m * (2 * E + 3 + 3) - 3 = 2 ^ (m + 1) * (E + 3) - 3 := by ring
    rw [e1, e2] at this
    exact this

/-! ## `trig` -/

/-- biased cosine centre -/
def trigC (num k : ℕ) : ℕ :=
  (sqN 5 (Nat.add B (cosT (usq (phi num k))), Nat.add B (sinT (phi num k) (usq (phi num k))))).1
/-- biased sine centre -/
def trigS (num k : ℕ) : ℕ :=
  (sqN 5 (Nat.add B (cosT (usq (phi num k))), Nat.add B (sinT (phi num k) (usq (phi num k))))).2

theorem trig_eq {α : Type} (num k : ℕ) (cont : ℕ → ℕ → α) :
    trig num k cont = cont (trigC num k) (trigS num k) := by
  unfold trig trigC trigS
  rw [pow2_eq]

theorem dT_add_B (c : ℕ) : dT (Nat.add B c) = (c : ℝ) / 2 ^ 64 := by
  unfold dT
  show (((B + c : ℕ) : ℝ) - B) / 2 ^ 64 = _
  push_cast; ring

theorem norm_exp_sub_exp_le (a b : ℝ) : ‖exp ((a : ℂ) * I) - exp ((b : ℂ) * I)‖ ≤ |a - b| := by
  have : exp ((a : ℂ) * I) - exp ((b : ℂ) * I)
      = exp ((b : ℂ) * I) * (exp (I * ((a - b : ℝ) : ℂ)) - 1) := by
    rw [mul_sub, mul_one, ← Complex.exp_add]; congr 2; push_cast; ring
  rw [this, norm_mul, norm_exp_ofReal_mul_I, one_mul]
  exact Real.norm_exp_I_mul_ofReal_sub_one_le

/-- **soundness of `trig`**: for `t = num/2^k ∈ [0,1]` the centre is within `330973·2^-64` of
`e^{2πit}` -/
theorem trig_spec {num k : ℕ} (h : num ≤ 2 ^ k) :
    ‖exp (((2 * Real.pi * (num / 2 ^ k) : ℝ) : ℂ) * I) - dZ (trigC num k) (trigS num k)‖
      ≤ 330973 / 2 ^ 64 := by
  obtain ⟨hp1, hp2⟩ := phi_spec h
  set p := phi num k with hp
  obtain ⟨tc, ts⟩ := taylor_spec hp2
  have h64 : (0 : ℝ) < 2 ^ 64 := by positivity
  set φ : ℝ := Real.pi * num / 2 ^ (k + 4) with hφ
  set φ₀ : ℝ := (p : ℝ) / 2 ^ 64 with hφ₀
  have hφ₀0 : 0 ≤ φ₀ := by positivity
  have hφ₀1 : φ₀ ≤ 1 / 5 := by rw [hφ₀, div_le_iff₀ h64]; linarith
  -- angle error
  have a1 : ‖exp ((φ : ℂ) * I) - exp ((φ₀ : ℂ) * I)‖ ≤ 2 / 2 ^ 64 := by
    refine (norm_exp_sub_exp_le _ _).trans ?_
    have : φ - φ₀ = (φ * 2 ^ 64 - p) / 2 ^ 64 := by rw [hφ₀]; field_simp
    rw [this, abs_div, abs_of_pos h64]
    gcongr
  -- Taylor remainder
  have a2 : ‖exp ((φ₀ : ℂ) * I) - (⟨C11 φ₀, S11 φ₀⟩ : ℂ)‖ ≤ 10330 / 2 ^ 64 := by
    have habs : |φ₀| ≤ 1 := by rw [abs_of_nonneg hφ₀0]; linarith
    refine (exp_taylor11 habs).trans ?_
    rw [abs_of_nonneg hφ₀0]
    calc φ₀ ^ 11 * (12 / (39916800 * 11)) ≤ (1 / 5) ^ 11 * (12 / (39916800 * 11)) := by
          gcongr
      _ ≤ 10330 / 2 ^ 64 := by norm_num
  -- rounding of the Taylor stage
  set X0 := Nat.add B (cosT (usq p)) with hX0
  set U0 := Nat.add B (sinT p (usq p)) with hU0
  have a3 : ‖(⟨C11 φ₀, S11 φ₀⟩ : ℂ) - dZ X0 U0‖ ≤ 4 / 2 ^ 64 := by
    refine (norm_le_abs_re_add_abs_im _).trans ?_
    simp only [sub_re, sub_im, dZ_re, dZ_im, hX0, hU0, dT_add_B]
    have : (4 : ℝ) / 2 ^ 64 = 2 / 2 ^ 64 + 2 / 2 ^ 64 := by ring
    rw [this]
    exact add_le_add tc ts
  have base : ‖exp ((φ : ℂ) * I) - dZ X0 U0‖ ≤ 10340 / 2 ^ 64 := by
    have e : exp ((φ : ℂ) * I) - dZ X0 U0
        = (exp ((φ : ℂ) * I) - exp ((φ₀ : ℂ) * I)) + (exp ((φ₀ : ℂ) * I) - ⟨C11 φ₀, S11 φ₀⟩)
          + (⟨C11 φ₀, S11 φ₀⟩ - dZ X0 U0) := by ring
    rw [e]
    refine (norm_add_le _ _).trans ?_
    have := norm_add_le (exp ((φ : ℂ) * I) - exp ((φ₀ : ℂ) * I)) (exp ((φ₀ : ℂ) * I) - ⟨C11 φ₀, S11 φ₀⟩)
    have : (10340 : ℝ) / 2 ^ 64 = 2 / 2 ^ 64 + 10330 / 2 ^ 64 + 4 / 2 ^ 64 + 4 / 2 ^ 64 := by ring
    have : (0 : ℝ) ≤ 4 / 2 ^ 64 := by positivity
    linarith
  have := sqN_spec 5 (X := X0) (U := U0) (φ := φ) (E := 10340) (by norm_num) (by norm_num) base
  have e1 : (2 : ℝ) ^ 5 * φ = 2 * Real.pi * (num / 2 ^ k) := by
    rw [hφ, pow_add]; field_simp
  have e2 : ((2 : ℝ) ^ 5 * (10340 + 3) - 3) = 330973 := by norm_num
  rw [e1, e2] at this
  unfold trigC trigS
  exact this

end Encl
