import IOptProofs.ShekelTabBnb
import Mathlib.Analysis.Calculus.Deriv.MeanValue
/-!
# Shekel: soundness of the table certificate `shekelTabOK` over ℝ (C18, Shekel half)

* `loc_core`: the derivative-sign argument.  If `φ ≥ t` outside `(p - ρ, p + ρ)`, `φ ≥ t` at `p ∓ 1/1000`,
  `φ' < 0` on `[p - ρ, p - 1/1000]` and `φ' > 0` on `[p + 1/1000, p + ρ]` (all inside `[0,10]`), then `φ ≥ t`
  at every point of `[0,10]` farther than `1/1000` from `p`;
* `minSide_sound`, `maxSide_sound`, `lipOK_sound`: the three groups of clauses;
* `ShekelTables`: the clauses over ℝ; `shekelTabOK_sound`.
-/

namespace Shk

/-! ### monotonicity from the sign of the derivative -/

theorem le_of_deriv_neg {φ φ' : ℝ → ℝ} (hd : ∀ x, HasDerivAt φ (φ' x) x) {u v : ℝ} (huv : u ≤ v)
    (hneg : ∀ z, u ≤ z → z ≤ v → φ' z < 0) : φ v ≤ φ u := by
  have hanti : AntitoneOn φ (Set.Icc u v) := by
    apply antitoneOn_of_deriv_nonpos (convex_Icc u v)
    · exact fun x _ => (hd x).continuousAt.continuousWithinAt
    · exact fun x _ => (hd x).differentiableAt.differentiableWithinAt
    · intro x hx
      rw [interior_Icc] at hx
      rw [(hd x).deriv]
      exact (hneg x hx.1.le hx.2.le).le
  exact hanti ⟨le_rfl, huv⟩ ⟨huv, le_rfl⟩ huv

theorem le_of_deriv_pos {φ φ' : ℝ → ℝ} (hd : ∀ x, HasDerivAt φ (φ' x) x) {u v : ℝ} (huv : u ≤ v)
    (hpos : ∀ z, u ≤ z → z ≤ v → 0 < φ' z) : φ u ≤ φ v := by
  have hmono : MonotoneOn φ (Set.Icc u v) := by
    apply monotoneOn_of_deriv_nonneg (convex_Icc u v)
    · exact fun x _ => (hd x).continuousAt.continuousWithinAt
    · exact fun x _ => (hd x).differentiableAt.differentiableWithinAt
    · intro x hx
      rw [interior_Icc] at hx
      rw [(hd x).deriv]
      exact (hpos x hx.1.le hx.2.le).le
  exact hmono ⟨le_rfl, huv⟩ ⟨huv, le_rfl⟩ huv

/-- **the derivative-sign argument**, in scaled integer coordinates (`s = 2^E`, `p s = X`, `10 s = X10`,
`W = ⌊s/1000⌋`, ring radius `R`) -/
theorem loc_core (φ φ' : ℝ → ℝ) (hd : ∀ x, HasDerivAt φ (φ' x) x) (E : Nat) (p : ℝ) (X W R X10 : Nat) (t : ℝ)
    (hpX : p * 2 ^ E = (X : ℝ)) (hX10 : (X10 : ℝ) = 10 * 2 ^ E)
    (hW1 : (W : ℝ) * 1000 ≤ 2 ^ E) (hW2 : (2 : ℝ) ^ E ≤ ((W : ℝ) + 1) * 1000)
    (outL : X < R ∨ ∀ x : ℝ, ((0 : Nat) : ℝ) ≤ x * 2 ^ E → x * 2 ^ E ≤ ((X - R : Nat) : ℝ) → t ≤ φ x)
    (outR : X10 < X + R ∨ ∀ x : ℝ, ((X + R : Nat) : ℝ) ≤ x * 2 ^ E → x * 2 ^ E ≤ (X10 : ℝ) → t ≤ φ x)
    (ringL : X ≤ W ∨
      ((∀ x : ℝ, ((X - (W + 1) : Nat) : ℝ) ≤ x * 2 ^ E → x * 2 ^ E ≤ ((X - W : Nat) : ℝ) → t ≤ φ x) ∧
       (∀ x : ℝ, ((X - R : Nat) : ℝ) ≤ x * 2 ^ E → x * 2 ^ E ≤ ((X - W : Nat) : ℝ) → φ' x < 0)))
    (ringR : X10 < X + W + 1 ∨
      ((∀ x : ℝ, ((X + W : Nat) : ℝ) ≤ x * 2 ^ E → x * 2 ^ E ≤ ((X + W + 1 : Nat) : ℝ) → t ≤ φ x) ∧
       (∀ x : ℝ, ((X + W : Nat) : ℝ) ≤ x * 2 ^ E → x * 2 ^ E ≤ ((min (X + R) X10 : Nat) : ℝ) → 0 < φ' x))) :
    ∀ x : ℝ, 0 ≤ x → x ≤ 10 → 1 / 1000 < |x - p| → t ≤ φ x := by
  intro x hx0 hx10 hfar
  have hs : (0 : ℝ) < 2 ^ E := by positivity
  set s : ℝ := 2 ^ E with hsdef
  have hy0 : 0 ≤ x * s := by positivity
  have hy10 : x * s ≤ (X10 : ℝ) := by rw [hX10]; nlinarith
  rcases lt_abs.1 hfar with hr | hl
  · -- right of the table point
    have hyr : (X : ℝ) + s / 1000 < x * s := by rw [← hpX]; nlinarith
    have hXW : X + W + 1 ≤ X10 := by
      have : (X : ℝ) + W < X10 := by nlinarith
      have : X + W < X10 := by exact_mod_cast this
      omega
    rcases ringR with hc | ⟨hedge, hring⟩
    · omega
    · by_cases hxr : ((X + R : Nat) : ℝ) ≤ x * s
      · rcases outR with hc | hout
        · exfalso
          have : (X10 : ℝ) < ((X + R : Nat) : ℝ) := by exact_mod_cast hc
          linarith
        · exact hout x hxr hy10
      · have hxr' : x * s < ((X + R : Nat) : ℝ) := not_le.1 hxr
        have hes : (p + 1 / 1000) * s = (X : ℝ) + s / 1000 := by rw [add_mul, hpX]; ring
        have hle : p + 1 / 1000 ≤ x := by linarith
        have h1 : t ≤ φ (p + 1 / 1000) := by
          refine hedge _ ?_ ?_
          · rw [hes]; push_cast; nlinarith
          · rw [hes]; push_cast; nlinarith
        refine h1.trans (le_of_deriv_pos hd hle fun z hz1 hz2 => hring z ?_ ?_)
        · have : (p + 1 / 1000) * s ≤ z * s := mul_le_mul_of_nonneg_right hz1 hs.le
          rw [hes] at this; push_cast; nlinarith
        · have : z * s ≤ x * s := mul_le_mul_of_nonneg_right hz2 hs.le
          rw [Nat.cast_min]
          exact le_min (by linarith) (by linarith)
  · -- left of the table point
    have hyl : x * s < (X : ℝ) - s / 1000 := by rw [← hpX]; nlinarith
    have hXW : W + 1 ≤ X := by
      have : (W : ℝ) < X := by nlinarith
      have : W < X := by exact_mod_cast this
      omega
    rcases ringL with hc | ⟨hedge, hring⟩
    · omega
    · have cW : ((X - W : Nat) : ℝ) = (X : ℝ) - W := by rw [Nat.cast_sub (by omega)]
      have cW1 : ((X - (W + 1) : Nat) : ℝ) = (X : ℝ) - (W + 1) := by rw [Nat.cast_sub hXW]; push_cast; ring
      by_cases hxl : x * s ≤ (X : ℝ) - R
      · have hRX : R ≤ X := by
          have : (R : ℝ) ≤ X := by linarith
          exact_mod_cast this
        rcases outL with hc | hout
        · omega
        · refine hout x (by simpa using hy0) ?_
          rw [Nat.cast_sub hRX]; exact hxl
      · have hxl' : (X : ℝ) - R < x * s := not_le.1 hxl
        have hes : (p - 1 / 1000) * s = (X : ℝ) - s / 1000 := by rw [sub_mul, hpX]; ring
        have hle : x ≤ p - 1 / 1000 := by linarith
        have h1 : t ≤ φ (p - 1 / 1000) := by
          refine hedge _ ?_ ?_
          · rw [hes, cW1]; nlinarith
          · rw [hes, cW]; nlinarith
        refine h1.trans (le_of_deriv_neg hd hle fun z hz1 hz2 => hring z ?_ ?_)
        · have : x * s ≤ z * s := mul_le_mul_of_nonneg_right hz1 hs.le
          rw [cast_tsub]
          exact max_le (by linarith) (by linarith)
        · have : z * s ≤ (p - 1 / 1000) * s := mul_le_mul_of_nonneg_right hz2 hs.le
          rw [hes] at this; rw [cW]; nlinarith

/-- the core `[p - 1/1000, p + 1/1000] ∩ [0,10]` is covered by the integer box of the core clause -/
theorem core_cover (E : Nat) (p : ℝ) (X W X10 : Nat) (hpX : p * 2 ^ E = (X : ℝ)) (hX10 : (X10 : ℝ) = 10 * 2 ^ E)
    (hW2 : (2 : ℝ) ^ E ≤ ((W : ℝ) + 1) * 1000) (x : ℝ) (hx0 : 0 ≤ x) (hx10 : x ≤ 10)
    (hnear : |x - p| ≤ 1 / 1000) :
    ((X - (W + 1) : Nat) : ℝ) ≤ x * 2 ^ E ∧ x * 2 ^ E ≤ ((min (X + W + 1) X10 : Nat) : ℝ) := by
  have hs : (0 : ℝ) < 2 ^ E := by positivity
  set s : ℝ := 2 ^ E with hsdef
  obtain ⟨h1, h2⟩ := abs_le.1 hnear
  constructor
  · rw [cast_tsub]
    refine max_le ?_ (by positivity)
    push_cast
    have : (X : ℝ) - s / 1000 ≤ x * s := by rw [← hpX]; nlinarith
    nlinarith
  · rw [Nat.cast_min]
    refine le_min ?_ (by rw [hX10]; nlinarith)
    push_cast
    have : x * s ≤ (X : ℝ) + s / 1000 := by rw [← hpX]; nlinarith
    nlinarith

theorem W_bounds (E : Nat) : (((2 ^ E / 1000 : Nat) : ℝ)) * 1000 ≤ 2 ^ E ∧
    (2 : ℝ) ^ E ≤ (((2 ^ E / 1000 : Nat) : ℝ) + 1) * 1000 := by
  constructor
  · have := Nat.div_mul_le_self (2 ^ E) 1000
    exact_mod_cast this
  · have := Nat.lt_mul_div_succ (2 ^ E) (show 0 < 1000 by norm_num)
    have h : ((2 ^ E : Nat) : ℝ) < ((1000 * (2 ^ E / 1000 + 1) : Nat) : ℝ) := by exact_mod_cast this
    push_cast at h
    linarith

section sides
variable (E : Nat) (ts : List NTerm) (hts : ∀ t ∈ ts, 0 < t.2.2)
include hts

theorem minRing_sound (X X10 W Ts R : Nat) (p : ℝ) (hpX : p * 2 ^ E = (X : ℝ)) (hX10 : X10 = 10 * 2 ^ E)
    (hW : W = 2 ^ E / 1000)
    (h : minRing (2 ^ (3 * E + P)) ts (ts.map (mkDT (2 ^ (4 * E + P)))) X X10 W Ts R = true) :
    ∀ x : ℝ, 0 ≤ x → x ≤ 10 → 1 / 1000 < |x - p| → -(Ts : ℝ) / 2 ^ P ≤ fR E ts x := by
  unfold minRing at h
  simp only [Bool.and_eq_true, Bool.or_eq_true] at h
  obtain ⟨⟨⟨h1, h2⟩, h3⟩, h4⟩ := h
  have hX10R : (X10 : ℝ) = 10 * 2 ^ E := by rw [hX10]; push_cast; ring
  have hWb := W_bounds E
  rw [← hW] at hWb
  have vs := fun lo hi hh => gbnb_sound E (fun x => -(Ts : ℝ) / 2 ^ P ≤ fR E ts x) (vLo (2 ^ (3 * E + P)) ts Ts)
    (fun lo hi h x => vLo_sound E ts hts Ts lo hi h x) 64 lo hi hh
  have dn := fun lo hi hh => gbnb_sound E (fun x => dfR E ts x < 0) (dNeg (ts.map (mkDT (2 ^ (4 * E + P)))))
    (fun lo hi h x => dNeg_sound E ts hts lo hi h x) 64 lo hi hh
  have dp := fun lo hi hh => gbnb_sound E (fun x => 0 < dfR E ts x) (dPos (ts.map (mkDT (2 ^ (4 * E + P)))))
    (fun lo hi h x => dPos_sound E ts hts lo hi h x) 64 lo hi hh
  refine loc_core (fR E ts) (dfR E ts) (fR_hasDerivAt E ts hts) E p X W R X10 _ hpX hX10R hWb.1 hWb.2 ?_ ?_ ?_ ?_
  · exact h1.imp lt_of_blt (vs _ _)
  · exact h2.imp lt_of_blt (vs _ _)
  · refine h3.imp Nat.le_of_ble_eq_true fun hh => ⟨?_, dn _ _ hh.2⟩
    exact fun x => vLo_sound E ts hts Ts _ _ hh.1 x
  · refine h4.imp lt_of_blt fun hh => ⟨?_, dp _ _ hh.2⟩
    exact fun x => vLo_sound E ts hts Ts _ _ hh.1 x

theorem maxRing_sound (X X10 W Ts R : Nat) (p : ℝ) (hpX : p * 2 ^ E = (X : ℝ)) (hX10 : X10 = 10 * 2 ^ E)
    (hW : W = 2 ^ E / 1000)
    (h : maxRing (2 ^ (3 * E + P)) ts (ts.map (mkDT (2 ^ (4 * E + P)))) X X10 W Ts R = true) :
    ∀ x : ℝ, 0 ≤ x → x ≤ 10 → 1 / 1000 < |x - p| → fR E ts x ≤ -(Ts : ℝ) / 2 ^ P := by
  unfold maxRing at h
  simp only [Bool.and_eq_true, Bool.or_eq_true] at h
  obtain ⟨⟨⟨h1, h2⟩, h3⟩, h4⟩ := h
  have hX10R : (X10 : ℝ) = 10 * 2 ^ E := by rw [hX10]; push_cast; ring
  have hWb := W_bounds E
  rw [← hW] at hWb
  have vl : ∀ lo hi : Nat, vHi (2 ^ (3 * E + P)) ts Ts lo hi = true → ∀ x : ℝ, (lo : ℝ) ≤ x * 2 ^ E →
      x * 2 ^ E ≤ (hi : ℝ) → (Ts : ℝ) / 2 ^ P ≤ -fR E ts x := by
    intro lo hi h x a b
    have := vHi_sound E ts hts Ts lo hi h x a b
    rw [neg_div] at this; linarith
  have vs := fun lo hi hh => gbnb_sound E (fun x => (Ts : ℝ) / 2 ^ P ≤ -fR E ts x) (vHi (2 ^ (3 * E + P)) ts Ts)
    vl 64 lo hi hh
  have dn := fun lo hi hh => gbnb_sound E (fun x => 0 < -dfR E ts x) (dNeg (ts.map (mkDT (2 ^ (4 * E + P)))))
    (fun lo hi h x a b => neg_pos.2 (dNeg_sound E ts hts lo hi h x a b)) 64 lo hi hh
  have dp := fun lo hi hh => gbnb_sound E (fun x => -dfR E ts x < 0) (dPos (ts.map (mkDT (2 ^ (4 * E + P)))))
    (fun lo hi h x a b => neg_neg_of_pos (dPos_sound E ts hts lo hi h x a b)) 64 lo hi hh
  have key := loc_core (fun x => -fR E ts x) (fun x => -dfR E ts x) (fun x => (fR_hasDerivAt E ts hts x).neg)
    E p X W R X10 ((Ts : ℝ) / 2 ^ P) hpX hX10R hWb.1 hWb.2 ?_ ?_ ?_ ?_
  · intro x a b c
    have := key x a b c
    rw [neg_div]; linarith
  · exact h1.imp lt_of_blt (vs _ _)
  · exact h2.imp lt_of_blt (vs _ _)
  · exact h3.imp Nat.le_of_ble_eq_true fun hh => ⟨vl _ _ hh.1, dp _ _ hh.2⟩
  · exact h4.imp lt_of_blt fun hh => ⟨vl _ _ hh.1, dn _ _ hh.2⟩

omit hts in
/-- the point `Q / 2^E` lies in `[0,10]` -/
theorem q_in_box (Q X10 : Nat) (hX10 : X10 = 10 * 2 ^ E) (hQ : Q ≤ X10) :
    0 ≤ (Q : ℝ) / 2 ^ E ∧ (Q : ℝ) / 2 ^ E ≤ 10 := by
  have hs : (0 : ℝ) < 2 ^ E := by positivity
  refine ⟨by positivity, ?_⟩
  rw [div_le_iff₀ hs]
  have : (Q : ℝ) ≤ ((10 * 2 ^ E : Nat) : ℝ) := by exact_mod_cast hX10 ▸ hQ
  push_cast at this
  exact this

/-- **min clauses over ℝ** -/
theorem minSide_sound (X X10 W etaP Tv : Nat) (p : ℝ) (hpX : p * 2 ^ E = (X : ℝ)) (hX10 : X10 = 10 * 2 ^ E)
    (hW : W = 2 ^ E / 1000)
    (h : minSide (2 ^ (3 * E + P)) ts (ts.map (mkDT (2 ^ (4 * E + P)))) X X10 W etaP Tv = true) :
    (∀ x : ℝ, 0 ≤ x → x ≤ 10 → -(Tv : ℝ) / 2 ^ P ≤ fR E ts x) ∧
    (∃ q : ℝ, 0 ≤ q ∧ q ≤ 10 ∧ ∀ x : ℝ, 0 ≤ x → x ≤ 10 → 1 / 1000 < |x - p| →
      fR E ts q + (etaP : ℝ) / 2 ^ P ≤ fR E ts x) := by
  unfold minSide at h
  simp only [force_eq, Bool.and_eq_true, Bool.or_eq_true] at h
  set Q := argBest true (fun q => sDnR (2 ^ (3 * E + P)) ts q q) (cands X W X10) X with hQdef
  set dnQ := sDnR (2 ^ (3 * E + P)) ts Q Q with hdnQ
  set Ts := Nat.sub dnQ etaP with hTs
  obtain ⟨hQ, ⟨⟨hTs1, hTs2⟩, hcore⟩, hring⟩ := h
  have hP := two_pow_pos' P
  have hs : (0 : ℝ) < 2 ^ E := by positivity
  have hX10R : (X10 : ℝ) = 10 * 2 ^ E := by rw [hX10]; push_cast; ring
  have hWb := W_bounds E
  rw [← hW] at hWb
  have hfar : ∀ x : ℝ, 0 ≤ x → x ≤ 10 → 1 / 1000 < |x - p| → -(Ts : ℝ) / 2 ^ P ≤ fR E ts x := by
    rcases hring with (hr | hr) | hr
    · exact minRing_sound E ts hts X X10 W Ts _ p hpX hX10 hW hr
    · exact minRing_sound E ts hts X X10 W Ts _ p hpX hX10 hW hr
    · exact minRing_sound E ts hts X X10 W Ts _ p hpX hX10 hW hr
  have hTsTv : -(Tv : ℝ) / 2 ^ P ≤ -(Ts : ℝ) / 2 ^ P := by
    have : (Ts : ℝ) ≤ Tv := by exact_mod_cast Nat.le_of_ble_eq_true hTs2
    exact div_le_div_of_nonneg_right (by linarith) hP.le
  constructor
  · intro x hx0 hx10
    by_cases hn : |x - p| ≤ 1 / 1000
    · obtain ⟨c1, c2⟩ := core_cover E p X W X10 hpX hX10R hWb.2 x hx0 hx10 hn
      exact gbnb_sound E (fun x => -(Tv : ℝ) / 2 ^ P ≤ fR E ts x) (vLo (2 ^ (3 * E + P)) ts Tv)
        (fun lo hi h x => vLo_sound E ts hts Tv lo hi h x) 64 _ _ hcore x c1 c2
    · exact hTsTv.trans (hfar x hx0 hx10 (not_le.1 hn))
  · obtain ⟨q0, q10⟩ := q_in_box E Q X10 hX10 (Nat.le_of_ble_eq_true hQ)
    refine ⟨(Q : ℝ) / 2 ^ E, q0, q10, fun x hx0 hx10 hx => ?_⟩
    have hm : (Q : ℝ) / 2 ^ E * 2 ^ E = Q := by field_simp
    have hq := sDn_sound E Q Q ((Q : ℝ) / 2 ^ E) hm.ge hm.le ts hts
    rw [← sDnR_eq] at hq
    have hfq : fR E ts ((Q : ℝ) / 2 ^ E) ≤ -(dnQ : ℝ) / 2 ^ P := by
      unfold fR; rw [neg_div]; linarith
    have hsum : (Ts : ℝ) + etaP ≤ dnQ := by exact_mod_cast Nat.le_of_ble_eq_true hTs1
    have : -(dnQ : ℝ) / 2 ^ P + (etaP : ℝ) / 2 ^ P ≤ -(Ts : ℝ) / 2 ^ P := by
      rw [← add_div]; exact div_le_div_of_nonneg_right (by linarith) hP.le
    linarith [hfar x hx0 hx10 hx]

/-- **max clauses over ℝ** -/
theorem maxSide_sound (X X10 W etaP Tv : Nat) (p : ℝ) (hpX : p * 2 ^ E = (X : ℝ)) (hX10 : X10 = 10 * 2 ^ E)
    (hW : W = 2 ^ E / 1000)
    (h : maxSide (2 ^ (3 * E + P)) ts (ts.map (mkDT (2 ^ (4 * E + P)))) X X10 W etaP Tv = true) :
    (∀ x : ℝ, 0 ≤ x → x ≤ 10 → fR E ts x ≤ -(Tv : ℝ) / 2 ^ P) ∧
    (∃ q : ℝ, 0 ≤ q ∧ q ≤ 10 ∧ ∀ x : ℝ, 0 ≤ x → x ≤ 10 → 1 / 1000 < |x - p| →
      fR E ts x + (etaP : ℝ) / 2 ^ P ≤ fR E ts q) := by
  unfold maxSide at h
  simp only [force_eq, Bool.and_eq_true, Bool.or_eq_true] at h
  set Q := argBest false (fun q => sUpR (2 ^ (3 * E + P)) ts q q) (cands X W X10) X with hQdef
  set upQ := sUpR (2 ^ (3 * E + P)) ts Q Q with hupQ
  set Ts := Nat.add upQ etaP with hTs
  obtain ⟨hQ, ⟨hTs2, hcore⟩, hring⟩ := h
  have hP := two_pow_pos' P
  have hs : (0 : ℝ) < 2 ^ E := by positivity
  have hX10R : (X10 : ℝ) = 10 * 2 ^ E := by rw [hX10]; push_cast; ring
  have hWb := W_bounds E
  rw [← hW] at hWb
  have hfar : ∀ x : ℝ, 0 ≤ x → x ≤ 10 → 1 / 1000 < |x - p| → fR E ts x ≤ -(Ts : ℝ) / 2 ^ P := by
    rcases hring with (hr | hr) | hr
    · exact maxRing_sound E ts hts X X10 W Ts _ p hpX hX10 hW hr
    · exact maxRing_sound E ts hts X X10 W Ts _ p hpX hX10 hW hr
    · exact maxRing_sound E ts hts X X10 W Ts _ p hpX hX10 hW hr
  have hTsTv : -(Ts : ℝ) / 2 ^ P ≤ -(Tv : ℝ) / 2 ^ P := by
    have : (Tv : ℝ) ≤ Ts := by exact_mod_cast Nat.le_of_ble_eq_true hTs2
    exact div_le_div_of_nonneg_right (by linarith) hP.le
  constructor
  · intro x hx0 hx10
    by_cases hn : |x - p| ≤ 1 / 1000
    · obtain ⟨c1, c2⟩ := core_cover E p X W X10 hpX hX10R hWb.2 x hx0 hx10 hn
      exact gbnb_sound E (fun x => fR E ts x ≤ -(Tv : ℝ) / 2 ^ P) (vHi (2 ^ (3 * E + P)) ts Tv)
        (fun lo hi h x => vHi_sound E ts hts Tv lo hi h x) 64 _ _ hcore x c1 c2
    · exact (hfar x hx0 hx10 (not_le.1 hn)).trans hTsTv
  · obtain ⟨q0, q10⟩ := q_in_box E Q X10 hX10 (Nat.le_of_ble_eq_true hQ)
    refine ⟨(Q : ℝ) / 2 ^ E, q0, q10, fun x hx0 hx10 hx => ?_⟩
    have hm : (Q : ℝ) / 2 ^ E * 2 ^ E = Q := by field_simp
    have hq := sUp_sound E Q Q ((Q : ℝ) / 2 ^ E) hm.ge hm.le ts hts
    rw [← sUpR_eq] at hq
    have hfq : -(upQ : ℝ) / 2 ^ P ≤ fR E ts ((Q : ℝ) / 2 ^ E) := by
      unfold fR; rw [neg_div]; linarith
    have hsum : (Ts : ℝ) = (upQ : ℝ) + etaP := by rw [hTs]; show ((upQ + etaP : Nat) : ℝ) = _; push_cast; ring
    have : -(Ts : ℝ) / 2 ^ P + (etaP : ℝ) / 2 ^ P = -(upQ : ℝ) / 2 ^ P := by
      rw [← add_div, hsum]; ring
    linarith [hfar x hx0 hx10 hx]

end sides

/-! ### the link with `Prob.shekel` and its derivative -/

/-- the derivative of `Prob.shekel K A C`: `Σ 2 k (x-a)/(k (x-a)² + c)²` -/
noncomputable def shekelD (K A C : List ℝ) (x : ℝ) : ℝ :=
  ((List.zip K (List.zip A C)).map fun t => 2 * t.1 * (x - t.2.1) / (t.1 * (x - t.2.1) ^ 2 + t.2.2) ^ 2).sum

theorem dtermR_tab (E : Nat) (k a c : Dy) (hk : scaleOK E k = true) (ha : scaleOK E a = true)
    (hc : scaleOK E c = true) (x : ℝ) :
    dtermR E (scale E k, scale E a, scale E c * 2 ^ (2 * E)) x
      = 2 * dyR k * (x - dyR a) / (dyR k * (x - dyR a) ^ 2 + dyR c) ^ 2 := by
  unfold dtermR
  rw [dyR_eq_scale E k hk, dyR_eq_scale E a ha, dyR_eq_scale E c hc]
  simp only
  have : (((scale E c * 2 ^ (2 * E) : Nat) : ℝ)) / 2 ^ (3 * E) = (scale E c : ℝ) / 2 ^ E := by
    push_cast
    rw [show 3 * E = 2 * E + E by ring, pow_add]
    have h2 : (2 : ℝ) ^ (2 * E) ≠ 0 := by positivity
    have h3 : (2 : ℝ) ^ E ≠ 0 := by positivity
    field_simp
  rw [this]

theorem dfR_eq_shekelD (E : Nat) (k a c : List Dy) (h : tabOK E k a c = true) (x : ℝ) :
    dfR E (nterms E k a c) x = shekelD (k.map dyR) (a.map dyR) (c.map dyR) x := by
  unfold dfR shekelD
  rw [nterms_eq, List.zip_map, List.zip_map, List.map_map, List.map_map]
  congr 1
  apply List.map_congr_left
  intro t ht
  obtain ⟨h1, _, h3, h4, _⟩ := tabOK_mem h ht
  simp only [Function.comp, Prod.map]
  rw [dtermR_tab E _ _ _ h1 h3 h4]

/-! ### the clauses over ℝ -/

/-- **The table clauses of C18 for a function `f` on `[0,10]`** with derivative `f'`, tabulated minimum
`vmin` at `pmin`, maximum `vmax` at `pmax` and Lipschitz constant `L`:
values within `1e-4`, locations within `1e-3` (= `1e-4` of the range), constant within `0.1 %`. -/
structure ShekelTables (f f' : ℝ → ℝ) (vmin pmin vmax pmax L : ℝ) : Prop where
  /-- `f'` is the derivative of `f` -/
  deriv : ∀ x, HasDerivAt f (f' x) x
  pmin_in : 0 ≤ pmin ∧ pmin ≤ 10
  pmax_in : 0 ≤ pmax ∧ pmax ≤ 10
  /-- no value on the box is below the tabulated minimum by more than `1e-4` -/
  min_lower : ∀ x, 0 ≤ x → x ≤ 10 → vmin - 1e-4 ≤ f x
  /-- the value at the tabulated location of the minimum is at most `vmin + 1e-4` -/
  min_upper : f pmin ≤ vmin + 1e-4
  /-- no value on the box exceeds the tabulated maximum by more than `1e-4` -/
  max_upper : ∀ x, 0 ≤ x → x ≤ 10 → f x ≤ vmax + 1e-4
  /-- the value at the tabulated location of the maximum is at least `vmax - 1e-4` -/
  max_lower : vmax - 1e-4 ≤ f pmax
  /-- every point of the box farther than `1e-3` from `pmin` is beaten by some point `q` by `5e-7` -/
  min_loc : ∃ q, 0 ≤ q ∧ q ≤ 10 ∧ ∀ x, 0 ≤ x → x ≤ 10 → 1e-3 < |x - pmin| → f q + 5e-7 ≤ f x
  /-- every point of the box farther than `1e-3` from `pmax` is beaten by some point `q` by `3e-9` -/
  max_loc : ∃ q, 0 ≤ q ∧ q ≤ 10 ∧ ∀ x, 0 ≤ x → x ≤ 10 → 1e-3 < |x - pmax| → f x + 3e-9 ≤ f q
  /-- `|f'| ≤ 1.001 L` on the box -/
  lip_upper : ∀ x, 0 ≤ x → x ≤ 10 → |f' x| ≤ 1.001 * L
  /-- `|f'|` reaches `0.999 L` somewhere on the box -/
  lip_lower : ∃ w, 0 ≤ w ∧ w ≤ 10 ∧ 0.999 * L ≤ |f' w|

theorem floorNat_le (q : ℚ) (h : 0 ≤ q.floor) : ((q.floor.toNat : Nat) : ℝ) ≤ (q : ℝ) := by
  have h1 : ((q.floor.toNat : Nat) : ℤ) = q.floor := Int.toNat_of_nonneg h
  have h2 : ((q.floor : ℤ) : ℚ) ≤ q := Rat.floor_le q
  have h3 : ((q.floor : ℤ) : ℝ) ≤ (q : ℝ) := by exact_mod_cast (Rat.cast_le (K := ℝ)).2 h2
  have h4 : ((q.floor.toNat : Nat) : ℝ) = ((q.floor : ℤ) : ℝ) := by
    exact_mod_cast congrArg (Int.cast (R := ℝ)) h1
  rw [h4]; exact h3

theorem le_ceilNat (q : ℚ) : (q : ℝ) ≤ ((q.ceil.toNat : Nat) : ℝ) := by
  have h1 : q.ceil ≤ ((q.ceil.toNat : Nat) : ℤ) := Int.self_le_toNat _
  have h2 : q ≤ ((q.ceil : ℤ) : ℚ) := Rat.le_ceil
  have h3 : (q : ℝ) ≤ ((q.ceil : ℤ) : ℝ) := by exact_mod_cast (Rat.cast_le (K := ℝ)).2 h2
  have h4 : ((q.ceil : ℤ) : ℝ) ≤ ((q.ceil.toNat : Nat) : ℝ) := by exact_mod_cast h1
  exact h3.trans h4

theorem etaMin_le : (5e-7 : ℝ) ≤ (etaMinP : ℝ) / 2 ^ P := by
  rw [le_div_iff₀ (two_pow_pos' P)]; norm_num [etaMinP, P]

theorem etaMax_le : (3e-9 : ℝ) ≤ (etaMaxP : ℝ) / 2 ^ P := by
  rw [le_div_iff₀ (two_pow_pos' P)]; norm_num [etaMaxP, P]

theorem shekelTabCertE_sound (E : Nat) (k a c : List Dy) (vn pn vx px L : Dy)
    (h : shekelTabCertE E k a c vn pn vx px L = true) :
    ShekelTables (Prob.shekel (k.map dyR) (a.map dyR) (c.map dyR))
      (shekelD (k.map dyR) (a.map dyR) (c.map dyR)) (dyR vn) (dyR pn) (dyR vx) (dyR px) (dyR L) := by
  simp only [shekelTabCertE, force_eq, forceTerms_eq, forceDTs_eq, Bool.and_eq_true, decide_eq_true_eq] at h
  obtain ⟨⟨⟨⟨⟨htab, hpn⟩, hpx⟩, hXn⟩, hXx⟩, ⟨⟨⟨⟨⟨d1, d2⟩, d3⟩, hmin⟩, hmax⟩, d4⟩, hlip⟩ := h
  set ts := nterms E k a c with htsdef
  have hts := nterms_pos E k a c htab
  have hf : Prob.shekel (k.map dyR) (a.map dyR) (c.map dyR) = fR E ts :=
    funext fun x => fR_eq_shekel E k a c htab x
  have hf' : shekelD (k.map dyR) (a.map dyR) (c.map dyR) = dfR E ts :=
    funext fun x => (dfR_eq_shekelD E k a c htab x).symm
  rw [hf, hf']
  have hs : (0 : ℝ) < 2 ^ E := by positivity
  have hP := two_pow_pos' P
  have hpnX : dyR pn * 2 ^ E = (scale E pn : ℝ) := by rw [dyR_eq_scale E pn hpn]; field_simp
  have hpxX : dyR px * 2 ^ E = (scale E px : ℝ) := by rw [dyR_eq_scale E px hpx]; field_simp
  have hX10 : (10 * 2 ^ E : Nat) = 10 * 2 ^ E := rfl
  have inbox : ∀ X : Nat, X ≤ 10 * 2 ^ E → ∀ p : ℝ, p * 2 ^ E = (X : ℝ) → 0 ≤ p ∧ p ≤ 10 := by
    intro X hX p hp
    have h1 : (0 : ℝ) ≤ p * 2 ^ E := by rw [hp]; positivity
    have h2 : p * 2 ^ E ≤ 10 * 2 ^ E := by rw [hp]; exact_mod_cast hX
    exact ⟨nonneg_of_mul_nonneg_left h1 hs, le_of_mul_le_mul_right h2 hs⟩
  obtain ⟨mnA, q, q0, q10, mnB⟩ := minSide_sound E ts hts _ _ _ etaMinP _ (dyR pn) hpnX hX10 rfl hmin
  obtain ⟨mxA, q', q0', q10', mxB⟩ := maxSide_sound E ts hts _ _ _ etaMaxP _ (dyR px) hpxX hX10 rfl hmax
  obtain ⟨lpA, m, hm, lpB⟩ := lipOK_sound E ts hts _ _ _ hlip
  refine ⟨fR_hasDerivAt E ts hts, inbox _ (Nat.le_of_ble_eq_true hXn) _ hpnX,
    inbox _ (Nat.le_of_ble_eq_true hXx) _ hpxX, ?_, ?_, ?_, ?_, ⟨q, q0, q10, ?_⟩, ⟨q', q0', q10', ?_⟩, ?_, ?_⟩
  · -- min_lower
    intro x hx0 hx10
    refine le_trans ?_ (mnA x hx0 hx10)
    have := floorNat_le _ d3
    rw [le_div_iff₀ hP]
    push_cast at this
    rw [dyR_def vn]
    norm_num at this ⊢
    linarith
  · -- min_upper
    have hq := sDn_sound E _ _ (dyR pn) hpnX.ge hpnX.le ts hts
    rw [← sDnR_eq] at hq
    have c1 := (Rat.cast_le (K := ℝ)).2 d1
    push_cast at c1
    rw [dyR_def vn]
    have : fR E ts (dyR pn) = -(ts.map fun t => termR E t (dyR pn)).sum := rfl
    rw [this]
    rw [neg_div] at c1
    norm_num at c1 ⊢
    linarith
  · -- max_upper
    intro x hx0 hx10
    refine le_trans (mxA x hx0 hx10) ?_
    have := le_ceilNat (-(vx.toRat + 1 / 10000) * 2 ^ P)
    rw [div_le_iff₀ hP]
    push_cast at this
    rw [dyR_def vx]
    norm_num at this ⊢
    linarith
  · -- max_lower
    have hq := sUp_sound E _ _ (dyR px) hpxX.ge hpxX.le ts hts
    rw [← sUpR_eq] at hq
    have c1 := (Rat.cast_le (K := ℝ)).2 d2
    push_cast at c1
    rw [dyR_def vx]
    have : fR E ts (dyR px) = -(ts.map fun t => termR E t (dyR px)).sum := rfl
    rw [this]
    rw [neg_div] at c1
    norm_num at c1 ⊢
    linarith
  · -- min_loc
    intro x hx0 hx10 hx
    have := mnB x hx0 hx10 (by norm_num at hx ⊢; exact hx)
    have := etaMin_le
    linarith
  · -- max_loc
    intro x hx0 hx10 hx
    have := mxB x hx0 hx10 (by norm_num at hx ⊢; exact hx)
    have := etaMax_le
    linarith
  · -- lip_upper
    intro x hx0 hx10
    refine (lpA x (by positivity) (by push_cast; nlinarith)).trans ?_
    have := floorNat_le _ d4
    rw [div_le_iff₀ hP]
    push_cast at this
    rw [dyR_def L]
    norm_num at this ⊢
    linarith
  · -- lip_lower
    obtain ⟨w0, w10⟩ := q_in_box E m _ hX10 hm
    refine ⟨_, w0, w10, le_trans ?_ lpB⟩
    have := le_ceilNat (L.toRat * (999 / 1000) * 2 ^ P)
    rw [le_div_iff₀ hP]
    push_cast at this
    rw [dyR_def L]
    norm_num at this ⊢
    linarith

theorem shekelTabCert_sound (k a c : List Dy) (vn pn vx px L : Dy) (h : shekelTabCert k a c vn pn vx px L = true) :
    ShekelTables (Prob.shekel (k.map dyR) (a.map dyR) (c.map dyR))
      (shekelD (k.map dyR) (a.map dyR) (c.map dyR)) (dyR vn) (dyR pn) (dyR vx) (dyR px) (dyR L) := by
  unfold shekelTabCert at h
  rw [force_eq] at h
  exact shekelTabCertE_sound _ k a c vn pn vx px L h

/-- the derivative of function `i` of the Shekel family over ℝ, with the generated tables:
`Σⱼ 2 kⱼ (x - aⱼ)/(kⱼ (x - aⱼ)² + cⱼ)²` -/
noncomputable def shekelDeriv (i : Nat) : ℝ → ℝ :=
  shekelD ((Gen.shekelK i).map dyR) ((Gen.shekelA i).map dyR) ((Gen.shekelC i).map dyR)

/-- **generic C18 table theorem for Shekel**: if the Boolean certificate of function `i` evaluates to
`true`, the table clauses hold over ℝ for `Prob.shekel` with row `i` of the tables -/
theorem shekelTabOK_sound (i : Nat) (h : shekelTabOK i = true) :
    ShekelTables (shekelFn i) (shekelDeriv i) (dyR (Gen.shekelMinValue i)) (dyR (Gen.shekelMinPoint i))
      (dyR (Gen.shekelMaxValue i)) (dyR (Gen.shekelMaxPoint i)) (dyR (Gen.shekelLip i)) := by
  unfold shekelTabOK at h
  rw [force_eq] at h
  exact shekelTabCert_sound _ _ _ _ _ _ _ _ h

end Shk
