import IOptProofs.BenchMeta3
import IOptGen.HillTables
/-!
The metadata rows 0..999 are the Hill functions 0..999 and declare exactly the optimum of the `minHill`
table (`Gen.hillMinValue`, `Gen.hillMinPoint`) and the box `[0, 1]`.
(The two packed tables are walked in parallel, once, as for Shekel in `BenchMeta3.lean`.)
-/
namespace BenchMeta
open Gen
set_option maxRecDepth 100000

/-- metadata row `m` is the Hill function `i` whose table row is `s`: family 0, argument `i`, declared
point `[minHill[i][1]]`, declared value `minHill[i][0]`, box `[0,1]` -/
def hillPairOK (i m s : Nat) : Bool :=
  (metaDecode m).family == 0 && (metaDecode m).arg0 == i &&
  (metaDecode m).optPoint == [Dy.get s 29] && (metaDecode m).optValue == Dy.get s 28 &&
  (metaDecode m).lower == [dyZero] && (metaDecode m).upper == [dy1]

theorem meta_hill_pairs :
    checkPairs hillPairOK metaRowsPacked.toList hillRows.toList 0 0 = true := by decide +kernel

theorem hillRows_size : hillRows.size = 1000 := by decide +kernel

/-- for every Hill function `i < 1000`, metadata row `i` is its row: it declares the optimum of the
`minHill` table and the box `[0,1]` -/
theorem hill_meta_row (i : Nat) (hi : i < 1000) :
    i < metaRowsPacked.size ∧ (metaDecode metaRowsPacked[i]!).family = 0 ∧
      (metaDecode metaRowsPacked[i]!).arg0 = i ∧
      (metaDecode metaRowsPacked[i]!).optPoint = [hillMinPoint i] ∧
      (metaDecode metaRowsPacked[i]!).optValue = hillMinValue i ∧
      (metaDecode metaRowsPacked[i]!).lower = [dyZero] ∧
      (metaDecode metaRowsPacked[i]!).upper = [dy1] := by
  have hsz : i < hillRows.toList.length := by rw [Array.length_toList, hillRows_size]; exact hi
  obtain ⟨hm, hf⟩ := checkPairs_sound _ _ _ _ _ meta_hill_pairs i hsz
  have hm' : i < metaRowsPacked.size := by simpa using hm
  have hrow := getElem!_eq_toList metaRowsPacked i hm'
  have hs : hillRows[i]! = hillRows.toList[i] :=
    getElem!_eq_toList hillRows i (by rw [hillRows_size]; exact hi)
  simp only [hillPairOK, Bool.and_eq_true, beq_iff_eq, Nat.zero_add] at hf
  obtain ⟨⟨⟨⟨⟨h1, h2⟩, h3⟩, h4⟩, h5⟩, h6⟩ := hf
  rw [← hrow] at h1 h2 h3 h4 h5 h6
  refine ⟨hm', h1, h2, ?_, ?_, h5, h6⟩
  · rw [h3]; show [Dy.get hillRows.toList[i] 29] = [Dy.get hillRows[i]! 29]; rw [hs]
  · rw [h4]; show Dy.get hillRows.toList[i] 28 = Dy.get hillRows[i]! 28; rw [hs]

end BenchMeta
