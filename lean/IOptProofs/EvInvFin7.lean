import IOptProofs.EvInvFin
/-! # Finite facts about `Ev.node` / `Ev.numbr` for N = 7 (kernel evaluation) -/
namespace Ev.Inv
theorem nodeOK7 : ∀ d < 2^7, nodeOK 7 d = true := by decide +kernel
theorem numbrOK7 : ∀ u ∈ allSigns 7, numbrOK 7 u = true := by decide +kernel
end Ev.Inv
