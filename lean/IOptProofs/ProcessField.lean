import IOptProofs.MethodProc
import IOptProofs.ProcessMin
import IOptProofs.ProcessEvents
import IOptProps.C03
import IOptProps.C13
/-!
# Corollaries over an ordered field: with an objective that never raises, nothing raises

Worker `c`'s bridge (`IOptProofs/MethodProc.lean`: `Proc.solveLoop_total`, `Proc.doGlobalIteration_total`) shows that over a
linearly ordered field with the laws of the library functions (`FnsLaws`), `1 < r`, `0 < n`, the exceptions of
`CalculateIterationPoint` are unreachable.  Combined with the control-flow theorems this removes the "nothing raises"
hypotheses of C03 / C13 for objectives that never raise.
-/

set_option linter.unusedSectionVars false

namespace Proc
open AGP AGP.Ctl
variable {α : Type} [Field α] [LinearOrder α] [IsStrictOrderedRing α] [Fns α]
variable {p : Params α} {f : Nat → List α → Option α}

/-- `Solve` on a fresh solver with an objective that never raises catches no exception -/
theorem solve_fresh_no_raise (hL : FnsLaws α) (hr : 1 < p.r) (hn : 0 < p.n) (htot : ∀ i pt, f i pt ≠ none) :
    (solveLoop p f (p.itersLimit + 1) {}).2 = false :=
  (solveLoop_total hL hr hn htot _ (procOK_fresh p)).1

theorem procOK_of_core {ps ps' : PState α} (hc : ps'.core = ps.core) (h : ProcOK p ps) : ProcOK p ps' := by
  obtain ⟨h1, h2, -, -, -⟩ := PState.core_eq_iff.1 hc
  unfold ProcOK at h ⊢
  rw [h1, h2]; exact h

/-- sequences of operations without refinement, objective never raises: no `DoGlobalIteration` raises -/
theorem noIterRaise_total (hL : FnsLaws α) (hr : 1 < p.r) (hn : 0 < p.n) (htot : ∀ i pt, f i pt ≠ none)
    (ops : List Op) {ps : PState α} (h : ProcOK p ps) :
    NoIterRaise p f (fun _ => none) ops ps := by
  induction ops generalizing ps with
  | nil => trivial
  | cons op ops ih =>
    refine ⟨?_, ih ?_⟩
    · rintro ⟨k, rfl, hra⟩
      exact hra (doGlobalIteration_total hL hr hn htot k h)
    · cases op with
      | iter k =>
        exact doGlobalIteration_procOK k h (doGlobalIteration_total hL hr hn htot k h)
      | solve =>
        have h2 := (solveLoop_total hL hr hn htot (p.itersLimit + 1) h).2
        refine procOK_of_core ?_ h2
        show (solve p f (fun _ => none) ps).core = _
        rw [solve_eq]; rfl

end Proc

/-! ### C03 / C13 for objectives that never raise, over an ordered field (no "nothing raises" hypothesis) -/

namespace C03
open AGP AGP.Ctl Proc
variable {α : Type} [Field α] [LinearOrder α] [IsStrictOrderedRing α] [Fns α]

/-- **C03 over an ordered field, objective never raises.**  With the laws of the library functions, `1 < r`, `0 < n`,
`itersLimit ≥ 1` and an objective that never raises, `Solve` on a fresh solver performs exactly `K` iterations, `1 ≤ K ≤ itersLimit`,
where `K` is the least `k ≥ 2` with `δ_k < eps`, capped by `itersLimit`; the number of calls of the objective is `K`; the criterion
holds in the final state. -/
theorem C03_stop_exact_field (p : Params α) (f : Nat → List α → Option α) (refine : PState α → Option (LocalResult α))
    (hL : FnsLaws α) (hr : 1 < p.r) (hn : 0 < p.n) (htot : ∀ i pt, f i pt ≠ none) (hlim : 1 ≤ p.itersLimit) :
    ∃ K, (solve p f refine {}).nTrials = K ∧ (solve p f refine {}).evals.length = K ∧ (solve p f refine {}).calls = K ∧
      1 ≤ K ∧ K ≤ p.itersLimit ∧
      (K = p.itersLimit ∨ ∃ d, delta p f K = some d ∧ d < p.eps) ∧
      (∀ k d, k < K → delta p f k = some d → ¬ d < p.eps) ∧
      stopNow p (solve p f refine {}) = true := by
  obtain ⟨K, h1, h2, h3, h4, h5, h6, h7⟩ := C03_stop_exact p f refine hlim (solve_fresh_no_raise hL hr hn htot)
  have hc := (C03_trials_eq_evals p f refine).2.2.2.2.2.2.2 htot
  exact ⟨K, h1, h2, by rw [hc, h1], h3, h4, h5, h6, h7⟩

/-- **C03 over an ordered field: the reported accuracy is the smallest subdivided length** (objective never raises). -/
theorem C03_accuracy_is_min_field (p : Params α) (f : Nat → List α → Option α) (refine : PState α → Option (LocalResult α))
    (hL : FnsLaws α) (hr : 1 < p.r) (hn : 0 < p.n) (htot : ∀ i pt, f i pt ≠ none) :
    ∃ K, (solve p f refine {}).nTrials = K ∧
      (∀ d, d ∈ deltas p f {} K ↔ ∃ k, 2 ≤ k ∧ k ≤ K ∧ delta p f k = some d) ∧
      (∀ k, 2 ≤ k → k ≤ K → ∃ d, delta p f k = some d) ∧
      (K ≤ 1 → (solve p f refine {}).minDelta = none) ∧
      (2 ≤ K → ∃ m, (solve p f refine {}).minDelta = some m ∧ m ∈ deltas p f {} K ∧ ∀ d ∈ deltas p f {} K, m ≤ d) :=
  C03_accuracy_is_min p f refine (solve_fresh_no_raise hL hr hn htot)

end C03

namespace C13
open AGP AGP.Ctl Proc
variable {α : Type} [Field α] [LinearOrder α] [IsStrictOrderedRing α] [Fns α]

/-- **C13 over an ordered field, objective never raises, no refinement configured.**  After any sequence of
`DoGlobalIteration(k_j)` (`k_j ≥ 1`) and `Solve` calls on a fresh solver: `BeforeMethodStart` occurs exactly once if the objective
was called at all (and not otherwise), before every `OnEndIteration`; the id lists of the `OnEndIteration` notifications
concatenate to exactly `2, 3, …, numberOfGlobalTrials + 1`, the ids of the evaluated trials in evaluation order. -/
theorem C13_events_wellformed_field (p : Params α) (f : Nat → List α → Option α)
    (hL : FnsLaws α) (hr : 1 < p.r) (hn : 0 < p.n) (htot : ∀ i pt, f i pt ≠ none)
    (ops : List Op) (hops : ∀ k, Op.iter k ∈ ops → 1 ≤ k) :
    let ps := runOps p f (fun _ => none) ops {}
    (ps.log.count Event.beforeStart = if ps.calls = 0 then 0 else 1) ∧
    Ordered ps.log ∧
    idsOf ps.log = List.range' 2 ps.nTrials := by
  intro ps
  obtain ⟨h1, h2, -, h4⟩ := C13_events_wellformed p f (fun _ => none) htot ops hops
  exact ⟨h1, h2, h4 (noIterRaise_total hL hr hn htot ops (procOK_fresh p))⟩

end C13
