import IOptProofs.ProcessRefine
import IOptProofs.ProcessResume
import IOptProofs.ProcessField
import IOptProofs.ComposeInv
import IOptProps.C04
/-!
# The reported trial (`GetResults`, model `Proc.reportedId`) over an ordered field

`Process.GetResults()` reports the trial improved by the last local refinement while it is another trial than the
method's best and its value holder is strictly smaller; otherwise the method's best.  This file proves that, when every
refinement returns a value not larger than the value holder of the trial it starts from (the Nelder–Mead contract), the
reported value is the smallest value holder of all evaluated trials, in every state reached by any sequence of user
operations, and that it never increases.
-/
set_option linter.unusedSectionVars false

namespace Proc
open AGP AGP.Ctl
variable {α : Type} [Field α] [LinearOrder α] [IsStrictOrderedRing α] [Fns α]

/-- a refinement that does not increase the value holder of the trial it refines leaves that trial the reported one -/
theorem reportedId_refine_of_le {ps : PState α} {s : State α} (lr : LocalResult α) (hm : ps.m = some s) {b : Item α}
    (hb : findItem s.items (reportedId ps s) = some b) (hle : lr.fx ≤ b.hv) :
    reportedId (doLocalRefinement ps lr) { s with items := s.items.map (refineItem (reportedId ps s) lr) } =
      reportedId ps s := by
  apply reportedId_doLocalRefinement lr hm hb
  rcases reportedId_cases ps s with h | ⟨ri, bi, -, -, hri, hbi, hlt⟩
  · exact .inl h
  · refine .inr fun bi' hbi' => ?_
    rw [hbi] at hbi'; cases hbi'
    rw [hb] at hri; cases hri
    exact lt_of_le_of_lt hle hlt

/-! ### the state up to what a refinement overwrites is a state of the global search -/

/-- up to the points and value holders that `DoLocalRefinement` overwrites (and `nLocal`, `refined`), `ps` is a state whose
method state is reachable with the evaluation log `ps.evals` -/
def BaseOK (p : Params α) (ps : PState α) : Prop := ∃ ps0, ProcOK p ps0 ∧ ps.forget = ps0.forget

theorem baseOK_fresh (p : Params α) : BaseOK p ({} : PState α) := ⟨{}, procOK_fresh p, rfl⟩

theorem baseOK_log {p : Params α} {ps : PState α} (l : List Event) (h : BaseOK p ps) : BaseOK p { ps with log := l } := by
  obtain ⟨ps0, hok, hf⟩ := h
  refine ⟨{ ps0 with log := l }, procOK_of_core (ps := ps0) rfl hok, ?_⟩
  show ({ ps.forget with log := l } : PState α) = { ps0.forget with log := l }
  rw [hf]

theorem baseOK_refine {p : Params α} {ps : PState α} (lr : LocalResult α) (h : BaseOK p ps) :
    BaseOK p (doLocalRefinement ps lr) := by
  obtain ⟨ps0, hok, hf⟩ := h
  exact ⟨ps0, hok, by rw [doLocalRefinement_forget]; exact hf⟩

theorem baseOK_sameMethod {p1 p2 : Params α} (h : SameMethod p1 p2) {ps : PState α} : BaseOK p2 ps ↔ BaseOK p1 ps := by
  constructor
  · rintro ⟨ps0, hok, hf⟩; exact ⟨ps0, (procOK_sameMethod h).1 hok, hf⟩
  · rintro ⟨ps0, hok, hf⟩; exact ⟨ps0, (procOK_sameMethod h).2 hok, hf⟩

theorem baseOK_ok {p : Params α} {f : Nat → List α → Option α} {ps ps' : PState α} {id : Nat} (h : BaseOK p ps)
    (hok : oneIteration p f ps = .ok (ps', id)) : BaseOK p ps' := by
  obtain ⟨ps0, hok0, hf⟩ := h
  have h1 := oneIteration_forget_congr (p := p) (f := f) hf
  rw [hok] at h1
  cases ho : oneIteration p f ps0 with
  | error x => rw [ho] at h1; obtain ⟨a, b⟩ := x; simp [forgetRes] at h1
  | ok x =>
    obtain ⟨ps0', id'⟩ := x
    rw [ho] at h1
    simp only [forgetRes, Except.ok.injEq, Prod.mk.injEq] at h1
    exact ⟨ps0', oneIteration_procOK hok0 ho, h1.1⟩

/-- with an objective that never raises no pass raises from such a state -/
theorem baseOK_no_error {p : Params α} {f : Nat → List α → Option α} (hL : FnsLaws α) (hr : 1 < p.r) (hn : 0 < p.n)
    (htot : ∀ i pt, f i pt ≠ none) {ps ps' : PState α} {e : Raise} (h : BaseOK p ps)
    (herr : oneIteration p f ps = .error (ps', e)) : False := by
  obtain ⟨ps0, hok0, hf⟩ := h
  have h1 := oneIteration_forget_congr (p := p) (f := f) hf
  rw [herr] at h1
  obtain ⟨ps0', id', ho⟩ := oneIteration_ok_of_total hL hr hn htot hok0
  rw [ho] at h1
  simp [forgetRes] at h1

/-- what is known of the stored trials in such a state -/
structure BaseFacts (ps : PState α) (s : State α) : Prop where
  nodup : (s.items.map (·.id)).Nodup
  ids_lt : ∀ it ∈ s.items, it.id < s.nextId
  /-- the method's best trial exists and is evaluated -/
  best : ∃ bi, findItem s.items s.best = some bi ∧ bi.ev = true
  /-- every recorded evaluation is the `z` of an evaluated stored trial -/
  evals : ∀ e ∈ ps.evals, ∃ a ∈ s.items, a.ev = true ∧ a.z = e.2

theorem BaseOK.facts {p : Params α} (hL : FnsLaws α) (hr : 1 < p.r) (hn : 0 < p.n) {ps : PState α} {s : State α}
    (h : BaseOK p ps) (hm : ps.m = some s) : BaseFacts ps s := by
  obtain ⟨ps0, hok, hf⟩ := h
  have hm0 : ps.m.map State.forget = ps0.m.map State.forget := congrArg (·.m) hf
  have he : ps.evals = ps0.evals := congrArg (·.evals) hf
  rw [hm] at hm0
  cases hm0' : ps0.m with
  | none => rw [hm0'] at hm0; simp at hm0
  | some s0 =>
    rw [hm0'] at hm0
    simp only [Option.map_some, Option.some.injEq] at hm0
    have hre : Reach p s0 ps0.evals := by unfold ProcOK at hok; rw [hm0'] at hok; exact hok
    have hitems : s.items.map Item.forget = s0.items.map Item.forget := congrArg (·.items) hm0
    have hnext : s.nextId = s0.nextId := congrArg (·.nextId) hm0
    have hbest : s.best = s0.best := congrArg (·.best) hm0
    have hI := (hre.inv hL hr hn).toInvItems
    have hl := hre.logInv hL hr hn
    have hids : ∀ l : List (Item α), l.map (·.id) = (l.map Item.forget).map (·.id) := by
      intro l; rw [List.map_map]; rfl
    have hto : ∀ a ∈ s.items, ∃ a0 ∈ s0.items, a0.forget = a.forget := by
      intro a ha
      have : a.forget ∈ s0.items.map Item.forget := by rw [← hitems]; exact List.mem_map_of_mem ha
      obtain ⟨a0, h0, e0⟩ := List.mem_map.1 this
      exact ⟨a0, h0, e0⟩
    have hfrom : ∀ a0 ∈ s0.items, ∃ a ∈ s.items, a.forget = a0.forget := by
      intro a0 ha0
      have : a0.forget ∈ s.items.map Item.forget := by rw [hitems]; exact List.mem_map_of_mem ha0
      obtain ⟨a, h1, e1⟩ := List.mem_map.1 this
      exact ⟨a, h1, e1⟩
    refine ⟨?_, ?_, ?_, ?_⟩
    · rw [hids, hitems, ← hids]; exact hI.ids_nodup
    · intro a ha
      obtain ⟨a0, h0, e0⟩ := hto a ha
      have : a0.id = a.id := congrArg (·.id) e0
      rw [hnext, ← this]; exact hI.ids_lt a0 h0
    · obtain ⟨it0, hfind0, -, -, hev0, -⟩ := C04_best hL hr hn hre
      have h1 : (findItem s.items s.best).map Item.forget = some it0.forget := by
        rw [← findItem_forget, hitems, hbest, findItem_forget, hfind0]; rfl
      cases hb : findItem s.items s.best with
      | none => rw [hb] at h1; simp at h1
      | some bi =>
        rw [hb] at h1
        simp only [Option.map_some, Option.some.injEq] at h1
        have : bi.ev = it0.ev := congrArg (·.ev) h1
        exact ⟨bi, rfl, by rw [this]; exact hev0⟩
    · intro e hmem
      rw [he] at hmem
      obtain ⟨it0, h0, hev0, rfl⟩ := mem_evalsOf.1 (hl.perm.mem_iff.2 hmem)
      obtain ⟨a, ha, e1⟩ := hfrom it0 h0
      have h2 : a.ev = it0.ev := congrArg (·.ev) e1
      have h3 : a.z = it0.z := congrArg (·.z) e1
      exact ⟨a, ha, by rw [h2]; exact hev0, h3⟩

/-! ### the reported trial is the better of the two candidates -/

theorem findItem_iff_mem {l : List (Item α)} (hnd : (l.map (·.id)).Nodup) {id : Nat} {a : Item α} :
    findItem l id = some a ↔ a ∈ l ∧ a.id = id := by
  constructor
  · intro h; exact ⟨findItem_mem h, findItem_id_eq h⟩
  · rintro ⟨h, rfl⟩; exact findItem_of_mem hnd h

/-- the reported trial exists as soon as the method's best does; its value holder is not larger than that of the method's best
nor than that of the trial refined last, and it is one of the two -/
theorem reported_spec (ps : PState α) (s : State α) {bi : Item α} (hb : findItem s.items s.best = some bi) :
    ∃ rep, findItem s.items (reportedId ps s) = some rep ∧ rep.hv ≤ bi.hv ∧
      (∀ r ri, ps.refined = some r → findItem s.items r = some ri → rep.hv ≤ ri.hv) ∧
      (rep = bi ∨ ∃ r, ps.refined = some r ∧ r ≠ s.best ∧ findItem s.items r = some rep) := by
  cases hr : ps.refined with
  | none =>
    refine ⟨bi, by rw [reportedId_of_none s hr]; exact hb, le_refl _, ?_, .inl rfl⟩
    intro r ri h; cases h
  | some r =>
    rw [reportedId_of_some s hr]
    cases hri : findItem s.items r with
    | none =>
      refine ⟨bi, by simpa using hb, le_refl _, ?_, .inl rfl⟩
      intro r' ri' h h'
      cases h
      rw [hri] at h'; cases h'
    | some ri =>
      rw [hb]
      simp only []
      by_cases hc : r ≠ s.best ∧ ri.hv < bi.hv
      · rw [if_pos hc]
        refine ⟨ri, hri, le_of_lt hc.2, ?_, .inr ⟨r, rfl, hc.1, hri⟩⟩
        intro r' ri' h h'
        cases h
        rw [hri] at h'; cases h'
        exact le_refl _
      · rw [if_neg hc]
        refine ⟨bi, hb, le_refl _, ?_, .inl rfl⟩
        intro r' ri' h h'
        cases h
        rw [hri] at h'; cases h'
        by_cases hrb : r = s.best
        · rw [hrb, hb] at hri; cases hri; exact le_refl _
        · exact not_lt.1 fun hlt => hc ⟨hrb, hlt⟩

/-! ### the invariant on the value holders -/

/-- what the reported trial depends on: id, evaluated?, `z`, value holder -/
def rec4 (it : Item α) : Nat × Bool × α × α := (it.id, it.ev, it.z, it.hv)

/-- the invariant on the value holders of the stored trials (`ps.m = some s`) -/
structure HvOK (ps : PState α) (s : State α) : Prop where
  /-- a value holder is never above the value the global search saw (refinements only lower it) -/
  le_z : ∀ it ∈ s.items, it.ev = true → it.hv ≤ it.z
  /-- the trial refined last is an evaluated trial -/
  refined_ev : ∀ it ∈ s.items, ps.refined = some it.id → it.ev = true
  /-- the value holder of the method's best is untouched unless it is the trial refined last -/
  best_fresh : ps.refined ≠ some s.best → ∀ b, findItem s.items s.best = some b → b.hv = b.z
  /-- **the reported value holder is the smallest of all evaluated trials** -/
  rep_min : ∀ rep, findItem s.items (reportedId ps s) = some rep → ∀ a ∈ s.items, a.ev = true → rep.hv ≤ a.hv

/-- one more trial with value `z` (a new item with a new id; the other items keep id, `ev`, `z`, `hv`; the method's best moves
to the new trial iff `z` is strictly below the `z` of the best so far) preserves the invariant -/
theorem HvOK.step {ps ps' : PState α} {s s' : State α} {z : α} {b : Item α}
    (hR : ps'.refined = ps.refined)
    (hnd : (s.items.map (·.id)).Nodup) (hnd' : (s'.items.map (·.id)).Nodup)
    (hlt : ∀ it ∈ s.items, it.id < s.nextId)
    (hext : ∀ r, r ∈ s'.items.map rec4 ↔ r = (s.nextId, true, z, z) ∨ r ∈ s.items.map rec4)
    (hb : findItem s.items s.best = some b) (hbev : b.ev = true)
    (hbest : s'.best = if z < b.z then s.nextId else s.best)
    (h : HvOK ps s) : HvOK ps' s' := by
  have hc : ∀ a' ∈ s'.items, (a'.id = s.nextId ∧ a'.ev = true ∧ a'.z = z ∧ a'.hv = z) ∨
      ∃ a ∈ s.items, a.id = a'.id ∧ a.ev = a'.ev ∧ a.z = a'.z ∧ a.hv = a'.hv := by
    intro a' ha'
    rcases (hext (rec4 a')).1 (List.mem_map_of_mem ha') with h1 | h1
    · simp only [rec4, Prod.mk.injEq] at h1
      exact .inl h1
    · obtain ⟨a, ha, e⟩ := List.mem_map.1 h1
      simp only [rec4, Prod.mk.injEq] at e
      exact .inr ⟨a, ha, e⟩
  have hd : ∀ a ∈ s.items, ∃ a' ∈ s'.items, a'.id = a.id ∧ a'.ev = a.ev ∧ a'.z = a.z ∧ a'.hv = a.hv := by
    intro a ha
    obtain ⟨a', ha', e⟩ := List.mem_map.1 ((hext (rec4 a)).2 (.inr (List.mem_map_of_mem ha)))
    simp only [rec4, Prod.mk.injEq] at e
    exact ⟨a', ha', e⟩
  have hfwd : ∀ id a, findItem s.items id = some a →
      ∃ a', findItem s'.items id = some a' ∧ a'.ev = a.ev ∧ a'.z = a.z ∧ a'.hv = a.hv := by
    intro id a ha
    obtain ⟨hmem, hid⟩ := (findItem_iff_mem hnd).1 ha
    obtain ⟨a', ha', e1, e2, e3, e4⟩ := hd a hmem
    exact ⟨a', (findItem_iff_mem hnd').2 ⟨ha', by rw [e1, hid]⟩, e2, e3, e4⟩
  have hbwd : ∀ id a', id ≠ s.nextId → findItem s'.items id = some a' →
      ∃ a, findItem s.items id = some a ∧ a.ev = a'.ev ∧ a.z = a'.z ∧ a.hv = a'.hv := by
    intro id a' hne ha'
    obtain ⟨hmem, hid⟩ := (findItem_iff_mem hnd').1 ha'
    rcases hc a' hmem with ⟨h1, -⟩ | ⟨a, ha, e1, e2, e3, e4⟩
    · exact absurd (hid.symm.trans h1) hne
    · exact ⟨a, (findItem_iff_mem hnd).2 ⟨ha, by rw [e1, hid]⟩, e2, e3, e4⟩
  have hnew : ∀ a', findItem s'.items s.nextId = some a' → a'.ev = true ∧ a'.z = z ∧ a'.hv = z := by
    intro a' ha'
    obtain ⟨hmem, hid⟩ := (findItem_iff_mem hnd').1 ha'
    rcases hc a' hmem with ⟨-, h2⟩ | ⟨a, ha, e1, -⟩
    · exact h2
    · have := hlt a ha; omega
  have hbmem := (findItem_iff_mem hnd).1 hb
  have hbne : s.best ≠ s.nextId := by have := hlt b hbmem.1; omega
  -- the method's best after the step
  have hb' : ∃ bi', findItem s'.items s'.best = some bi' ∧
      ((z < b.z ∧ s'.best = s.nextId ∧ bi'.hv = z) ∨ (¬ z < b.z ∧ s'.best = s.best ∧ bi'.hv = b.hv ∧ bi'.z = b.z)) := by
    by_cases hz : z < b.z
    · rw [if_pos hz] at hbest
      obtain ⟨n, hn, e⟩ := List.mem_map.1 ((hext (s.nextId, true, z, z)).2 (.inl rfl))
      simp only [rec4, Prod.mk.injEq] at e
      exact ⟨n, (findItem_iff_mem hnd').2 ⟨hn, by rw [hbest]; exact e.1⟩, .inl ⟨hz, hbest, e.2.2.2⟩⟩
    · rw [if_neg hz] at hbest
      obtain ⟨bi', h1, -, h3, h4⟩ := hfwd s.best b hb
      exact ⟨bi', by rw [hbest]; exact h1, .inr ⟨hz, hbest, h4, h3⟩⟩
  refine ⟨?_, ?_, ?_, ?_⟩
  · intro a' ha' hev
    rcases hc a' ha' with ⟨-, -, h3, h4⟩ | ⟨a, ha, -, e2, e3, e4⟩
    · rw [h3, h4]
    · rw [← e3, ← e4]; exact h.le_z a ha (by rw [e2]; exact hev)
  · intro a' ha' hr
    rw [hR] at hr
    rcases hc a' ha' with ⟨-, h2, -⟩ | ⟨a, ha, e1, e2, -⟩
    · exact h2
    · rw [← e2]; exact h.refined_ev a ha (by rw [e1]; exact hr)
  · intro hne b' hfb'
    rw [hR] at hne
    obtain ⟨bi', hfbi', hcase⟩ := hb'
    have hbb : bi' = b' := by rw [hfbi'] at hfb'; exact Option.some.inj hfb'
    subst hbb
    rcases hcase with ⟨-, hbe, -⟩ | ⟨-, hbe, -⟩
    · rw [hbe] at hfbi'
      obtain ⟨-, h2, h3⟩ := hnew bi' hfbi'
      rw [h2, h3]
    · rw [hbe] at hfbi' hne
      obtain ⟨a, ha, -, e3, e4⟩ := hbwd s.best bi' hbne hfbi'
      have hab : b = a := by rw [hb] at ha; exact Option.some.inj ha
      subst hab
      rw [← e3, ← e4]; exact h.best_fresh hne b hb
  · intro rep' hrep' a' ha' hev'
    obtain ⟨bi', hfbi', hcase⟩ := hb'
    obtain ⟨rep'', hrep'', hle1, hle2, -⟩ := reported_spec ps' s' hfbi'
    have hrr : rep' = rep'' := by rw [hrep'] at hrep''; exact Option.some.inj hrep''
    subst hrr
    obtain ⟨rep, hrep, hle3, -, hwho⟩ := reported_spec ps s hb
    have hmono : rep'.hv ≤ rep.hv := by
      rcases hwho with rfl | ⟨r, hr, -, hfr⟩
      · rcases hcase with ⟨hz, -, hbz⟩ | ⟨-, -, hbh, -⟩
        · by_cases hrb : ps.refined = some s.best
          · obtain ⟨b'', hfb'', -, -, e4⟩ := hfwd s.best rep hb
            rw [← e4]; exact hle2 s.best b'' (by rw [hR]; exact hrb) hfb''
          · have := h.best_fresh hrb rep hb
            rw [this]; exact le_of_lt (lt_of_le_of_lt (by rw [← hbz]; exact hle1) hz)
        · rw [← hbh]; exact hle1
      · obtain ⟨ri', hfri', -, -, e4⟩ := hfwd r rep hfr
        rw [← e4]; exact hle2 r ri' (by rw [hR]; exact hr) hfri'
    rcases hc a' ha' with ⟨-, -, -, h4⟩ | ⟨a, ha, -, e2, -, e4⟩
    · rw [h4]
      rcases hcase with ⟨-, -, hbz⟩ | ⟨hz, -, hbh, -⟩
      · rw [← hbz]; exact hle1
      · refine le_trans hle1 ?_
        rw [hbh]
        exact le_trans (h.le_z b hbmem.1 hbev) (not_lt.1 hz)
    · rw [← e4]; exact le_trans hmono (h.rep_min rep hrep a ha (by rw [e2]; exact hev'))

/-- the invariant reads `refined` only -/
theorem HvOK.congr {ps ps' : PState α} {s : State α} (hR : ps'.refined = ps.refined) (h : HvOK ps s) : HvOK ps' s := by
  have hrep : reportedId ps' s = reportedId ps s := reportedId_congr hR rfl rfl
  exact ⟨h.le_z, fun it hit hr => h.refined_ev it hit (by rw [← hR]; exact hr),
    fun hne => h.best_fresh (by rw [← hR]; exact hne), fun rep hrep' => h.rep_min rep (by rw [← hrep]; exact hrep')⟩

/-- the state after the first iteration satisfies the invariant -/
theorem HvOK.first (p : Params α) (z : α) {ps : PState α} (hr : ps.refined = none) : HvOK ps (firstIteration p z) := by
  have hbest : (firstIteration p z).best = 2 := rfl
  have hrep : reportedId ps (firstIteration p z) = 2 := by rw [reportedId_of_none _ hr]; rfl
  refine ⟨?_, ?_, ?_, ?_⟩
  · intro it hit hev
    simp only [firstIteration, List.mem_cons, List.not_mem_nil, or_false] at hit
    rcases hit with rfl | rfl | rfl
    · cases hev
    · exact le_refl _
    · cases hev
  · intro it _ h; rw [hr] at h; cases h
  · intro _ b hb
    rw [hbest] at hb
    simp only [firstIteration, findItem, List.find?] at hb
    simp at hb
    subst hb; rfl
  · intro rep hrep' a ha hev
    rw [hrep] at hrep'
    simp only [firstIteration, findItem, List.find?] at hrep'
    simp at hrep'
    subst hrep'
    simp only [firstIteration, List.mem_cons, List.not_mem_nil, or_false] at ha
    rcases ha with rfl | rfl | rfl
    · cases hev
    · exact le_refl _
    · cases hev

/-- a refinement that does not increase the value holder of the reported trial preserves the invariant -/
theorem HvOK.refine {ps : PState α} {s : State α} (lr : LocalResult α) (hm : ps.m = some s)
    (hnd : (s.items.map (·.id)).Nodup) {bi : Item α} (hbi : findItem s.items s.best = some bi) (hbev : bi.ev = true)
    {rep : Item α} (hrep : findItem s.items (reportedId ps s) = some rep) (hle : lr.fx ≤ rep.hv) (h : HvOK ps s) :
    HvOK (doLocalRefinement ps lr) { s with items := s.items.map (refineItem (reportedId ps s) lr) } := by
  have hR' : (doLocalRefinement ps lr).refined = some (reportedId ps s) := doLocalRefinement_refined lr hm
  have hrid' := reportedId_refine_of_le lr hm hrep hle
  obtain ⟨hrepmem, hrepid⟩ := (findItem_iff_mem hnd).1 hrep
  have hrepev : rep.ev = true := by
    obtain ⟨rep'', hrep'', -, -, hwho⟩ := reported_spec ps s hbi
    have : rep = rep'' := by rw [hrep] at hrep''; exact Option.some.inj hrep''
    subst this
    rcases hwho with rfl | ⟨r, hr, -, hfr⟩
    · exact hbev
    · exact h.refined_ev rep hrepmem (by rw [hr, findItem_id_eq hfr])
  have huniq : ∀ a ∈ s.items, a.id = reportedId ps s → a = rep := by
    intro a ha hid
    have := (findItem_iff_mem hnd).2 ⟨ha, hid⟩
    rw [hrep] at this; exact (Option.some.inj this).symm
  refine ⟨?_, ?_, ?_, ?_⟩
  · intro a' ha' hev
    obtain ⟨a, ha, rfl⟩ := List.mem_map.1 ha'
    by_cases hid : a.id = reportedId ps s
    · have := huniq a ha hid; subst this
      rw [refineItem_of_eq lr hid]
      exact le_trans hle (h.le_z a ha hrepev)
    · rw [refineItem_of_ne lr hid] at hev ⊢
      exact h.le_z a ha hev
  · intro a' ha' hr
    obtain ⟨a, ha, rfl⟩ := List.mem_map.1 ha'
    rw [hR', refineItem_id] at hr
    have := huniq a ha (Option.some.inj hr).symm; subst this
    rw [(refineItem_fields (reportedId ps s) lr a).2.2.2.1]; exact hrepev
  · intro hne b' hb'
    rw [hR'] at hne
    have hne' : reportedId ps s ≠ s.best := fun e => hne (by rw [e])
    have hne0 : ps.refined ≠ some s.best := by
      rcases reportedId_cases ps s with e | ⟨_, _, e, -⟩
      · exact absurd e hne'
      · rw [e]; exact hne
    have hb'' : findItem (s.items.map (refineItem (reportedId ps s) lr)) s.best = some b' := hb'
    rw [findItem_map_refineItem, hbi] at hb''
    simp only [Option.map_some, Option.some.injEq] at hb''
    rw [refineItem_of_ne lr (by rw [findItem_id_eq hbi]; exact fun e => hne' e.symm)] at hb''
    subst hb''
    exact h.best_fresh hne0 bi hbi
  · intro rep' hrep' a' ha' hev
    rw [hrid'] at hrep'
    have hrep'' : findItem (s.items.map (refineItem (reportedId ps s) lr)) (reportedId ps s) = some rep' := hrep'
    rw [findItem_map_refineItem, hrep] at hrep''
    simp only [Option.map_some, Option.some.injEq] at hrep''
    rw [refineItem_of_eq lr hrepid] at hrep''
    subst hrep''
    obtain ⟨a, ha, rfl⟩ := List.mem_map.1 ha'
    show lr.fx ≤ _
    by_cases hid : a.id = reportedId ps s
    · rw [refineItem_of_eq lr hid]
    · rw [refineItem_of_ne lr hid] at hev ⊢
      exact le_trans hle (h.rep_min rep hrep a ha hev)

theorem findItem_map_rec4 (l : List (Item α)) (id : Nat) :
    (findItem l id).map rec4 = (l.map rec4).find? (fun r => r.1 == id) := by
  unfold findItem
  rw [List.find?_map]
  rfl

/-- what a successful iteration (not the first) does to the records of the stored trials and to the method's best -/
theorem commit_ext {p : Params α} {s : State α} {pr : Prep α} (hp : prepare p s = .ok pr) (z : α) :
    (∀ r, r ∈ (commit p pr z).items.map rec4 ↔ r = (s.nextId, true, z, z) ∨ r ∈ s.items.map rec4) ∧
    (∀ b, findItem s.items s.best = some b → (commit p pr z).best = if z < b.z then s.nextId else s.best) := by
  obtain ⟨k, oid, q, hq, hold, hleft, hs, -⟩ := Ctl.prepare_ok hp
  have hpf := Ctl.prepare_ok_fields hp
  have hi : pr.s.items = (selState p s).items := by rw [hs]
  rw [← hi] at hold
  have herase : pr.s.items.map eraseR = s.items.map eraseR := (prepare_ok_weak hp).2.2.2.2.2
  have hrec0 : ∀ l : List (Item α), l.map rec4 = (l.map eraseR).map rec4 := by
    intro l; rw [List.map_map]; rfl
  have hrec : pr.s.items.map rec4 = s.items.map rec4 := by rw [hrec0, herase, ← hrec0]
  obtain ⟨hoid, as, bs, hdec, hno⟩ := List.find?_eq_some_iff_append.1 hold
  have hoid' : pr.old.id = oid := by simpa using hoid
  have hitems : (commit p pr z).items = as ++ cNew2 p pr z :: cOld2 p pr z :: bs := by
    rw [commit_eq]
    show insertBefore (cNew2 p pr z) (cOld2 p pr z) pr.s.items = _
    rw [hdec]
    refine insertBefore_append _ _ pr.old as bs rfl ?_
    intro c hc
    have := hno c hc
    rw [hoid']; simpa using this
  constructor
  · intro r
    rw [hitems, ← hrec, hdec]
    have h1 : rec4 (cNew2 p pr z) = (s.nextId, true, z, z) := by rw [← hpf.2.2.1]; rfl
    have h2 : rec4 (cOld2 p pr z) = rec4 pr.old := rfl
    simp only [List.map_append, List.map_cons, List.mem_append, List.mem_cons, h1, h2]
    tauto
  · intro b hb
    have h1 : (commit p pr z).best = cBest pr z := by rw [commit_eq]
    have h2 : (findItem pr.s.items pr.s.best).map rec4 = some (rec4 b) := by
      rw [findItem_map_rec4, hrec, hpf.2.2.2.2.2.2.1, ← findItem_map_rec4, hb]; rfl
    rw [h1]
    unfold cBest better
    cases hb1 : findItem pr.s.items pr.s.best with
    | none => rw [hb1] at h2; simp at h2
    | some b1 =>
      rw [hb1] at h2
      simp only [Option.map_some, Option.some.injEq, rec4, Prod.mk.injEq] at h2
      simp only [Option.map_some, Option.all_some, decide_eq_true_eq, h2.2.2.1, hpf.2.2.1, hpf.2.2.2.2.2.2.1]

/-! ### the invariant of the process -/

/-- the invariant that every sequence of user operations preserves (objective never raises, refinements obey the contract) -/
def RepOK (p : Params α) (ps : PState α) : Prop :=
  BaseOK p ps ∧ (ps.m = none → ps.refined = none) ∧ ∀ s, ps.m = some s → HvOK ps s

theorem repOK_fresh (p : Params α) : RepOK p ({} : PState α) :=
  ⟨baseOK_fresh p, fun _ => rfl, fun s hs => absurd hs (by simp)⟩

theorem repOK_sameMethod {p1 p2 : Params α} (h : SameMethod p1 p2) {ps : PState α} : RepOK p2 ps ↔ RepOK p1 ps := by
  unfold RepOK; rw [baseOK_sameMethod h]

/-- one successful pass preserves the invariant -/
theorem repOK_ok {p : Params α} {f : Nat → List α → Option α} (hL : FnsLaws α) (hr : 1 < p.r) (hn : 0 < p.n)
    {ps ps' : PState α} {id : Nat} (h : RepOK p ps) (hok : oneIteration p f ps = .ok (ps', id)) : RepOK p ps' := by
  obtain ⟨hB, hnone, hH⟩ := h
  have hB' := baseOK_ok hB hok
  have hR := oneIteration_ok_refined hok
  have hm' := (oneIteration_ok_counters hok).1
  refine ⟨hB', fun h0 => absurd h0 hm', ?_⟩
  intro s' hs'
  obtain ⟨-, -, pt, z, -, -, hcase⟩ := oneIteration_ok hok
  rcases hcase with ⟨hm, -, hms', -, -⟩ | ⟨s, pr, hm, hpr, -, hms', -, -⟩
  · rw [hms'] at hs'; cases hs'
    exact HvOK.first p z (by rw [hR]; exact hnone hm)
  · rw [hms'] at hs'; cases hs'
    have hF := hB.facts hL hr hn hm
    have hF' := hB'.facts hL hr hn hms'
    obtain ⟨b, hb, hbev⟩ := hF.best
    obtain ⟨hext, hbest⟩ := commit_ext hpr z
    exact HvOK.step hR hF.nodup hF'.nodup hF.ids_lt hext hb hbev (hbest b hb) (hH s hm)

/-- a refinement obeying the contract preserves the invariant -/
theorem repOK_refine {p : Params α} (hL : FnsLaws α) (hr : 1 < p.r) (hn : 0 < p.n) {ps : PState α} (lr : LocalResult α)
    (hle : ∀ s b, ps.m = some s → findItem s.items (reportedId ps s) = some b → lr.fx ≤ b.hv)
    (h : RepOK p ps) : RepOK p (doLocalRefinement ps lr) := by
  obtain ⟨hB, hnone, hH⟩ := h
  cases hm : ps.m with
  | none => rw [doLocalRefinement_none lr hm]; exact ⟨hB, hnone, hH⟩
  | some s =>
    have hF := hB.facts hL hr hn hm
    obtain ⟨bi, hbi, hbev⟩ := hF.best
    obtain ⟨rep, hrep, -⟩ := reported_spec ps s hbi
    have hm' : (doLocalRefinement ps lr).m = some { s with items := s.items.map (refineItem (reportedId ps s) lr) } := by
      rw [doLocalRefinement_some lr hm]
    refine ⟨baseOK_refine lr hB, ⟨fun h0 => ?_, ?_⟩⟩
    · rw [hm'] at h0; cases h0
    intro s' hs'
    rw [hm'] at hs'; cases hs'
    exact HvOK.refine lr hm hF.nodup hbi hbev hrep (hle s rep hm hrep) (hH s hm)

/-- the contract of the local search that matters for the reported optimum: the value returned is not larger than the value
holder of the trial the refinement starts from (the reported trial) -/
def RefineLe (refine : PState α → Option (LocalResult α)) : Prop :=
  ∀ ps lr s b, refine ps = some lr → ps.m = some s → findItem s.items (reportedId ps s) = some b → lr.fx ≤ b.hv

theorem repOK_stepInv {p : Params α} {f : Nat → List α → Option α} (hL : FnsLaws α) (hr : 1 < p.r) (hn : 0 < p.n)
    (htot : ∀ i pt, f i pt ≠ none) : StepInv p f (RepOK p) where
  log := fun ps l h => ⟨baseOK_log l h.1, h.2.1, fun s hs => HvOK.congr (ps := ps) rfl (h.2.2 s hs)⟩
  ok := fun _ _ _ h hok => repOK_ok hL hr hn h hok
  err := fun _ _ _ h herr => (baseOK_no_error hL hr hn htot h.1 herr).elim

theorem repOK_refInv {p : Params α} (hL : FnsLaws α) (hr : 1 < p.r) (hn : 0 < p.n)
    {refine : PState α → Option (LocalResult α)} (href : RefineLe refine) : RefInv (RepOK p) refine :=
  fun ps lr hlr h => repOK_refine hL hr hn lr (fun s b hm hb => href ps lr s b hlr hm hb) h

/-! ### what the invariant says about the reported trial -/

/-- under the invariant the reported trial exists, is an evaluated stored trial, and its value holder is the smallest value
holder of all evaluated trials; in particular it is not larger than any value the global search has seen -/
theorem RepOK.reported {p : Params α} (hL : FnsLaws α) (hr : 1 < p.r) (hn : 0 < p.n) {ps : PState α} {s : State α}
    (h : RepOK p ps) (hm : ps.m = some s) :
    ∃ it, findItem s.items (reportedId ps s) = some it ∧ it ∈ s.items ∧ it.id = reportedId ps s ∧ it.ev = true ∧
      it.hv ≤ it.z ∧ (∀ a ∈ s.items, a.ev = true → it.hv ≤ a.hv) ∧ (∀ e ∈ ps.evals, it.hv ≤ e.2) ∧
      (∀ b, findItem s.items s.best = some b → it.hv ≤ b.hv) := by
  obtain ⟨hB, -, hH⟩ := h
  have hF := hB.facts hL hr hn hm
  have hv := hH s hm
  obtain ⟨bi, hbi, hbev⟩ := hF.best
  obtain ⟨rep, hrep, hle, -, hwho⟩ := reported_spec ps s hbi
  obtain ⟨hmem, hid⟩ := (findItem_iff_mem hF.nodup).1 hrep
  have hev : rep.ev = true := by
    rcases hwho with rfl | ⟨r, hr', -, hfr⟩
    · exact hbev
    · exact hv.refined_ev rep hmem (by rw [hr', findItem_id_eq hfr])
  refine ⟨rep, hrep, hmem, hid, hev, hv.le_z rep hmem hev, hv.rep_min rep hrep, ?_, ?_⟩
  · intro e he
    obtain ⟨a, ha, haev, haz⟩ := hF.evals e he
    rw [← haz]
    exact le_trans (hv.rep_min rep hrep a ha haev) (hv.le_z a ha haev)
  · intro b hb
    rw [hbi] at hb; cases hb
    exact hle

/-- the invariant, and the solver has started and reports a value `≤ v` -/
def RepLe (p : Params α) (v : α) (ps : PState α) : Prop :=
  RepOK p ps ∧ ∃ s it, ps.m = some s ∧ findItem s.items (reportedId ps s) = some it ∧ it.hv ≤ v

theorem repLe_sameMethod {p1 p2 : Params α} (h : SameMethod p1 p2) {v : α} {ps : PState α} :
    RepLe p2 v ps ↔ RepLe p1 v ps := by
  unfold RepLe; rw [repOK_sameMethod h]

/-- **the reported value never increases along the global search** -/
theorem repLe_stepInv {p : Params α} {f : Nat → List α → Option α} (hL : FnsLaws α) (hr : 1 < p.r) (hn : 0 < p.n)
    (htot : ∀ i pt, f i pt ≠ none) (v : α) : StepInv p f (RepLe p v) where
  log := by
    rintro ps l ⟨hOK, s, it, hm, hit, hv⟩
    refine ⟨(repOK_stepInv hL hr hn htot).log ps l hOK, s, it, hm, ?_, hv⟩
    rw [← hit]; exact congrArg (findItem s.items) (reportedId_congr rfl rfl rfl)
  ok := by
    rintro ps ps' id ⟨hOK, s, it, hm, hit, hv⟩ hok
    have hOK' := repOK_ok hL hr hn hOK hok
    obtain ⟨-, -, pt, z, -, -, hcase⟩ := oneIteration_ok hok
    rcases hcase with ⟨hm0, -⟩ | ⟨s0, pr, hm0, hpr, -, hms', -, -⟩
    · rw [hm] at hm0; cases hm0
    · rw [hm] at hm0; cases hm0
      obtain ⟨it0, hit0, hmem, -, hev, -⟩ := hOK.reported hL hr hn hm
      rw [hit] at hit0; cases hit0
      obtain ⟨a', ha', e⟩ := List.mem_map.1 (((commit_ext hpr z).1 (rec4 it)).2 (.inr (List.mem_map_of_mem hmem)))
      simp only [rec4, Prod.mk.injEq] at e
      obtain ⟨it', hit', -, -, -, -, hmin, -⟩ := hOK'.reported hL hr hn hms'
      refine ⟨hOK', _, it', hms', hit', le_trans (hmin a' ha' (by rw [e.2.1]; exact hev)) ?_⟩
      rw [e.2.2.2]; exact hv
  err := fun _ _ _ h herr => (baseOK_no_error hL hr hn htot h.1.1 herr).elim

/-- **nor along a refinement that obeys the contract** -/
theorem repLe_refInv {p : Params α} (hL : FnsLaws α) (hr : 1 < p.r) (hn : 0 < p.n)
    {refine : PState α → Option (LocalResult α)} (href : RefineLe refine) (v : α) : RefInv (RepLe p v) refine := by
  rintro ps lr hlr ⟨hOK, s, it, hm, hit, hv⟩
  have hOK' := repOK_refInv hL hr hn href ps lr hlr hOK
  have hm' : (doLocalRefinement ps lr).m = some { s with items := s.items.map (refineItem (reportedId ps s) lr) } := by
    rw [doLocalRefinement_some lr hm]
  obtain ⟨it0, hit0, hmem, hid, hev, -⟩ := hOK.reported hL hr hn hm
  rw [hit] at hit0; cases hit0
  obtain ⟨it', hit', -, -, -, -, hmin, -⟩ := hOK'.reported hL hr hn hm'
  refine ⟨hOK', _, it', hm', hit', ?_⟩
  have ha' : refineItem (reportedId ps s) lr it ∈ s.items.map (refineItem (reportedId ps s) lr) := List.mem_map_of_mem hmem
  have h1 := hmin _ ha' (by rw [(refineItem_fields (reportedId ps s) lr it).2.2.2.1]; exact hev)
  rw [refineItem_of_eq lr hid] at h1
  exact le_trans h1 (le_trans (href ps lr s it hlr hm hit) hv)

theorem RepLe.mono {p : Params α} {v w : α} {ps : PState α} (hvw : v ≤ w) (h : RepLe p v ps) : RepLe p w ps := by
  obtain ⟨hOK, s, it, hm, hit, hv⟩ := h
  exact ⟨hOK, s, it, hm, hit, le_trans hv hvw⟩

/-- right after a refinement obeying the contract the reported value is at most (in fact equal to) the value returned -/
theorem repLe_after_refine {p : Params α} (hL : FnsLaws α) (hr : 1 < p.r) (hn : 0 < p.n) {ps : PState α} {s : State α}
    (lr : LocalResult α) (hm : ps.m = some s)
    (hle : ∀ s b, ps.m = some s → findItem s.items (reportedId ps s) = some b → lr.fx ≤ b.hv)
    (hOK : RepOK p ps) : RepLe p lr.fx (doLocalRefinement ps lr) := by
  have hOK' := repOK_refine hL hr hn lr hle hOK
  have hm' : (doLocalRefinement ps lr).m = some { s with items := s.items.map (refineItem (reportedId ps s) lr) } := by
    rw [doLocalRefinement_some lr hm]
  obtain ⟨it, hit, hmem, hid, hev, -⟩ := hOK.reported hL hr hn hm
  obtain ⟨it', hit', -, -, -, -, hmin, -⟩ := hOK'.reported hL hr hn hm'
  refine ⟨hOK', _, it', hm', hit', ?_⟩
  have ha' : refineItem (reportedId ps s) lr it ∈ s.items.map (refineItem (reportedId ps s) lr) := List.mem_map_of_mem hmem
  have h1 := hmin _ ha' (by rw [(refineItem_fields (reportedId ps s) lr it).2.2.2.1]; exact hev)
  rw [refineItem_of_eq lr hid] at h1
  exact h1

/-- what `GetResults()` returns right after a refinement obeying the contract: the trial it reported before, with the new point
and the new value -/
theorem reported_after_refine {p : Params α} (hL : FnsLaws α) (hr : 1 < p.r) (hn : 0 < p.n) {ps : PState α} {s : State α}
    (lr : LocalResult α) (hm : ps.m = some s)
    (hle : ∀ s b, ps.m = some s → findItem s.items (reportedId ps s) = some b → lr.fx ≤ b.hv)
    (hOK : RepOK p ps) :
    ∃ rep, reported ps = some rep ∧ reported (doLocalRefinement ps lr) = some { rep with point := lr.x, hv := lr.fx } := by
  obtain ⟨it, hit, -, hid, -⟩ := hOK.reported hL hr hn hm
  have hm' : (doLocalRefinement ps lr).m = some { s with items := s.items.map (refineItem (reportedId ps s) lr) } := by
    rw [doLocalRefinement_some lr hm]
  refine ⟨it, by rw [reported_of_some hm]; exact hit, ?_⟩
  rw [reported_of_some hm', reportedId_refine_of_le lr hm hit (hle s it hm hit)]
  show findItem (s.items.map (refineItem (reportedId ps s) lr)) (reportedId ps s) = _
  rw [findItem_map_refineItem, hit]
  simp only [Option.map_some, refineItem_of_eq lr hid]

/-- without refinement nothing is ever marked as refined -/
theorem refined_none_stepInv (p : Params α) (f : Nat → List α → Option α) :
    StepInv p f (fun ps => ps.refined = none) where
  log := fun _ _ h => h
  ok := fun _ _ _ h hok => by rw [oneIteration_ok_refined hok]; exact h
  err := fun _ _ _ h herr => by rw [oneIteration_error_refined herr]; exact h

end Proc
