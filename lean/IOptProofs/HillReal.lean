import IOptProofs.BenchReal
import Mathlib.Analysis.SpecialFunctions.Trigonometric.Deriv
import Mathlib.Tactic.Linarith
import Mathlib.Tactic.Ring
/-!
# Hill functions over `ℝ`: trigonometric sums, their derivatives, and the link to `Prob.hill`
-/

namespace Hill

/-- `Σ_j a_j sin((i+j)θ) + b_j cos((i+j)θ)` -/
noncomputable def tsum : List (ℝ × ℝ) → ℕ → ℝ → ℝ
  | [], _, _ => 0
  | p :: l, i, θ => p.1 * Real.sin (i * θ) + p.2 * Real.cos (i * θ) + tsum l (i + 1) θ

/-- coefficients of the derivative with respect to `θ` -/
def dcoef : List (ℝ × ℝ) → ℕ → List (ℝ × ℝ)
  | [], _ => []
  | p :: l, i => (-(i * p.2), i * p.1) :: dcoef l (i + 1)

theorem hasDerivAt_tsum (l : List (ℝ × ℝ)) : ∀ (i : ℕ) (θ : ℝ),
    HasDerivAt (tsum l i) (tsum (dcoef l i) i θ) θ := by
  induction l with
  | nil => intro i θ; simp only [tsum, dcoef]; exact hasDerivAt_const _ _
  | cons p l ih =>
    intro i θ
    have h1 : HasDerivAt (fun θ : ℝ => (i : ℝ) * θ) (i : ℝ) θ := by
      simpa using (hasDerivAt_id' θ).const_mul (i : ℝ)
    have hs : HasDerivAt (fun θ : ℝ => Real.sin (i * θ)) (Real.cos (i * θ) * i) θ :=
      (Real.hasDerivAt_sin _).comp θ h1
    have hc : HasDerivAt (fun θ : ℝ => Real.cos (i * θ)) (-Real.sin (i * θ) * i) θ :=
      (Real.hasDerivAt_cos _).comp θ h1
    have := ((hs.const_mul p.1).fun_add (hc.const_mul p.2)).fun_add (ih (i + 1) θ)
    simp only [dcoef]
    show HasDerivAt (fun θ => p.1 * Real.sin (i * θ) + p.2 * Real.cos (i * θ) + tsum l (i + 1) θ) _ θ
    refine this.congr_deriv ?_
    simp only [tsum]
    ring

/-- `Σ_j (i+j)^p (|a_j| + |b_j|)` -/
noncomputable def wsum (p : ℕ) : List (ℝ × ℝ) → ℕ → ℝ
  | [], _ => 0
  | q :: l, i => (i : ℝ) ^ p * (|q.1| + |q.2|) + wsum p l (i + 1)

theorem wsum_dcoef (p : ℕ) (l : List (ℝ × ℝ)) : ∀ i, wsum p (dcoef l i) i = wsum (p + 1) l i := by
  induction l with
  | nil => intro i; simp [wsum, dcoef]
  | cons q l ih =>
    intro i
    simp only [wsum, dcoef, ih]
    rw [abs_neg, abs_mul, abs_mul, abs_of_nonneg (Nat.cast_nonneg i)]
    ring

theorem abs_tsum_le (l : List (ℝ × ℝ)) : ∀ (i : ℕ) (θ : ℝ), |tsum l i θ| ≤ wsum 0 l i := by
  induction l with
  | nil => intro i θ; simp [tsum, wsum]
  | cons q l ih =>
    intro i θ
    simp only [tsum, wsum, pow_zero, one_mul]
    refine (abs_add_le _ _).trans ?_
    refine (add_le_add (abs_add_le _ _) (ih _ _)).trans ?_
    rw [abs_mul, abs_mul]
    have h1 : |q.1| * |Real.sin (i * θ)| ≤ |q.1| * 1 :=
      mul_le_mul_of_nonneg_left (Real.abs_sin_le_one _) (abs_nonneg _)
    have h2 : |q.2| * |Real.cos (i * θ)| ≤ |q.2| * 1 :=
      mul_le_mul_of_nonneg_left (Real.abs_cos_le_one _) (abs_nonneg _)
    linarith

/-- the Hill function of the coefficient list `l` -/
noncomputable def hf (l : List (ℝ × ℝ)) (x : ℝ) : ℝ := tsum l 0 (2 * Real.pi * x)
/-- its first three derivatives -/
noncomputable def hf1 (l : List (ℝ × ℝ)) (x : ℝ) : ℝ :=
  2 * Real.pi * tsum (dcoef l 0) 0 (2 * Real.pi * x)
noncomputable def hf2 (l : List (ℝ × ℝ)) (x : ℝ) : ℝ :=
  (2 * Real.pi) ^ 2 * tsum (dcoef (dcoef l 0) 0) 0 (2 * Real.pi * x)
noncomputable def hf3 (l : List (ℝ × ℝ)) (x : ℝ) : ℝ :=
  (2 * Real.pi) ^ 3 * tsum (dcoef (dcoef (dcoef l 0) 0) 0) 0 (2 * Real.pi * x)

theorem hasDerivAt_scaled (l : List (ℝ × ℝ)) (c : ℝ) (x : ℝ) :
    HasDerivAt (fun x => c * tsum l 0 (2 * Real.pi * x))
      (c * (2 * Real.pi) * tsum (dcoef l 0) 0 (2 * Real.pi * x)) x := by
  have h1 : HasDerivAt (fun x : ℝ => 2 * Real.pi * x) (2 * Real.pi) x := by
    simpa using (hasDerivAt_id' x).const_mul (2 * Real.pi)
  have := ((hasDerivAt_tsum l 0 (2 * Real.pi * x)).comp x h1).const_mul c
  refine this.congr_deriv ?_
  ring

theorem hasDerivAt_hf (l : List (ℝ × ℝ)) (x : ℝ) : HasDerivAt (hf l) (hf1 l x) x := by
  have := hasDerivAt_scaled l 1 x
  simp only [one_mul] at this
  exact this

theorem hasDerivAt_hf1 (l : List (ℝ × ℝ)) (x : ℝ) : HasDerivAt (hf1 l) (hf2 l x) x := by
  have := hasDerivAt_scaled (dcoef l 0) (2 * Real.pi) x
  refine this.congr_deriv ?_
  unfold hf2; ring

theorem hasDerivAt_hf2 (l : List (ℝ × ℝ)) (x : ℝ) : HasDerivAt (hf2 l) (hf3 l x) x := by
  have := hasDerivAt_scaled (dcoef (dcoef l 0) 0) ((2 * Real.pi) ^ 2) x
  refine this.congr_deriv ?_
  unfold hf3; ring

/-- `|f'''| ≤ (2π)³ Σ i³ (|a_i| + |b_i|)` -/
theorem abs_hf3_le (l : List (ℝ × ℝ)) (x : ℝ) : |hf3 l x| ≤ (2 * Real.pi) ^ 3 * wsum 3 l 0 := by
  unfold hf3
  have hp : 0 ≤ (2 * Real.pi) ^ 3 := by positivity
  rw [abs_mul, abs_of_nonneg hp]
  refine mul_le_mul_of_nonneg_left ?_ hp
  refine (abs_tsum_le _ _ _).trans ?_
  rw [wsum_dcoef, wsum_dcoef, wsum_dcoef]

/-- the model function is the trigonometric sum -/
theorem hill_eq_hf (a b : List ℝ) (x : ℝ) : Prob.hill a b x = hf (List.zip a b) x := by
  unfold Prob.hill hf
  have key : ∀ (l : List (ℝ × ℝ)) (k : ℕ) (acc : ℝ),
      (l.zipIdx k).foldl
        (fun res (p : (ℝ × ℝ) × ℕ) =>
          res + p.1.1 * MathFns.sin (Prob.nat (2 * p.2) * MathFns.pi * x)
            + p.1.2 * MathFns.cos (Prob.nat (2 * p.2) * MathFns.pi * x)) acc
        = acc + tsum l k (2 * Real.pi * x) := by
    intro l
    induction l with
    | nil => intro k acc; simp [tsum]
    | cons p l ih =>
      intro k acc
      rw [List.zipIdx_cons, List.foldl_cons, ih]
      simp only [tsum, BenchReal.sin_eq, BenchReal.cos_eq, BenchReal.pi_eq, BenchReal.nat_eq]
      have : ((2 * k : ℕ) : ℝ) * Real.pi * x = (k : ℝ) * (2 * Real.pi * x) := by push_cast; ring
      rw [this]; ring
  have := key (List.zip a b) 0 0
  rw [zero_add] at this
  exact this

end Hill
