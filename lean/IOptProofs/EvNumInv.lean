import IOptProofs.EvNumPt
/-!
# The loop of `__GetXonY` over a linearly ordered field (worker a2)

* `invDigits`: the digits recovered by `xLoop`; `xLoop_eq`: `xLoop` returns
  `x + r1 · frac (invDigits …)` (unconditionally).
* `invDigits_ptOf`: on the centre of the cell of a valid digit list the loop recovers that list.
-/

set_option linter.unusedSectionVars false
namespace Ev.Num
variable {α : Type} [Field α] [LinearOrder α] [IsStrictOrderedRing α] [FloorSemiring α]

/-- the sign read by `__GetXonY`: `-1` if `y < 0` else `1` -/
def sgnOf (y : α) : Int := if y < 0 then -1 else 1

theorem sgnOf_pm (y : α) : sgnOf y = 1 ∨ sgnOf y = -1 := by
  unfold sgnOf; split <;> simp

theorem zipWith_map_self {β γ δ : Type} (f : β → γ → δ) (g : β → γ) : ∀ (l : List β),
    List.zipWith f l (l.map g) = l.map (fun a => f a (g a))
  | [] => rfl
  | a :: l => by simp [zipWith_map_self f g l]

/-- one level of `__GetXonY` in closed form -/
theorem xLevel_eq (r : α) (y : List α) :
    xLevel r y = (y.map sgnOf, y.map fun yi => yi - (sgnOf yi : α) * r) := by
  unfold xLevel
  simp only [Prod.mk.injEq]
  refine ⟨rfl, ?_⟩
  rw [show (List.map (fun yi : α => if yi < 0 then (-1 : Int) else 1) y) = y.map sgnOf from rfl,
    zipWith_map_self]
  apply List.map_congr_left
  intro a _
  rw [addSigned_pm _ _ _ (by rcases sgnOf_pm a with h | h <;> simp [h])]
  push_cast; ring

theorem pm1_map_sgnOf (y : List α) : Inv.pm1 (y.map sgnOf) = true := by
  rw [Inv.pm1_iff]
  intro x hx
  obtain ⟨a, _, rfl⟩ := List.mem_map.1 hx
  exact sgnOf_pm a

/-- on a point `o · r + b` with `|b| < r` the level reads the signs `o` and leaves `b` -/
theorem xLevel_decomp (r : α) : ∀ (o : List Int) (b : List α), o.length = b.length →
    Inv.pm1 o = true → (∀ x ∈ b, |x| < r) →
    xLevel r (List.zipWith (fun (s : Int) (c : α) => (s : α) * r + c) o b) = (o, b) := by
  intro o b hl ho hb
  rw [xLevel_eq]
  induction o generalizing b with
  | nil => cases b with
    | nil => rfl
    | cons => simp at hl
  | cons s o ih =>
    cases b with
    | nil => simp at hl
    | cons c b =>
      simp only [Inv.pm1, List.all_cons, Bool.and_eq_true, Bool.or_eq_true, beq_iff_eq] at ho
      have hc := abs_lt.1 (hb c (by simp))
      have := ih b (by simpa using hl) ho.2 (fun x hx => hb x (by simp [hx]))
      simp only [Prod.mk.injEq] at this
      simp only [List.zipWith_cons_cons, List.map_cons, this.1, this.2, Prod.mk.injEq,
        List.cons.injEq, and_true]
      have hs : sgnOf ((s : α) * r + c) = s := by
        unfold sgnOf
        rcases ho.1 with rfl | rfl
        · rw [if_neg]; push_cast; linarith
        · rw [if_pos]; push_cast; linarith
      rw [hs]
      exact ⟨rfl, by ring⟩

/-- the digits recovered by the loop of `__GetXonY` (same recursion as `xLoop`) -/
def invDigits (n : Nat) : Nat → α → St → List α → List Nat
  | 0, _, _, _ => []
  | k+1, r, s, y =>
    (invStep n s (xLevel (r * half) y).1).2 ::
      invDigits n k (r * half) (invStep n s (xLevel (r * half) y).1).1 (xLevel (r * half) y).2

theorem length_invDigits (n : Nat) : ∀ (k : Nat) (r : α) (s : St) (y : List α),
    (invDigits n k r s y).length = k
  | 0, _, _, _ => rfl
  | k+1, r, s, y => by simp [invDigits, length_invDigits n k]

/-- `xLoop` accumulates the base-`2^n` fraction of the recovered digits -/
theorem xLoop_eq (n : Nat) : ∀ (k : Nat) (r r1 x : α) (s : St) (y : List α),
    xLoop n k r r1 x s y = x + r1 * frac n (invDigits n k r s y)
  | 0, r, r1, x, s, y => by simp [xLoop, invDigits, frac_nil]
  | k+1, r, r1, x, s, y => by
    have h2 : (2 : α)^n ≠ 0 := by positivity
    simp only [xLoop, invDigits, frac_cons]
    rw [xLoop_eq n k, nexp_eq]
    field_simp
    ring

/-- on the centre of the cell of a valid digit list `ds` the loop recovers `ds` -/
theorem invDigits_ptOf {n : Nat} (hn : Ev.DimOK n) : ∀ (ds : List Nat) (r : α) (s : St),
    0 < r → Inv.Valid n s → validDigits n ds →
    invDigits n ds.length r s (ptOf n (signs n s ds) r) = ds
  | [], _, _, _, _, _ => rfl
  | d :: ds, r, s, hr, hs, hd => by
    rw [validDigits_cons] at hd
    have hs' := Inv.step_valid hn hs hd.1
    have hsl := signList_signs hn ds _ hs' hd.2
    have hr2 : r * half = r / 2 := by rw [half_eq]; ring
    have hlv : xLevel (r / 2) (ptOf n (signs n s (d :: ds)) r) =
        ((step n s d).2, ptOf n (signs n (step n s d).1 ds) (r / 2)) := by
      rw [signs_cons]
      simp only [ptOf]
      apply xLevel_decomp
      · rw [Inv.step_snd_length hn hs hd.1, length_ptOf _ _ hsl]
      · exact Inv.step_snd_pm1 hn hs hd.1
      · exact abs_ptOf_lt _ _ (by positivity) hsl
    simp only [List.length_cons, invDigits, hr2, hlv, Inv.invStep_step hn hs hd.1]
    rw [invDigits_ptOf hn ds (r / 2) _ (by positivity) hs' hd.2]

/-- (2) at the level of `inverseCube` -/
theorem inverseCube_centre {n : Nat} (hn : Ev.DimOK n) (ds : List Nat)
    (hd : validDigits n ds) :
    inverseCube n ds.length ((cubeY n ds).map fun (Y : Int) => (Y : α) / 2^(ds.length + 1)) =
      (indexOf n ds : α) / (2^n)^ds.length := by
  have h1 : (n == 1) = false := by
    rw [beq_eq_false_iff_ne]; exact hn.ne_one
  rw [cubeY_map_eq_ptOf hn ds hd]
  simp only [inverseCube, h1, Bool.false_eq_true, if_false]
  rw [xLoop_eq, half_eq, invDigits_ptOf hn ds _ _ (by positivity) (Inv.valid_init n hn.pos) hd]
  simp [frac]

end Ev.Num
