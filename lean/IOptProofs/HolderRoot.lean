import IOptProofs.HolderSq
import Mathlib.Data.Nat.Find
import Mathlib.Analysis.SpecialFunctions.Pow.Real
import Mathlib.Analysis.SpecialFunctions.Sqrt
/-!
# Hölder property of the evolvent, part 3: the root-free and the `rpow` form, and the affine map to
a box  (worker h)
-/

namespace Ev

attribute [local instance] Ev.Num.floorTrunc

theorem pow_pow_swap (n p : Nat) : 1 / ((2:ℝ)^n)^p = (1 / 2^p)^n := by
  rw [one_div_pow, ← pow_mul, ← pow_mul, mul_comm]

/-- choice of the level: the greatest `p ≤ m` with `|Δx| ≤ 2^(-p n)` -/
theorem exists_level (n m : Nat) {d : ℝ} (hd1 : d ≤ 1) :
    ∃ p, p ≤ m ∧ d ≤ 1 / ((2:ℝ)^n)^p ∧ (p = m ∨ 1 / ((2:ℝ)^n)^(p+1) < d) := by
  classical
  let P : Nat → Prop := fun p => d ≤ 1 / ((2:ℝ)^n)^p
  have h0 : P 0 := by simp only [P, pow_zero, div_one]; exact hd1
  refine ⟨Nat.findGreatest P m, Nat.findGreatest_le m, Nat.findGreatest_spec (Nat.zero_le m) h0, ?_⟩
  rcases Nat.lt_or_ge (Nat.findGreatest P m) m with h | h
  · right
    have := Nat.findGreatest_is_greatest (P := P) (Nat.lt_succ_self _) h
    exact not_le.1 this
  · left
    exact le_antisymm (Nat.findGreatest_le m) h

/-- `‖Δy‖₂ ≤ √(n+3)·2^(-p)` from the squared bound -/
theorem dist2_imageCube_le_level {n : Nat} (hn : Ev.DimOK n) {m p : Nat} (hp : p ≤ m)
    {x' x'' : ℝ} (h0' : 0 ≤ x') (h1' : x' ≤ 1) (h0'' : 0 ≤ x'') (h1'' : x'' ≤ 1)
    (hd : |x' - x''| ≤ 1 / ((2:ℝ)^n)^p) :
    dist2 (imageCube n m x') (imageCube n m x'') ≤ Real.sqrt (n + 3) * (1 / 2^p) := by
  have h := sqDist_imageCube_le hn hp h0' h1' h0'' h1'' hd
  unfold dist2
  have e : ((n:ℝ) + 3) / 4^p = (Real.sqrt (n + 3) * (1 / 2^p))^2 := by
    rw [mul_pow, Real.sq_sqrt (by positivity)]
    have : (4:ℝ)^p = (2^p)^2 := by rw [← pow_mul, mul_comm, pow_mul]; norm_num
    rw [this]; field_simp
  rw [e] at h
  calc Real.sqrt (sqDist (imageCube n m x') (imageCube n m x''))
      ≤ Real.sqrt ((Real.sqrt (n + 3) * (1 / 2^p))^2) := Real.sqrt_le_sqrt h
    _ = Real.sqrt (n + 3) * (1 / 2^p) := Real.sqrt_sq (by positivity)

/-- **general root-free form** (no lower bound on `|Δx|`): if `|x' - x''| ≤ t^n` then
`‖y(x') - y(x'')‖₂ ≤ 2√(n+3)·max(t, 2^-(m+1))`. -/
theorem dist2_imageCube_le_max {n : Nat} (hn : Ev.DimOK n) (m : Nat)
    {x' x'' : ℝ} (h0' : 0 ≤ x') (h1' : x' ≤ 1) (h0'' : 0 ≤ x'') (h1'' : x'' ≤ 1)
    {t : ℝ} (ht : 0 ≤ t) (hd : |x' - x''| ≤ t^n) :
    dist2 (imageCube n m x') (imageCube n m x'') ≤
      2 * Real.sqrt (n + 3) * max t (1 / 2^(m+1)) := by
  have hd1 : |x' - x''| ≤ 1 := by rw [abs_le]; constructor <;> linarith
  obtain ⟨p, hp, hle, hgt⟩ := exists_level n m hd1
  have h := dist2_imageCube_le_level hn hp h0' h1' h0'' h1'' hle
  have hs : (0:ℝ) ≤ Real.sqrt (n + 3) := Real.sqrt_nonneg _
  have key : (1:ℝ) / 2^p ≤ 2 * max t (1 / 2^(m+1)) := by
    rcases hgt with rfl | hgt
    · have : (1:ℝ) / 2^p = 2 * (1 / 2^(p+1)) := by rw [pow_succ]; field_simp
      rw [this]
      exact mul_le_mul_of_nonneg_left (le_max_right _ _) (by norm_num)
    · have h1 : (1 / (2:ℝ)^(p+1))^n < t^n := by
        rw [← pow_pow_swap]; exact lt_of_lt_of_le hgt hd
      have h2 : 1 / (2:ℝ)^(p+1) < t := lt_of_pow_lt_pow_left₀ n ht h1
      have : (1:ℝ) / 2^p = 2 * (1 / 2^(p+1)) := by rw [pow_succ]; field_simp
      rw [this]
      exact mul_le_mul_of_nonneg_left (le_trans h2.le (le_max_left _ _)) (by norm_num)
  calc _ ≤ Real.sqrt (n + 3) * (1 / 2^p) := h
    _ ≤ Real.sqrt (n + 3) * (2 * max t (1 / 2^(m+1))) := mul_le_mul_of_nonneg_left key hs
    _ = _ := by ring

/-- **root-free Hölder form**: if `2^(-n m) ≤ |x' - x''| ≤ t^n` then
`‖y(x') - y(x'')‖₂ ≤ 2√(n+3)·t`. -/
theorem dist2_imageCube_le_of_pow {n : Nat} (hn : Ev.DimOK n) (m : Nat)
    {x' x'' : ℝ} (h0' : 0 ≤ x') (h1' : x' ≤ 1) (h0'' : 0 ≤ x'') (h1'' : x'' ≤ 1)
    (hlow : 1 / ((2:ℝ)^n)^m ≤ |x' - x''|)
    {t : ℝ} (ht : 0 ≤ t) (hd : |x' - x''| ≤ t^n) :
    dist2 (imageCube n m x') (imageCube n m x'') ≤ 2 * Real.sqrt (n + 3) * t := by
  have h := dist2_imageCube_le_max hn m h0' h1' h0'' h1'' ht hd
  have hn0 : n ≠ 0 := hn.ne_zero
  have h1 : (1 / (2:ℝ)^m)^n ≤ t^n := by rw [← pow_pow_swap]; exact le_trans hlow hd
  have h2 : 1 / (2:ℝ)^m ≤ t := (pow_le_pow_iff_left₀ (by positivity) ht hn0).1 h1
  have h3 : 1 / (2:ℝ)^(m+1) ≤ 1 / 2^m := by
    apply one_div_le_one_div_of_le (by positivity)
    exact pow_le_pow_right₀ (by norm_num) (Nat.le_succ m)
  rwa [max_eq_left (le_trans h3 h2)] at h

/-- **additive form** (all `x', x''`): `‖Δy‖₂ ≤ 2√(n+3)·t + √(n+3)·2^-m` if `|Δx| ≤ t^n`. -/
theorem dist2_imageCube_le_add {n : Nat} (hn : Ev.DimOK n) (m : Nat)
    {x' x'' : ℝ} (h0' : 0 ≤ x') (h1' : x' ≤ 1) (h0'' : 0 ≤ x'') (h1'' : x'' ≤ 1)
    {t : ℝ} (ht : 0 ≤ t) (hd : |x' - x''| ≤ t^n) :
    dist2 (imageCube n m x') (imageCube n m x'') ≤
      2 * Real.sqrt (n + 3) * t + Real.sqrt (n + 3) / 2^m := by
  have h := dist2_imageCube_le_max hn m h0' h1' h0'' h1'' ht hd
  have hs : (0:ℝ) ≤ Real.sqrt (n + 3) := Real.sqrt_nonneg _
  have hm : max t (1 / (2:ℝ)^(m+1)) ≤ t + 1 / 2^(m+1) :=
    max_le (by have : (0:ℝ) ≤ 1 / 2^(m+1) := by positivity
               linarith) (by linarith)
  calc _ ≤ 2 * Real.sqrt (n + 3) * max t (1 / 2^(m+1)) := h
    _ ≤ 2 * Real.sqrt (n + 3) * (t + 1 / 2^(m+1)) :=
        mul_le_mul_of_nonneg_left hm (by positivity)
    _ = _ := by rw [pow_succ]; field_simp

/-! ### the `n`-th root as `Real.rpow` -/

theorem rpow_inv_pow {n : Nat} (hn : n ≠ 0) {d : ℝ} (hd : 0 ≤ d) :
    (d ^ (1 / (n:ℝ))) ^ n = d := by
  rw [one_div]; exact Real.rpow_inv_natCast_pow hd hn

theorem rpow_inv_nonneg (n : Nat) {d : ℝ} (hd : 0 ≤ d) : 0 ≤ d ^ (1 / (n:ℝ)) :=
  Real.rpow_nonneg hd _

/-! ### the affine map to a box -/

theorem getR_p2d {n : Nat} {lower upper y : List ℝ} (hl : lower.length = n) (hu : upper.length = n)
    (hy : y.length = n) {i : Nat} (hi : i < n) :
    getR (p2d lower upper y) i =
      getR y i * (getR upper i - getR lower i) + (getR upper i + getR lower i) / 2 := by
  have hp : i < (p2d lower upper y).length := by
    rw [Num.length_p2d, hl, hu, hy]; simpa using hi
  rw [getR_eq_getElem hp, getR_eq_getElem (hy ▸ hi), getR_eq_getElem (hu ▸ hi),
    getR_eq_getElem (hl ▸ hi)]
  exact Num.getElem_p2d lower upper y i hp (hy ▸ hi) (hl ▸ hi) (hu ▸ hi)

theorem sqDist_p2d_le {n : Nat} {lower upper a b : List ℝ} (hl : lower.length = n)
    (hu : upper.length = n) (ha : a.length = n) (hb : b.length = n) {S : ℝ}
    (hS : ∀ i, i < n → |getR upper i - getR lower i| ≤ S) :
    sqDist (p2d lower upper a) (p2d lower upper b) ≤ S^2 * sqDist a b := by
  have hpa : (p2d lower upper a).length = n := by rw [Num.length_p2d, hl, hu, ha]; simp
  have hpb : (p2d lower upper b).length = n := by rw [Num.length_p2d, hl, hu, hb]; simp
  rw [sqDist_eq_sum hpa hpb, sqDist_eq_sum ha hb, Finset.mul_sum]
  apply Finset.sum_le_sum
  intro i hi
  have hi := Finset.mem_range.1 hi
  rw [getR_p2d hl hu ha hi, getR_p2d hl hu hb hi]
  have e : getR a i * (getR upper i - getR lower i) + (getR upper i + getR lower i) / 2 -
      (getR b i * (getR upper i - getR lower i) + (getR upper i + getR lower i) / 2) =
      (getR upper i - getR lower i) * (getR a i - getR b i) := by ring
  rw [e, mul_pow]
  apply mul_le_mul_of_nonneg_right _ (sq_nonneg _)
  have := abs_le.1 (hS i hi)
  exact sq_le_sq' (by linarith) (by linarith)

theorem dist2_p2d_le {n : Nat} {lower upper a b : List ℝ} (hl : lower.length = n)
    (hu : upper.length = n) (ha : a.length = n) (hb : b.length = n) {S : ℝ} (hS0 : 0 ≤ S)
    (hS : ∀ i, i < n → |getR upper i - getR lower i| ≤ S) :
    dist2 (p2d lower upper a) (p2d lower upper b) ≤ S * dist2 a b := by
  unfold dist2
  calc Real.sqrt (sqDist (p2d lower upper a) (p2d lower upper b))
      ≤ Real.sqrt (S^2 * sqDist a b) := Real.sqrt_le_sqrt (sqDist_p2d_le hl hu ha hb hS)
    _ = S * Real.sqrt (sqDist a b) := by
        rw [Real.sqrt_mul (sq_nonneg S), Real.sqrt_sq hS0]

/-- the largest side of the box `[lower, upper]` -/
def maxSide (lower upper : List ℝ) : ℝ :=
  (List.zipWith (fun l u => u - l) lower upper).foldr max 0

theorem maxSide_nonneg (lower upper : List ℝ) : 0 ≤ maxSide lower upper := by
  unfold maxSide
  generalize List.zipWith (fun l u => u - l) lower upper = L
  induction L with
  | nil => simp
  | cons x L ih => simp only [List.foldr_cons]; exact le_max_of_le_right ih

theorem le_maxSide {lower upper : List ℝ} {i : Nat} (hl : i < lower.length)
    (hu : i < upper.length) : getR upper i - getR lower i ≤ maxSide lower upper := by
  unfold maxSide
  induction lower generalizing upper i with
  | nil => simp at hl
  | cons l lower ih =>
    cases upper with
    | nil => simp at hu
    | cons u upper =>
      simp only [List.zipWith_cons_cons, List.foldr_cons]
      cases i with
      | zero => simp only [getR_cons_zero]; exact le_max_left _ _
      | succ i =>
        simp only [getR_cons_succ]
        simp only [List.length_cons, Nat.add_lt_add_iff_right] at hl hu
        exact le_max_of_le_right (ih hl hu)

end Ev
