import IOptProofs.ShekelTabDefs
/-! kernel-evaluated C18 table certificates (min / max / Lipschitz tables) of the Shekel functions 80..99
(one block per file, identical template; four kernel evaluations of 5 rows each keep the memory near 1 GB) -/
namespace Shk
set_option maxRecDepth 100000 in
theorem shekel_tab_block_4_a : ∀ i ∈ List.range' 80 5, shekelTabOK i = true := by decide +kernel
set_option maxRecDepth 100000 in
theorem shekel_tab_block_4_b : ∀ i ∈ List.range' 85 5, shekelTabOK i = true := by decide +kernel
set_option maxRecDepth 100000 in
theorem shekel_tab_block_4_c : ∀ i ∈ List.range' 90 5, shekelTabOK i = true := by decide +kernel
set_option maxRecDepth 100000 in
theorem shekel_tab_block_4_d : ∀ i ∈ List.range' 95 5, shekelTabOK i = true := by decide +kernel
theorem shekel_tab_block_4 : ∀ i ∈ List.range' 80 20, shekelTabOK i = true := by
  intro i hi
  have hi' := List.mem_range'_1.1 hi
  if h1 : i < 85 then exact shekel_tab_block_4_a i (List.mem_range'_1.2 ⟨by omega, by omega⟩) else
  if h2 : i < 90 then exact shekel_tab_block_4_b i (List.mem_range'_1.2 ⟨by omega, by omega⟩) else
  if h3 : i < 95 then exact shekel_tab_block_4_c i (List.mem_range'_1.2 ⟨by omega, by omega⟩) else
  exact shekel_tab_block_4_d i (List.mem_range'_1.2 ⟨by omega, by omega⟩)
end Shk
