import IOptProofs.BenchMeta
/-! kernel-evaluated blocks of the metadata checks (`BenchMeta.rowOK`, `BenchMeta.openRowOK`);
generator-friendly: one `decide +kernel` per block, blocks cover `[0, ∞)` whatever the table size -/
namespace BenchMeta
open Gen
set_option maxRecDepth 100000
theorem meta_block_2500 : checkBlock rowOK metaRowsPacked.toList 2500 52 = true := by decide +kernel
/-- every row from 2552 to the end of the table -/
theorem meta_tail_2552 : checkBlock rowOK metaRowsPacked.toList 2552 1000000 = true := by decide +kernel
/-- rows of family 5 / 6 are `rastriginMeta n` / `xsquaredMeta n` (whole table) -/
theorem meta_open_all : checkBlock openRowOK metaRowsPacked.toList 0 1000000 = true := by decide +kernel
/-- the Rastrigin rows are those of n = 1..50 -/
theorem meta_rastrigin_args : famArgs 5 metaRowsPacked.toList 1000000 = List.range' 1 50 := by decide +kernel
/-- the XSquared rows are those of n = 1..50 -/
theorem meta_xsquared_args : famArgs 6 metaRowsPacked.toList 1000000 = List.range' 1 50 := by decide +kernel

theorem metaRows_size_le : metaRowsPacked.size ≤ 1000000 := by decide +kernel

/-- every table row of family 5 / 6 is `rastriginMeta n` / `xsquaredMeta n` of its own argument `n ≥ 1` -/
theorem open_rows : ∀ i < metaRowsPacked.size,
    ((metaDecode metaRowsPacked[i]!).family = 5 →
      metaDecode metaRowsPacked[i]! = rastriginMeta (metaDecode metaRowsPacked[i]!).arg0 ∧
      1 ≤ (metaDecode metaRowsPacked[i]!).arg0) ∧
    ((metaDecode metaRowsPacked[i]!).family = 6 →
      metaDecode metaRowsPacked[i]! = xsquaredMeta (metaDecode metaRowsPacked[i]!).arg0 ∧
      1 ≤ (metaDecode metaRowsPacked[i]!).arg0) := by
  intro i hi
  have h := block_sound _ 0 1000000 meta_open_all i (by omega) (by have := metaRows_size_le; omega) hi
  simp only [openRowOK, Bool.and_eq_true, Bool.or_eq_true, bne_iff_ne, ne_eq, decide_eq_true_eq] at h
  refine ⟨fun hf => ?_, fun hf => ?_⟩
  · rcases h.1 with h' | h'
    · exact absurd hf h'
    · exact ⟨eq_of_rowBEq h'.1, h'.2⟩
  · rcases h.2 with h' | h'
    · exact absurd hf h'
    · exact ⟨eq_of_rowBEq h'.1, h'.2⟩
end BenchMeta
