import IOptProofs.BenchShekelDefs
/-!
# Shekel: the computable side of the table certificates (C18: min / max / Lipschitz tables); no Mathlib

`f(x) = -Σⱼ 1/(kⱼ (x - aⱼ)² + cⱼ)` on `[0,10]`, `f'(x) = Σⱼ 2 kⱼ (x - aⱼ)/(kⱼ (x - aⱼ)² + cⱼ)²`.

The scaling of the tables (`nterms`, `tabOK`, common exponent `E`, points `X / 2^E`, term bounds `tUp`,
`tDn`) is that of `BenchShekelDefs.lean`.  New here:

* bounds of the derivative on an integer box `[lo, hi]`.  Write `h(u) = 2 k u/(k u² + c)²` for `u ≥ 0`;
  the j-th term of `f'` is `h((x-a)⁺) - h((a-x)⁺)`.  `h` increases while `3 k u² ≤ c` and decreases
  afterwards, so on `u ∈ [n, f]` its exact range is attained at the end points unless the box straddles
  the turning point (then a cruder bound is used).  The four sums `sPU ≥ Σ h((x-a)⁺) ≥ sPL`,
  `sNU ≥ Σ h((a-x)⁺) ≥ sNL` (units `2^-P`, rounded outwards only in the final division) give
  `(sPL - sNU)/2^P ≤ f' ≤ (sPU - sNL)/2^P`;
* `gbnb`: bisection with an arbitrary leaf test (value tests `vLo`, `vHi`, sign tests `dNeg`, `dPos`);
* `lipT`: one bisection that proves `|f'| ≤ Tu/2^P` on the box and looks for a witness point with
  `|f'| ≥ Tl/2^P` among the midpoints of the accepted boxes whose upper bound reaches `Tl`;
  `wit`: a plain witness search used when `lipT` found none;
* `minSide`, `maxSide`: the min / max table clauses (see `ShekelTab.lean` for their meaning).

Kernel-evaluation notes (measured, Lean 4.33).  Functions compiled from structural recursion (`brecOn`)
cost the kernel 50-90 µs per recursive call; the same function written with the recursor directly
(`List.rec`, `Nat.rec`) costs a few µs per call, and nested primitive `Nat` operations without intermediate
forcing are cheapest (the kernel caches the normal forms of repeated subterms).  Hence all recursions here
are written with recursors (so the definitions are `noncomputable`: they are evaluated by the kernel only),
and `force` is used only once or twice per box.  One value box costs ≈ 0.3 ms, one derivative box (all four
sums, 10 terms) ≈ 2 ms; a function needs ≈ 220 value boxes and ≈ 200 derivative boxes: ≈ 0.5 s per function,
≈ 9 min CPU for the 1000 functions (50 block files of 20 functions, 10-15 s and ≈ 1 GB each).
-/

namespace Shk

/-- evaluate `n` to a literal before continuing (`force n k = k n`) -/
@[reducible] def force {α : Type} (n : Nat) (k : Nat → α) : α :=
  @Nat.casesOn (fun _ => α) n (k 0) (fun m => k (Nat.succ m))

/-- `Σ_{t ∈ ts} h t`, by the recursor -/
noncomputable def sumL (h : NTerm → Nat) (ts : List NTerm) : Nat :=
  @List.rec NTerm (fun _ => Nat) 0 (fun t _ ih => Nat.add (h t) ih) ts

/-- `= sUp A ts lo hi`: `Σ 1/(k(x-a)²+c) ≤ sUpR/2^P` on the box -/
noncomputable def sUpR (A : Nat) (ts : List NTerm) (lo hi : Nat) : Nat := sumL (fun t => tUp A t lo hi) ts
/-- `= sDn A ts lo hi`: `sDnR/2^P ≤ Σ 1/(k(x-a)²+c)` on the box -/
noncomputable def sDnR (A : Nat) (ts : List NTerm) (lo hi : Nat) : Nat := sumL (fun t => tDn A t lo hi) ts

/-- a term prepared for the derivative bounds: `k·2^E`, `a·2^E`, `c·2^(3E)`, `kb = 2 k B` with
`B = 2^(4E+P)`, and `c3 = ⌊c/3⌋` -/
structure DT where
  k : Nat
  a : Nat
  c : Nat
  kb : Nat
  c3 : Nat

def mkDT (B : Nat) (t : NTerm) : DT := ⟨t.1, t.2.1, t.2.2, Nat.mul (Nat.mul 2 t.1) B, Nat.div t.2.2 3⟩

/-- evaluate the fields to literals -/
def forceDTs : List DT → (List DT → Bool) → Bool
  | [], k => k []
  | ⟨a, b, c, d, e⟩ :: ts, k =>
    force a fun a => force b fun b => force c fun c => force d fun d => force e fun e =>
      forceDTs ts fun ts => k (⟨a, b, c, d, e⟩ :: ts)

/-- `Σ_{t ∈ ts} h t`, by the recursor -/
noncomputable def sumD (h : DT → Nat) (ts : List DT) : Nat :=
  @List.rec DT (fun _ => Nat) 0 (fun t _ ih => Nat.add (h t) ih) ts

/-- `k d²`, scaled by `2^(3E)` -/
def qd (t : DT) (d : Nat) : Nat := Nat.mul t.k (Nat.mul d d)
/-- `(k d² + c)²`, scaled by `2^(6E)` -/
def dn2 (t : DT) (d : Nat) : Nat := Nat.mul (Nat.add (qd t d) t.c) (Nat.add (qd t d) t.c)
/-- `⌊h(d/2^E) 2^P⌋` -/
def hv (t : DT) (d : Nat) : Nat := Nat.div (Nat.mul t.kb d) (dn2 t d)
/-- upper bound when `[n, f]` straddles the turning point of `h` -/
def hUs (t : DT) (n f : Nat) : Nat := Nat.succ (Nat.div (Nat.mul t.kb f) (dn2 t n))
/-- lower bound when `[n, f]` straddles the turning point of `h` -/
def hLs (t : DT) (n f : Nat) : Nat := cond (Nat.ble (hv t n) (hv t f)) (hv t n) (hv t f)

/-- upper bound of `h(u)`, `u ∈ [n, f]/2^E`, in units of `2^-P`: `k f² ≤ ⌊c/3⌋` means that `h` increases
on `[0, f]`, `⌊c/3⌋ < k n²` that it decreases on `[n, ∞)` -/
def hU (t : DT) (n f : Nat) : Nat :=
  cond (Nat.beq f 0) 0
    (cond (Nat.ble (qd t f) t.c3) (Nat.succ (hv t f))
      (cond (Nat.blt t.c3 (qd t n)) (Nat.succ (hv t n)) (hUs t n f)))

/-- lower bound of `h(u)`, `u ∈ [n, f]/2^E`, in units of `2^-P` -/
def hL (t : DT) (n f : Nat) : Nat :=
  cond (Nat.beq n 0) 0
    (cond (Nat.ble (qd t f) t.c3) (hv t n)
      (cond (Nat.blt t.c3 (qd t n)) (hv t f) (hLs t n f)))

/-- `Σ h((x-a)⁺) ≤ sPU / 2^P` on the box -/
noncomputable def sPU (ds : List DT) (lo hi : Nat) : Nat :=
  sumD (fun t => hU t (Nat.sub lo t.a) (Nat.sub hi t.a)) ds
/-- `sPL / 2^P ≤ Σ h((x-a)⁺)` on the box -/
noncomputable def sPL (ds : List DT) (lo hi : Nat) : Nat :=
  sumD (fun t => hL t (Nat.sub lo t.a) (Nat.sub hi t.a)) ds
/-- `Σ h((a-x)⁺) ≤ sNU / 2^P` on the box -/
noncomputable def sNU (ds : List DT) (lo hi : Nat) : Nat :=
  sumD (fun t => hU t (Nat.sub t.a hi) (Nat.sub t.a lo)) ds
/-- `sNL / 2^P ≤ Σ h((a-x)⁺)` on the box -/
noncomputable def sNL (ds : List DT) (lo hi : Nat) : Nat :=
  sumD (fun t => hL t (Nat.sub t.a hi) (Nat.sub t.a lo)) ds

/-- `f ≥ -T/2^P` on the box -/
noncomputable def vLo (A : Nat) (ts : List NTerm) (T lo hi : Nat) : Bool := Nat.ble (sUpR A ts lo hi) T
/-- `f ≤ -T/2^P` on the box -/
noncomputable def vHi (A : Nat) (ts : List NTerm) (T lo hi : Nat) : Bool := Nat.ble T (sDnR A ts lo hi)
/-- `f' < 0` on the box -/
noncomputable def dNeg (ds : List DT) (lo hi : Nat) : Bool :=
  Nat.blt (sPU ds lo hi) (sNL ds lo hi)
/-- `f' > 0` on the box -/
noncomputable def dPos (ds : List DT) (lo hi : Nat) : Bool :=
  Nat.blt (sNU ds lo hi) (sPL ds lo hi)

/-- one step of `gbnb` -/
def gbnbStep (leaf : Nat → Nat → Bool) (ih : Nat → Nat → Bool) (lo hi : Nat) : Bool :=
  leaf lo hi ||
    (Nat.blt (Nat.add lo 1) hi && force (Nat.div (Nat.add lo hi) 2) fun m => (ih lo m && ih m hi))

/-- bisection with an arbitrary leaf test: `true` means that every point of `[lo, hi]` lies in a box
accepted by `leaf` -/
noncomputable def gbnb (leaf : Nat → Nat → Bool) (fuel lo hi : Nat) : Bool :=
  @Nat.rec (fun _ => Nat → Nat → Bool) (fun lo hi => leaf lo hi)
    (fun _ ih lo hi => gbnbStep leaf ih lo hi) fuel lo hi

/-- `|f'(m/2^E)| ≥ Tl/2^P` -/
noncomputable def ptOK (ds : List DT) (Tl m : Nat) : Bool :=
  (Nat.ble Tl (sPL ds m m) && Nat.ble (Nat.add (sNU ds m m) Tl) (sPL ds m m)) ||
  (Nat.ble Tl (sNL ds m m) && Nat.ble (Nat.add (sPU ds m m) Tl) (sNL ds m m))

/-- `|f'| ≤ Tu/2^P` on the box (the lower sums are evaluated only when the upper sums alone do not
settle the test) -/
noncomputable def lipUp (ds : List DT) (Tu lo hi : Nat) : Bool :=
  (Nat.ble (sPU ds lo hi) Tu || Nat.ble (sPU ds lo hi) (Nat.add (sNL ds lo hi) Tu)) &&
  (Nat.ble (sNU ds lo hi) Tu || Nat.ble (sNU ds lo hi) (Nat.add (sPL ds lo hi) Tu))

/-- the upper bound of `|f'|` on the box reaches `Tl/2^P` (a heuristic filter: no soundness needed) -/
noncomputable def lipCand (ds : List DT) (Tl lo hi : Nat) : Bool :=
  (Nat.ble Tl (sPU ds lo hi) && Nat.ble (Nat.add (sNL ds lo hi) Tl) (sPU ds lo hi)) ||
  (Nat.ble Tl (sNU ds lo hi) && Nat.ble (Nat.add (sPL ds lo hi) Tl) (sNU ds lo hi))

/-- one box of `lipT`: `0` = `|f'| ≤ Tu/2^P` not established on the box; `1` = established;
`2` = established, and the midpoint is a witness of `|f'| ≥ Tl/2^P` (only looked for when `need`) -/
noncomputable def lipEval (ds : List DT) (Tu Tl : Nat) (need : Bool) (lo hi : Nat) : Nat :=
  cond (lipUp ds Tu lo hi)
    (cond (need && lipCand ds Tl lo hi && ptOK ds Tl (Nat.div (Nat.add lo hi) 2)) 2 1)
    0

/-- one step of `lipT` -/
noncomputable def lipStep (ds : List DT) (Tu Tl : Nat) (ih : Bool → Nat → Nat → Nat)
    (need : Bool) (lo hi : Nat) : Nat :=
  force (lipEval ds Tu Tl need lo hi) fun c =>
  cond (Nat.blt 0 c) c
    (cond (Nat.blt (Nat.add lo 1) hi)
      (force (Nat.div (Nat.add lo hi) 2) fun m =>
        force (ih need lo m) fun l =>
        cond (Nat.beq l 0) 0
          (force (ih (need && Nat.blt l 2) m hi) fun r =>
            cond (Nat.beq r 0) 0 (cond (Nat.ble l r) r l)))
      0)

/-- bisection for `|f'| ≤ Tu/2^P` on `[lo, hi]` with a witness search on the way; result as `lipEval` -/
noncomputable def lipT (ds : List DT) (Tu Tl fuel : Nat) (need : Bool) (lo hi : Nat) : Nat :=
  @Nat.rec (fun _ => Bool → Nat → Nat → Nat) (fun need lo hi => lipEval ds Tu Tl need lo hi)
    (fun _ ih need lo hi => lipStep ds Tu Tl ih need lo hi) fuel need lo hi

/-- one step of `wit` -/
noncomputable def witStep (ds : List DT) (Tl : Nat) (ih : Nat → Nat → Bool) (lo hi : Nat) : Bool :=
  lipCand ds Tl lo hi &&
  force (Nat.div (Nat.add lo hi) 2) fun m =>
    (ptOK ds Tl m || (Nat.blt (Nat.add lo 1) hi && (ih lo m || ih m hi)))

/-- plain witness search: some midpoint `m` of the bisection tree of `[lo, hi]` has `ptOK m`; boxes on
which the upper bound of `|f'|` stays below `Tl/2^P` are skipped -/
noncomputable def wit (ds : List DT) (Tl fuel lo hi : Nat) : Bool :=
  @Nat.rec (fun _ => Nat → Nat → Bool) (fun lo hi => ptOK ds Tl (Nat.div (Nat.add lo hi) 2))
    (fun _ ih lo hi => witStep ds Tl ih lo hi) fuel lo hi

/-- the Lipschitz clause: `|f'| ≤ Tu/2^P` on `[0, X10]` and a witness of `|f'| ≥ Tl/2^P` in it -/
noncomputable def lipOK (ds : List DT) (Tu Tl X10 : Nat) : Bool :=
  force (lipT ds Tu Tl 64 true 0 X10) fun c =>
    Nat.ble 2 c || (Nat.beq c 1 && wit ds Tl 64 0 X10)

/-- the better of `q` and `c` for `score` (larger is better when `up`, smaller otherwise) -/
def better (up : Bool) (score : Nat → Nat) (q c : Nat) : Nat :=
  cond (cond up (Nat.blt (score q) (score c)) (Nat.blt (score c) (score q))) c q

/-- the best of `q` and the candidates `cs` -/
noncomputable def argBest (up : Bool) (score : Nat → Nat) (cs : List Nat) (q : Nat) : Nat :=
  @List.rec Nat (fun _ => Nat → Nat) (fun q => q)
    (fun c _ ih q => force (better up score q c) fun q' => ih q') cs q

/-- candidate points around `X`: `X ± t·(W/8)`, `t ≤ 4`, clipped to `[0, X10]` -/
def cands (X W X10 : Nat) : List Nat :=
  force (Nat.div W 8) fun s =>
    [Nat.min (Nat.add X s) X10, Nat.min (Nat.add X (Nat.mul 2 s)) X10, Nat.min (Nat.add X (Nat.mul 3 s)) X10,
     Nat.min (Nat.add X (Nat.mul 4 s)) X10, Nat.sub X s, Nat.sub X (Nat.mul 2 s), Nat.sub X (Nat.mul 3 s),
     Nat.sub X (Nat.mul 4 s)]

/-- the part of the min clauses that depends on the ring radius `R`: `f ≥ -Ts/2^P` outside
`(X - R, X + R)`, at the two edge boxes around `X ∓ 2^E/1000`, and `f' < 0` / `f' > 0` on the rings -/
noncomputable def minRing (A : Nat) (ts : List NTerm) (ds : List DT) (X X10 W Ts R : Nat) : Bool :=
  (Nat.blt X R || gbnb (vLo A ts Ts) 64 0 (Nat.sub X R)) &&
  (Nat.blt X10 (Nat.add X R) || gbnb (vLo A ts Ts) 64 (Nat.add X R) X10) &&
  (Nat.ble X W ||
    (vLo A ts Ts (Nat.sub X (Nat.add W 1)) (Nat.sub X W) &&
      gbnb (dNeg ds) 64 (Nat.sub X R) (Nat.sub X W))) &&
  (Nat.blt X10 (Nat.add (Nat.add X W) 1) ||
    (vLo A ts Ts (Nat.add X W) (Nat.add (Nat.add X W) 1) &&
      gbnb (dPos ds) 64 (Nat.add X W) (Nat.min (Nat.add X R) X10)))

/-- **min clauses** for the table point `X/2^E`, with `etaP = ⌈η 2^P⌉`, `Tv = ⌊-(vmin - 1e-4) 2^P⌋`
and `W = ⌊2^E/1000⌋`: a point `Q` near `X` with `f(Q) ≤ -dnQ/2^P`, the threshold `Ts = dnQ - etaP`
(so `f(Q) + η ≤ -Ts/2^P ≤ f` away from `X`), `Ts ≤ Tv`, `f ≥ -Tv/2^P` on the core
`[X - W - 1, X + W + 1]`, and `minRing` for the first radius `R = X10/2^J`, `J = 8, 10, 12`, that works. -/
noncomputable def minSide (A : Nat) (ts : List NTerm) (ds : List DT) (X X10 W etaP Tv : Nat) : Bool :=
  force (argBest true (fun q => sDnR A ts q q) (cands X W X10) X) fun Q =>
  Nat.ble Q X10 &&
  force (sDnR A ts Q Q) fun dnQ =>
  force (Nat.sub dnQ etaP) fun Ts =>
  Nat.ble (Nat.add Ts etaP) dnQ && Nat.ble Ts Tv &&
  gbnb (vLo A ts Tv) 64 (Nat.sub X (Nat.add W 1)) (Nat.min (Nat.add (Nat.add X W) 1) X10) &&
  (minRing A ts ds X X10 W Ts (Nat.div X10 256) || minRing A ts ds X X10 W Ts (Nat.div X10 1024) ||
    minRing A ts ds X X10 W Ts (Nat.div X10 4096))

/-- as `minRing`, for the maximum: `f ≤ -Ts/2^P` away from `X`, `f' > 0` left and `f' < 0` right of it -/
noncomputable def maxRing (A : Nat) (ts : List NTerm) (ds : List DT) (X X10 W Ts R : Nat) : Bool :=
  (Nat.blt X R || gbnb (vHi A ts Ts) 64 0 (Nat.sub X R)) &&
  (Nat.blt X10 (Nat.add X R) || gbnb (vHi A ts Ts) 64 (Nat.add X R) X10) &&
  (Nat.ble X W ||
    (vHi A ts Ts (Nat.sub X (Nat.add W 1)) (Nat.sub X W) &&
      gbnb (dPos ds) 64 (Nat.sub X R) (Nat.sub X W))) &&
  (Nat.blt X10 (Nat.add (Nat.add X W) 1) ||
    (vHi A ts Ts (Nat.add X W) (Nat.add (Nat.add X W) 1) &&
      gbnb (dNeg ds) 64 (Nat.add X W) (Nat.min (Nat.add X R) X10)))

/-- **max clauses**, `Tv = ⌈-(vmax + 1e-4) 2^P⌉`: a point `Q` near `X` with `f(Q) ≥ -upQ/2^P`,
`Ts = upQ + etaP` (so `f ≤ -Ts/2^P ≤ f(Q) - η` away from `X`), `Tv ≤ Ts`, `f ≤ -Tv/2^P` on the core. -/
noncomputable def maxSide (A : Nat) (ts : List NTerm) (ds : List DT) (X X10 W etaP Tv : Nat) : Bool :=
  force (argBest false (fun q => sUpR A ts q q) (cands X W X10) X) fun Q =>
  Nat.ble Q X10 &&
  force (sUpR A ts Q Q) fun upQ =>
  force (Nat.add upQ etaP) fun Ts =>
  Nat.ble Tv Ts &&
  gbnb (vHi A ts Tv) 64 (Nat.sub X (Nat.add W 1)) (Nat.min (Nat.add (Nat.add X W) 1) X10) &&
  (maxRing A ts ds X X10 W Ts (Nat.div X10 256) || maxRing A ts ds X X10 W Ts (Nat.div X10 1024) ||
    maxRing A ts ds X X10 W Ts (Nat.div X10 4096))

/-- `⌈5e-7 · 2^40⌉`: the certified margin `η` of the minimum location clause -/
def etaMinP : Nat := 549756
/-- `⌈3e-9 · 2^40⌉`: the certified margin `η` of the maximum location clause -/
def etaMaxP : Nat := 3299

/-- the common exponent used for function `i` (at least 10) -/
def expForTab (k a c : List Dy) (pn px : Dy) : Nat :=
  max (maxExp (k ++ a ++ c)) (max (expOf pn) (max (expOf px) 10))

/-- the certificate with the common exponent `E` given -/
noncomputable def shekelTabCertE (E : Nat) (k a c : List Dy) (vn pn vx px L : Dy) : Bool :=
  force (2 ^ (3 * E + P)) fun A =>
  force (2 ^ (4 * E + P)) fun B =>
  force (scale E pn) fun Xn =>
  force (scale E px) fun Xx =>
  force (10 * 2 ^ E) fun X10 =>
  force (2 ^ E / 1000) fun W =>
  tabOK E k a c && scaleOK E pn && scaleOK E px && Nat.ble Xn X10 && Nat.ble Xx X10 &&
  forceTerms (nterms E k a c) fun ts =>
  forceDTs (ts.map (mkDT B)) fun ds =>
  -- table values at the table points
  decide (-(sDnR A ts Xn Xn : Rat) / 2 ^ P ≤ vn.toRat + 1 / 10000) &&
  decide (vx.toRat - 1 / 10000 ≤ -(sUpR A ts Xx Xx : Rat) / 2 ^ P) &&
  -- min side
  decide (0 ≤ (-(vn.toRat - 1 / 10000) * 2 ^ P).floor) &&
  force (-(vn.toRat - 1 / 10000) * 2 ^ P).floor.toNat (fun Tv => minSide A ts ds Xn X10 W etaMinP Tv) &&
  -- max side
  force (-(vx.toRat + 1 / 10000) * 2 ^ P).ceil.toNat (fun Tv => maxSide A ts ds Xx X10 W etaMaxP Tv) &&
  -- Lipschitz constant
  decide (0 ≤ (L.toRat * (1001 / 1000) * 2 ^ P).floor) &&
  force (L.toRat * (1001 / 1000) * 2 ^ P).floor.toNat fun Tu =>
  force (L.toRat * (999 / 1000) * 2 ^ P).ceil.toNat fun Tl =>
  lipOK ds Tu Tl X10

/-- **The C18 table certificate of one Shekel function** with coefficient lists `k a c`, tabulated
minimum `(vn, pn)`, maximum `(vx, px)` and Lipschitz constant `L`. -/
noncomputable def shekelTabCert (k a c : List Dy) (vn pn vx px L : Dy) : Bool :=
  force (expForTab k a c pn px) fun E => shekelTabCertE E k a c vn pn vx px L

/-- the certificate of function `i` of the generated tables (the packed row is evaluated once) -/
noncomputable def shekelTabOK (i : Nat) : Bool :=
  force Gen.shekelRows[i]! fun row =>
    shekelTabCert (Dy.slice row 0 10) (Dy.slice row 10 10) (Dy.slice row 20 10)
      (Dy.get row 30) (Dy.get row 31) (Dy.get row 32) (Dy.get row 33) (Dy.get row 34)

end Shk
