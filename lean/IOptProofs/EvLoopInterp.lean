import IOptProofs.EvLoopInterpDefs
import IOptProofs.EvBasic
import Mathlib.Algebra.Order.Field.Basic
import Mathlib.Algebra.Order.Field.Rat
import Mathlib.Tactic.Ring
/-!
# The level loops of `Evolvent.__GetYonX` / `__GetXonY`, taken from the SOURCE TEXT, are the model's `imageCube` / `inverseCube`

`IOptGen/EvolventLoopsSrc.lean` (regenerated from `iOpt/evolvent/evolvent.py` on every run) holds the bodies of `Evolvent.__GetYonX` and
`Evolvent.__GetXonY` as statement trees.  `IOptProofs/EvLoopInterpDefs.lean` interprets such trees generically (tables of opaque source
strings → typed statements → execution on attributes + locals + integer arrays + the scratch array).  In `IOptProofs/EvInterp.lean` the two
methods are primitives interpreted by `Ev.imageCube` / `Ev.inverseCube`; here that interpretation is PROVED from the statement trees:

* `resolve_getYonX`, `resolve_getXonY` (`rfl`): every string of the two generated trees is in the table its position asks for; the
  resolved trees are `getYonXR`, `getXonYR` (built from `swapR`, `relabelR`, `digitR`, `yInnerR`, `xInner1R`, `xInner2R`);
* `getYonX_src`: for every carrier with the operator classes of the model (hence also `Float`) in which multiplying by `±1` is exact
  (`SignMul`: `y + r * 1 = y + r`, `y + r * (-1) = y - r`, `y - r * 1 = y - r`, `y - r * (-1) = y + r`), every `N ≥ 1`, `m`, `x`: running
  the generated tree of `__GetYonX` leaves `Ev.imageCube N m x` in `self.yValues` and returns a copy of it (`N ≥ 2`) resp. the scratch
  array itself (`N = 1`; it must have one entry);
* `getXonY_src`: likewise, on a scratch array `y` with `N` entries the generated tree of `__GetXonY` returns `Ev.inverseCube N m y`;
* `signMul_field`, `getYonX_src_field`, `getXonY_src_field`: `SignMul` holds in every field, hence the two ties over every linearly
  ordered field, for an ARBITRARY `int(·)` (`TruncNat α` abstract);
* the source computes `y[i] += r * iu[i]`, the model `Ev.addSigned` (a sign test): they agree because every entry of `iu` is `±1`, for
  EVERY digit handed to `__CalculateNode` — `node_facts` (`l < N`, `N` entries, all `±1`, no range hypothesis on the digit, `N ≥ 1`) and
  `numbr_facts` are proved here directly from `Ev.nodeLoop` / `Ev.numbrLoop`; `__CalculateNode` / `__CalculateNumbr` themselves stay
  primitives (`Ev.node` / `Ev.numbr`), tied to the source by the complete regenerated tables for `N ≤ 7` (`IOptProofs/EvNodeTable.lean`) and,
  for every `N ≥ 2`, mutually inverse (`Ev.Inv.nodeOK_all`, `Ev.Inv.numbrOK_all`);
* well-formedness along the loops (`YInv`, `XInv`): `it < N`, all integer arrays have `N` entries, `iw` has entries `±1`; they hold at the
  loop head and are preserved by every level (`yBody_step`, `xBody_step`), so no index is ever out of range;
* `Examples`: runs of the interpreter on the generated trees over `ℚ` (`N = 2, m = 2`; `N = 3, m = 1`, also `x ≥ 1`; `N = 1`), the
  hypotheses `N ≥ 1` / lengths are needed (stuck otherwise), and seeded edits (`it = l` before the swaps, `iw` updated before `iu`, no
  `r *= 0.5`, no swap in `u`, `x += r1 * iis` before `r1 /= nexpExtended`, the arrays of `__CalculateNode` exchanged, an alias `iu = iv`,
  an unknown literal …) on which the interpretation is stuck or is NOT the model.
-/

set_option linter.unusedSectionVars false
set_option linter.constructorNameAsVariable false
open Gen.EvolventLoops

/-! ### facts about `Ev.node` / `Ev.numbr` for EVERY digit / sign vector (no range hypothesis) -/
namespace EvLoop

/-- a sign -/
def pm (k : Int) : Prop := k = 1 ∨ k = -1

theorem pm_one : pm 1 := Or.inl rfl
theorem pm_neg_one : pm (-1) := Or.inr rfl
theorem pm_neg {k : Int} (h : pm k) : pm (-k) := by rcases h with rfl | rfl <;> simp [pm]
theorem pm_mul {a b : Int} (ha : pm a) (hb : pm b) : pm (a * b) := by
  rcases ha with rfl | rfl <;> rcases hb with rfl | rfl <;> simp [pm]

theorem nodeLoop_facts : ∀ (fuel i iis iff : Nat) (k1 : Int) (l : Nat) (iq : Int) (acc : List Int),
    pm k1 → pm iq → (∀ a ∈ acc, pm a) →
    ((Ev.nodeLoop i fuel iis iff k1 l iq acc).1 = l ∨
      (i ≤ (Ev.nodeLoop i fuel iis iff k1 l iq acc).1 ∧ (Ev.nodeLoop i fuel iis iff k1 l iq acc).1 < i + fuel)) ∧
    pm (Ev.nodeLoop i fuel iis iff k1 l iq acc).2.1 ∧ (∀ a ∈ (Ev.nodeLoop i fuel iis iff k1 l iq acc).2.2, pm a) := by
  intro fuel
  induction fuel with
  | zero =>
    intro i iis iff k1 l iq acc _ hq hacc
    simp only [Ev.nodeLoop, true_or, true_and]
    exact ⟨hq, fun a ha => hacc a (List.mem_reverse.1 ha)⟩
  | succ fuel ih =>
    intro i iis iff k1 l iq acc hk hq hacc
    rw [Ev.nodeLoop]
    simp only
    have hacc1 : ∀ a ∈ (-k1 * 1) :: acc, pm a := by
      intro a ha
      rcases List.mem_cons.1 ha with rfl | ha
      · exact pm_mul (pm_neg hk) pm_one
      · exact hacc a ha
    have hacc2 : ∀ a ∈ (-k1 * (-1)) :: acc, pm a := by
      intro a ha
      rcases List.mem_cons.1 ha with rfl | ha
      · exact pm_mul (pm_neg hk) pm_neg_one
      · exact hacc a ha
    split
    · split
      · dsimp only
        obtain ⟨h1, h2, h3⟩ := ih (i+1) (iis - iff / 2) (iff / 2) 1 i (-1) _ pm_one pm_neg_one hacc1
        refine ⟨?_, h2, h3⟩
        rcases h1 with h1 | h1 <;> right <;> omega
      · dsimp only
        obtain ⟨h1, h2, h3⟩ := ih (i+1) (iis - iff / 2) (iff / 2) 1 l iq _ pm_one hq hacc1
        refine ⟨?_, h2, h3⟩
        rcases h1 with h1 | h1
        · left; exact h1
        · right; omega
    · split
      · dsimp only
        obtain ⟨h1, h2, h3⟩ := ih (i+1) iis (iff / 2) (-1) i 1 _ pm_neg_one pm_one hacc2
        refine ⟨?_, h2, h3⟩
        rcases h1 with h1 | h1 <;> right <;> omega
      · dsimp only
        obtain ⟨h1, h2, h3⟩ := ih (i+1) iis (iff / 2) (-1) l iq _ pm_neg_one hq hacc2
        refine ⟨?_, h2, h3⟩
        rcases h1 with h1 | h1
        · left; exact h1
        · right; omega

theorem nodeLoop_length : ∀ (fuel i iis iff : Nat) (k1 : Int) (l : Nat) (iq : Int) (acc : List Int),
    (Ev.nodeLoop i fuel iis iff k1 l iq acc).2.2.length = acc.length + fuel := by
  intro fuel
  induction fuel with
  | zero => intro i iis iff k1 l iq acc; simp [Ev.nodeLoop]
  | succ fuel ih =>
    intro i iis iff k1 l iq acc
    rw [Ev.nodeLoop]
    simp only
    split
    · split <;> (rw [ih]; simp; omega)
    · split <;> (rw [ih]; simp; omega)

theorem getI_pm {l : List Int} (h : ∀ a ∈ l, pm a) {i : Nat} (hi : i < l.length) : pm (Ev.getI l i) := by
  rw [Ev.getI_eq_getElem hi]; exact h _ (List.getElem_mem hi)

theorem set_pm {l : List Int} (h : ∀ a ∈ l, pm a) (i : Nat) {x : Int} (hx : pm x) : ∀ a ∈ l.set i x, pm a := by
  intro a ha
  rcases List.mem_or_eq_of_mem_set ha with ha | rfl
  · exact h a ha
  · exact hx

/-- `__CalculateNode` for ANY digit argument and `N ≥ 1`: `l < N`, both arrays have `N` entries, all `±1` -/
theorem node_facts {n : Nat} (hn : 1 ≤ n) (d : Nat) :
    (Ev.node n d).1 < n ∧ (Ev.node n d).2.1.length = n ∧ (Ev.node n d).2.2.length = n ∧
    (∀ a ∈ (Ev.node n d).2.1, pm a) ∧ (∀ a ∈ (Ev.node n d).2.2, pm a) := by
  unfold Ev.node
  split
  · refine ⟨by simp only; omega, by simp, by simp, ?_, ?_⟩ <;>
      (intro a ha; rw [List.eq_of_mem_replicate ha]; exact pm_neg_one)
  · split
    · have hu : ∀ a ∈ (1 : Int) :: List.replicate (n - 1) (-1), pm a := by
        intro a ha
        rcases List.mem_cons.1 ha with rfl | ha
        · exact pm_one
        · rw [List.eq_of_mem_replicate ha]; exact pm_neg_one
      refine ⟨by simp only; omega, by simp; omega, by simp; omega, hu, set_pm hu _ pm_one⟩
    · obtain ⟨h1, h2, h3⟩ := nodeLoop_facts n 0 d (2^n) (-1) 0 1 [] pm_neg_one pm_one (by simp)
      have hl := nodeLoop_length n 0 d (2^n) (-1) 0 1 []
      simp only [List.length_nil, Nat.zero_add] at hl
      generalize Ev.nodeLoop 0 n d (2^n) (-1) 0 1 [] = r at h1 h2 h3 hl
      obtain ⟨l, iq, u⟩ := r
      simp only at h1 h2 h3 hl ⊢
      have hlt : l < n := by omega
      have hv : ∀ a ∈ u.set l (Ev.getI u l * iq), pm a := set_pm h3 _ (pm_mul (getI_pm h3 (by omega)) h2)
      refine ⟨hlt, hl, by simp [hl], h3, set_pm hv _ (pm_neg (getI_pm hv (by simp; omega)))⟩

theorem numbrLoop_facts : ∀ (us : List Int) (i iff : Nat) (k1 : Int) (iis l l1 : Nat),
    ((Ev.numbrLoop i us iff k1 iis l l1).2.1 = l ∨
      (i ≤ (Ev.numbrLoop i us iff k1 iis l l1).2.1 ∧ (Ev.numbrLoop i us iff k1 iis l l1).2.1 < i + us.length)) ∧
    ((Ev.numbrLoop i us iff k1 iis l l1).2.2 = l1 ∨
      (i ≤ (Ev.numbrLoop i us iff k1 iis l l1).2.2 ∧ (Ev.numbrLoop i us iff k1 iis l l1).2.2 < i + us.length)) := by
  intro us
  induction us with
  | nil => intro i iff k1 iis l l1; simp [Ev.numbrLoop]
  | cons u us ih =>
    intro i iff k1 iis l l1
    rw [Ev.numbrLoop]
    simp only [List.length_cons]
    split
    · obtain ⟨h1, h2⟩ := ih (i+1) (iff / 2) (-k1 * u) iis l i
      constructor
      · rcases h1 with h1 | h1
        · left; exact h1
        · right; omega
      · rcases h2 with h2 | h2 <;> right <;> omega
    · obtain ⟨h1, h2⟩ := ih (i+1) (iff / 2) (-k1 * u) (iis + iff / 2) i l1
      constructor
      · rcases h1 with h1 | h1 <;> right <;> omega
      · rcases h2 with h2 | h2
        · left; exact h2
        · right; omega

/-- `__CalculateNumbr` for ANY array with `N ≥ 1` entries: `l < N` and `v` has `N` entries -/
theorem numbr_facts {n : Nat} (hn : 1 ≤ n) (u : List Int) (hu : u.length = n) :
    (Ev.numbr n u).2.1 < n ∧ (Ev.numbr n u).2.2.length = n := by
  unfold Ev.numbr
  obtain ⟨h1, h2⟩ := numbrLoop_facts u 0 (2^n) (-1) 0 0 0
  generalize Ev.numbrLoop 0 u (2^n) (-1) 0 0 0 = r at h1 h2
  obtain ⟨iis, l, l1⟩ := r
  simp only at h1 h2 ⊢
  split
  · exact ⟨by simp only; omega, hu⟩
  · split
    · exact ⟨by simp only; omega, by simp [hu]⟩
    · split
      · exact ⟨by simp only; omega, by simp [hu]⟩
      · exact ⟨by simp only; omega, by simp [hu]⟩


/-! ### a list updated in place from the left: the first `k` entries are new, the others old -/
section
variable {β : Type}

def mixed (k : Nat) (a' a : List β) : List β := a'.take k ++ a.drop k

theorem mixed_zero (a' a : List β) : mixed 0 a' a = a := by simp [mixed]

theorem mixed_full (a' a : List β) (h : a'.length = a.length) : mixed a.length a' a = a' := by
  simp [mixed, ← h]

theorem length_mixed {k : Nat} {a' a : List β} (h : a'.length = a.length) (hk : k ≤ a.length) :
    (mixed k a' a).length = a.length := by
  simp [mixed]; omega

theorem getElem?_mixed {k : Nat} {a' a : List β} (h : a'.length = a.length) (hk : k < a.length) :
    (mixed k a' a)[k]? = a[k]? := by
  have hl : (a'.take k).length = k := by rw [List.length_take]; omega
  rw [mixed, List.getElem?_append_right (by omega), hl]
  simp

theorem getElem?_mixed_lt {j k : Nat} {a' a : List β} (hj : j < k) (hk : k ≤ a'.length) :
    (mixed k a' a)[j]? = a'[j]? := by
  have hl : (a'.take k).length = k := by rw [List.length_take]; omega
  rw [mixed, List.getElem?_append_left (by omega), List.getElem?_take_of_lt hj]

theorem set_mixed {k : Nat} {a' a : List β} (h : a'.length = a.length) (hk : k < a.length) :
    (mixed k a' a).set k (a'[k]'(by omega)) = mixed (k+1) a' a := by
  have hk' : k < a'.length := by omega
  have hl : (a'.take k).length = k := by rw [List.length_take]; omega
  rw [mixed, mixed, List.set_append_right _ _ (by omega), hl, Nat.sub_self,
    List.drop_eq_getElem_cons hk, List.set_cons_zero, List.take_succ_eq_append_getElem hk',
    List.append_assoc]
  rfl

end

end EvLoop

section
variable {α : Type} [Add α] [Sub α] [Mul α] [Div α] [Neg α] [LT α] [LE α]
  [DecidableLT α] [DecidableLE α] [OfNat α 0] [OfNat α 1] [OfNat α 2] [NatCast α] [TruncNat α]
namespace EvLoop

/-! ### state algebra -/
@[simp] theorem setNum_num (st : LState α) (v w : NumVar) (a : α) :
    (st.setNum v a).num w = if w = v then some a else st.num w := rfl
@[simp] theorem setNum_int (st : LState α) (v : NumVar) (a : α) : (st.setNum v a).int = st.int := rfl
@[simp] theorem setNum_arr (st : LState α) (v : NumVar) (a : α) : (st.setNum v a).arr = st.arr := rfl
@[simp] theorem setNum_iis (st : LState α) (v : NumVar) (a : α) : (st.setNum v a).iis = st.iis := rfl
@[simp] theorem setNum_y (st : LState α) (v : NumVar) (a : α) : (st.setNum v a).y = st.y := rfl
@[simp] theorem setNum_n (st : LState α) (v : NumVar) (a : α) : (st.setNum v a).n = st.n := rfl
@[simp] theorem setNum_m (st : LState α) (v : NumVar) (a : α) : (st.setNum v a).m = st.m := rfl
@[simp] theorem setNum_nexp (st : LState α) (v : NumVar) (a : α) : (st.setNum v a).nexp = st.nexp := rfl

@[simp] theorem setInt_int (st : LState α) (v w : IntVar) (k : Int) :
    (st.setInt v k).int w = if w = v then some k else st.int w := rfl
@[simp] theorem setInt_num (st : LState α) (v : IntVar) (k : Int) : (st.setInt v k).num = st.num := rfl
@[simp] theorem setInt_arr (st : LState α) (v : IntVar) (k : Int) : (st.setInt v k).arr = st.arr := rfl
@[simp] theorem setInt_iis (st : LState α) (v : IntVar) (k : Int) : (st.setInt v k).iis = st.iis := rfl
@[simp] theorem setInt_y (st : LState α) (v : IntVar) (k : Int) : (st.setInt v k).y = st.y := rfl
@[simp] theorem setInt_n (st : LState α) (v : IntVar) (k : Int) : (st.setInt v k).n = st.n := rfl
@[simp] theorem setInt_m (st : LState α) (v : IntVar) (k : Int) : (st.setInt v k).m = st.m := rfl
@[simp] theorem setInt_nexp (st : LState α) (v : IntVar) (k : Int) : (st.setInt v k).nexp = st.nexp := rfl

@[simp] theorem setArr_arr (st : LState α) (a b : ArrVar) (l : List Int) :
    (st.setArr a l).arr b = if b = a then some l else st.arr b := rfl
@[simp] theorem setArr_num (st : LState α) (a : ArrVar) (l : List Int) : (st.setArr a l).num = st.num := rfl
@[simp] theorem setArr_int (st : LState α) (a : ArrVar) (l : List Int) : (st.setArr a l).int = st.int := rfl
@[simp] theorem setArr_iis (st : LState α) (a : ArrVar) (l : List Int) : (st.setArr a l).iis = st.iis := rfl
@[simp] theorem setArr_y (st : LState α) (a : ArrVar) (l : List Int) : (st.setArr a l).y = st.y := rfl
@[simp] theorem setArr_n (st : LState α) (a : ArrVar) (l : List Int) : (st.setArr a l).n = st.n := rfl
@[simp] theorem setArr_m (st : LState α) (a : ArrVar) (l : List Int) : (st.setArr a l).m = st.m := rfl
@[simp] theorem setArr_nexp (st : LState α) (a : ArrVar) (l : List Int) : (st.setArr a l).nexp = st.nexp := rfl

@[simp] theorem setDig_iis (st : LState α) (k : Nat) : (st.setDig k).iis = some k := rfl
@[simp] theorem setDig_num (st : LState α) (k : Nat) : (st.setDig k).num = st.num := rfl
@[simp] theorem setDig_int (st : LState α) (k : Nat) : (st.setDig k).int = st.int := rfl
@[simp] theorem setDig_arr (st : LState α) (k : Nat) : (st.setDig k).arr = st.arr := rfl
@[simp] theorem setDig_y (st : LState α) (k : Nat) : (st.setDig k).y = st.y := rfl
@[simp] theorem setDig_n (st : LState α) (k : Nat) : (st.setDig k).n = st.n := rfl
@[simp] theorem setDig_m (st : LState α) (k : Nat) : (st.setDig k).m = st.m := rfl
@[simp] theorem setDig_nexp (st : LState α) (k : Nat) : (st.setDig k).nexp = st.nexp := rfl

@[simp] theorem setY_y (st : LState α) (y : List α) : (st.setY y).y = y := rfl
@[simp] theorem setY_num (st : LState α) (y : List α) : (st.setY y).num = st.num := rfl
@[simp] theorem setY_int (st : LState α) (y : List α) : (st.setY y).int = st.int := rfl
@[simp] theorem setY_arr (st : LState α) (y : List α) : (st.setY y).arr = st.arr := rfl
@[simp] theorem setY_iis (st : LState α) (y : List α) : (st.setY y).iis = st.iis := rfl
@[simp] theorem setY_n (st : LState α) (y : List α) : (st.setY y).n = st.n := rfl
@[simp] theorem setY_m (st : LState α) (y : List α) : (st.setY y).m = st.m := rfl
@[simp] theorem setY_nexp (st : LState α) (y : List α) : (st.setY y).nexp = st.nexp := rfl

theorem setArr_setArr (st : LState α) (a : ArrVar) (x y : List Int) :
    (st.setArr a x).setArr a y = st.setArr a y := by
  simp only [LState.setArr]
  congr
  funext w
  split <;> rfl

/-! ### statement lists -/

theorem execL_append (a b : List RStmt) (st : LState α) :
    execL (a ++ b) st = match execL a st with
      | .normal st' => execL b st'
      | o => o := by
  induction a generalizing st with
  | nil => simp only [List.nil_append, execL]
  | cons s a ih =>
    simp only [List.cons_append, execL]
    cases execS s st with
    | normal st' => exact ih st'
    | returned st' out => rfl
    | stuck => rfl

theorem execL_append_normal {a b : List RStmt} {st st' : LState α} (h : execL a st = .normal st') :
    execL (a ++ b) st = execL b st' := by
  rw [execL_append, h]

/-- a loop invariant -/
theorem forLoop_inv (P : Nat → LState α → Prop) (body : Nat → LState α → Res α) :
    ∀ (cnt k : Nat) (st : LState α), P k st →
      (∀ i st, k ≤ i → i < k + cnt → P i st → ∃ st', body i st = .normal st' ∧ P (i+1) st') →
      ∃ st', forLoop (List.range' k cnt) body st = .normal st' ∧ P (k + cnt) st' := by
  intro cnt
  induction cnt with
  | zero => intro k st h _; exact ⟨st, rfl, h⟩
  | succ cnt ih =>
    intro k st h hb
    obtain ⟨st1, e1, h1⟩ := hb k st (Nat.le_refl _) (by omega) h
    obtain ⟨st2, e2, h2⟩ := ih (k+1) st1 h1 (fun i st hi hi' => hb i st (by omega) (by omega))
    refine ⟨st2, ?_, by rw [show k + (cnt + 1) = k + 1 + cnt by omega]; exact h2⟩
    simp only [List.range'_succ, forLoop, e1, e2]

theorem evalIdx_var {st : LState α} {v : IntVar} {k : Nat} (h : st.int v = some (k : Int)) :
    evalIdx st (.var v) = some k := by
  simp only [evalIdx, h, Int.natCast_nonneg, ↓reduceIte, Int.toNat_natCast]

@[simp] theorem evalIdx_zero (st : LState α) : evalIdx st .zero = some 0 := rfl

/-! ### the element swap `i = a[0]; a[0] = a[it]; a[it] = i` -/

def swapR (a : ArrVar) : List RStmt :=
  [.setInt .i (.elem a .zero), .setElem a .zero (.elem a (.var .it)), .setElem a (.var .it) (.var .i)]

theorem exec_swap (a : ArrVar) (st : LState α) (l : List Int) (it : Nat) (ha : st.arr a = some l)
    (hit : st.int .it = some (it : Int)) (hlt : it < l.length) :
    execL (swapR a) st = .normal ((st.setInt .i (Ev.getI l 0)).setArr a (Ev.swap0 l it)) := by
  have h0 : 0 < l.length := by omega
  have e0 : l[0]? = some (Ev.getI l 0) := by rw [Ev.getI_eq_getElem h0]; exact List.getElem?_eq_getElem h0
  have e1 : l[it]? = some (Ev.getI l it) := by rw [Ev.getI_eq_getElem hlt]; exact List.getElem?_eq_getElem hlt
  have hit1 : (st.setInt .i (Ev.getI l 0)).int .it = some (it : Int) := by simp [hit]
  have hit2 : ((st.setInt .i (Ev.getI l 0)).setArr a (l.set 0 (Ev.getI l it))).int .it = some (it : Int) := by simp [hit]
  simp only [swapR, execL, execS, execSimple, evalI, evalIdx_zero, ha, e0, e1, evalIdx_var hit1, evalIdx_var hit2, setInt_arr,
    setArr_arr, ↓reduceIte, h0, List.length_set, hlt, setArr_int, setInt_int, setArr_setArr, Ev.swap0]

theorem execL_cons_normal {s : RStmt} {rest : List RStmt} {st st' : LState α} (h : execS s st = .normal st') :
    execL (s :: rest) st = execL rest st' := by
  simp only [execL, h]

theorem execL_nil (st : LState α) : execL [] st = .normal st := by simp only [execL]

theorem setInt_self {st : LState α} {v : IntVar} {k : Int} (h : st.int v = some k) : st.setInt v k = st := by
  cases st
  simp only [LState.setInt, LState.mk.injEq, true_and, and_true]
  simp only at h
  funext w
  split
  · rename_i e; rw [e, h]
  · rfl

theorem evalI_elem {st : LState α} {a : ArrVar} {i : Idx} {l : List Int} {k : Nat} {x : Int}
    (ha : st.arr a = some l) (hi : evalIdx st i = some k) (hx : l[k]? = some x) : evalI st (.elem a i) = some x := by
  simp only [evalI, ha, hi, hx]

theorem evalI_mul {st : LState α} {a b : IExpr} {x y : Int} (ha : evalI st a = some x) (hb : evalI st b = some y) :
    evalI st (.mul a b) = some (x * y) := by
  simp only [evalI, ha, hb]

theorem evalI_neg {st : LState α} {a : IExpr} {x : Int} (ha : evalI st a = some x) : evalI st (.neg a) = some (-x) := by
  simp only [evalI, ha]

theorem execS_setElem {st : LState α} {a : ArrVar} {i : Idx} {e : IExpr} {x : Int} {l : List Int} {k : Nat}
    (he : evalI st e = some x) (ha : st.arr a = some l) (hi : evalIdx st i = some k) (hk : k < l.length) :
    execS (.setElem a i e) st = .normal (st.setArr a (l.set k x)) := by
  simp only [execS, execSimple, he, ha, hi, hk, ↓reduceIte]

theorem execS_setY {st : LState α} {i : Idx} {e : NExpr} {x : α} {k : Nat}
    (he : evalN st e = some x) (hi : evalIdx st i = some k) (hk : k < st.y.length) :
    execS (.setY i e) st = .normal (st.setY (st.y.set k x)) := by
  simp only [execS, execSimple, he, hi, hk, ↓reduceIte]

/-! ### `if l == 0: l = it elif l == it: l = 0` -/

def relabelR : RStmt :=
  .ite (.ieq (.var .l) (.lit 0)) [.setInt .l (.var .it)] [.ite (.ieq (.var .l) (.var .it)) [.setInt .l (.lit 0)] []]

theorem exec_relabel (st : LState α) (l it : Nat) (hl : st.int .l = some (l : Int)) (hit : st.int .it = some (it : Int)) :
    execS relabelR st = .normal (st.setInt .l ((Ev.relabel l it : Nat) : Int)) := by
  by_cases h0 : l = 0
  · subst h0
    simp [relabelR, execS, execL, execSimple, evalC, evalI, hl, hit, Ev.relabel]
  · by_cases h1 : l = it
    · subst h1
      have h0' : ((l : Int) == 0) = false := by simpa using h0
      simp [relabelR, execS, execL, execSimple, evalC, evalI, hl, hit, Ev.relabel, h0, h0']
    · have h0' : ((l : Int) == 0) = false := by simpa using h0
      have h1' : ((l : Int) == (it : Int)) = false := by simpa using h1
      simp [relabelR, execS, execL, evalC, evalI, hl, hit, Ev.relabel, h0, h1, h0', h1', setInt_self hl]

/-! ### the digit of the level -/

def digitR : RStmt :=
  .ite (.ge (.var .xArg) .one) [.setDig .last, .setNum .d .zero]
    [.setNum .d (.mul (.var .d) .nexp), .trunc (.var .d), .setNum .d (.sub (.var .d) .dig)]

/-- the digit and the remainder, as in `Ev.yLoop` -/
def digitOf (n : Nat) (x1 : Bool) (d : α) : Nat × α :=
  if x1 then (2^n - 1, 0)
  else (TruncNat.toNat (d * Ev.nexp n), d * Ev.nexp n - ((TruncNat.toNat (d * Ev.nexp n) : Nat) : α))

theorem yLoop_succ (n : Nat) (x1 : Bool) (fuel : Nat) (d r : α) (s : Ev.St) (y : List α) :
    Ev.yLoop n x1 (fuel+1) d r s y =
      Ev.yLoop n x1 fuel (digitOf n x1 d).2 (r * Ev.half) (Ev.step n s (digitOf n x1 d).1).1
        (List.zipWith (fun yi ui => Ev.addSigned yi (r * Ev.half) ui) y (Ev.step n s (digitOf n x1 d).1).2) := by
  cases x1 <;> rfl

theorem exec_digit (st : LState α) (n : Nat) (x d : α) (hn : st.n = n) (hne : st.nexp = Ev.nexp n)
    (hx : st.num .xArg = some x) (hd : st.num .d = some d) :
    ∃ st', execS digitR st = .normal st' ∧ st'.iis = some (digitOf n (decide (1 ≤ x)) d).1 ∧
      st'.num .d = some (digitOf n (decide (1 ≤ x)) d).2 ∧ (∀ v, v ≠ .d → st'.num v = st.num v) ∧
      st'.int = st.int ∧ st'.arr = st.arr ∧ st'.y = st.y ∧ st'.n = st.n ∧ st'.m = st.m ∧ st'.nexp = st.nexp := by
  by_cases h1 : (1 : α) ≤ x
  · refine ⟨(st.setDig (2^n - 1)).setNum .d 0, ?_, ?_⟩
    · simp [digitR, execS, execL, execSimple, evalC, evalN, hx, h1, evalD, hn]
    · simp [digitOf, h1]
      intro v hv; simp [hv]
  · refine ⟨((st.setNum .d (d * Ev.nexp n)).setDig (TruncNat.toNat (d * Ev.nexp n))).setNum .d
      (d * Ev.nexp n - ((TruncNat.toNat (d * Ev.nexp n) : Nat) : α)), ?_, ?_⟩
    · simp [digitR, execS, execL, execSimple, evalC, evalN, hx, h1, hd, hne]
    · simp [digitOf, h1]
      intro v hv; simp [hv]


/-- projections of updated states -/
macro "frame_simp" : tactic => `(tactic| simp only [setNum_num, setNum_int, setNum_arr, setNum_iis, setNum_y, setNum_n, setNum_m,
  setNum_nexp, setInt_int, setInt_num, setInt_arr, setInt_iis, setInt_y, setInt_n, setInt_m, setInt_nexp, setArr_arr, setArr_num,
  setArr_int, setArr_iis, setArr_y, setArr_n, setArr_m, setArr_nexp, setDig_iis, setDig_num, setDig_int, setDig_arr, setDig_y,
  setDig_n, setDig_m, setDig_nexp, setY_y, setY_num, setY_int, setY_arr, setY_iis, setY_n, setY_m, setY_nexp, reduceCtorEq,
  ↓reduceIte])

/-! ### the element-wise loop of `__GetYonX` -/

def yInnerBody : List RStmt := [
    .setElem .iu (.var .i) (.mul (.elem .iu (.var .i)) (.elem .iw (.var .i))),
    .setElem .iw (.var .i) (.mul (.elem .iw (.var .i)) (.neg (.elem .iv (.var .i)))),
    .setY (.var .i) (.add (.yElem (.var .i)) (.mul (.var .r) (.ofInt (.elem .iu (.var .i)))))]

def yInnerR : RStmt := .for .i .rangeN yInnerBody

/-- the state after `k` rounds of the element-wise loop started in `st0` with `iu = A`, `iw = W`, `iv = V`, `yValues = Y` -/
structure YInner (st0 : LState α) (A W V : List Int) (Y : List α) (r : α) (k : Nat) (st : LState α) : Prop where
  iu : st.arr .iu = some (mixed k (List.zipWith (· * ·) A W) A)
  iw : st.arr .iw = some (mixed k (List.zipWith (fun w v => w * (-v)) W V) W)
  iv : st.arr .iv = some V
  y : st.y = mixed k (List.zipWith (fun yi ui => yi + r * ofInt ui) Y (List.zipWith (· * ·) A W)) Y
  num : st.num = st0.num
  it : st.int .it = st0.int .it
  n : st.n = st0.n
  m : st.m = st0.m
  nexp : st.nexp = st0.nexp

theorem yInner_step (st0 : LState α) (A W V : List Int) (Y : List α) (r : α) (n : Nat)
    (hA : A.length = n) (hW : W.length = n) (hV : V.length = n) (hY : Y.length = n) (hr : st0.num .r = some r)
    (i : Nat) (st : LState α) (hi : i < n) (h : YInner st0 A W V Y r i st) :
    ∃ st', execL yInnerBody (st.setInt .i i) = .normal st' ∧ YInner st0 A W V Y r (i+1) st' := by
  have hA' : (List.zipWith (· * ·) A W).length = A.length := by simp [hA, hW]
  have hW' : (List.zipWith (fun w v => w * (-v)) W V).length = W.length := by simp [hW, hV]
  have hY' : (List.zipWith (fun yi ui => yi + r * ofInt ui) Y (List.zipWith (· * ·) A W)).length = Y.length := by
    simp [hA, hW, hY]
  have hiA : i < A.length := by omega
  have hiW : i < W.length := by omega
  have hiV : i < V.length := by omega
  have hiY : i < Y.length := by omega
  -- statement 1
  have idx1 : evalIdx (st.setInt .i i) (.var .i) = some i := evalIdx_var (by frame_simp)
  have e1 := execS_setElem (st := st.setInt .i i) (a := .iu) (i := .var .i)
    (evalI_mul
      (evalI_elem (a := .iu) (i := .var .i) (by frame_simp; exact h.iu) idx1
        (by rw [getElem?_mixed hA' hiA]; exact List.getElem?_eq_getElem hiA))
      (evalI_elem (a := .iw) (i := .var .i) (by frame_simp; exact h.iw) idx1
        (by rw [getElem?_mixed hW' hiW]; exact List.getElem?_eq_getElem hiW)))
    (by frame_simp; exact h.iu) idx1 (by rw [length_mixed hA' (by omega)]; exact hiA)
  have s1 : (mixed i (List.zipWith (· * ·) A W) A).set i (A[i] * W[i]) = mixed (i+1) (List.zipWith (· * ·) A W) A := by
    rw [← set_mixed hA' hiA]; simp
  rw [s1] at e1
  -- statement 2
  have idx2 : evalIdx ((st.setInt .i i).setArr .iu (mixed (i+1) (List.zipWith (· * ·) A W) A)) (.var .i) = some i :=
    evalIdx_var (by frame_simp)
  have e2 := execS_setElem (st := (st.setInt .i i).setArr .iu (mixed (i+1) (List.zipWith (· * ·) A W) A)) (a := .iw) (i := .var .i)
    (evalI_mul
      (evalI_elem (a := .iw) (i := .var .i) (by frame_simp; exact h.iw) idx2
        (by rw [getElem?_mixed hW' hiW]; exact List.getElem?_eq_getElem hiW))
      (evalI_neg (evalI_elem (a := .iv) (i := .var .i) (by frame_simp; exact h.iv) idx2 (List.getElem?_eq_getElem hiV))))
    (by frame_simp; exact h.iw) idx2 (by rw [length_mixed hW' (by omega)]; exact hiW)
  have s2 : (mixed i (List.zipWith (fun w v => w * (-v)) W V) W).set i (W[i] * -V[i]) =
      mixed (i+1) (List.zipWith (fun w v => w * (-v)) W V) W := by
    rw [← set_mixed hW' hiW]; simp
  rw [s2] at e2
  -- statement 3
  have idx3 : evalIdx (((st.setInt .i i).setArr .iu (mixed (i+1) (List.zipWith (· * ·) A W) A)).setArr .iw
      (mixed (i+1) (List.zipWith (fun w v => w * (-v)) W V) W)) (.var .i) = some i := evalIdx_var (by frame_simp)
  have ev3 : evalN (((st.setInt .i i).setArr .iu (mixed (i+1) (List.zipWith (· * ·) A W) A)).setArr .iw
      (mixed (i+1) (List.zipWith (fun w v => w * (-v)) W V) W))
      (.add (.yElem (.var .i)) (.mul (.var .r) (.ofInt (.elem .iu (.var .i))))) = some (Y[i] + r * ofInt (A[i] * W[i])) := by
    have hu := evalI_elem (a := .iu) (i := .var .i) (x := A[i] * W[i]) (l := mixed (i+1) (List.zipWith (· * ·) A W) A)
      (st := ((st.setInt .i i).setArr .iu (mixed (i+1) (List.zipWith (· * ·) A W) A)).setArr .iw
        (mixed (i+1) (List.zipWith (fun w v => w * (-v)) W V) W)) (by frame_simp) idx3
      (by rw [getElem?_mixed_lt (Nat.lt_succ_self i) (by omega), List.getElem?_eq_getElem (by omega)]; simp)
    have hy : (mixed i (List.zipWith (fun yi ui => yi + r * ofInt ui) Y (List.zipWith (· * ·) A W)) Y)[i]? = some Y[i] := by
      rw [getElem?_mixed hY' hiY]; exact List.getElem?_eq_getElem hiY
    simp only [evalN, idx3, hu, setArr_y, setInt_y, h.y, hy, setArr_num, setInt_num, h.num, hr]
  have e3 := execS_setY ev3 idx3 (by simp only [setArr_y, setInt_y, h.y, length_mixed hY' (Nat.le_of_lt hiY)]; exact hiY)
  have s3 : (mixed i (List.zipWith (fun yi ui => yi + r * ofInt ui) Y (List.zipWith (· * ·) A W)) Y).set i
      (Y[i] + r * ofInt (A[i] * W[i])) = mixed (i+1) (List.zipWith (fun yi ui => yi + r * ofInt ui) Y (List.zipWith (· * ·) A W)) Y := by
    rw [← set_mixed hY' hiY]; simp
  simp only [setArr_y, setInt_y, h.y, s3] at e3
  refine ⟨_, (execL_cons_normal e1).trans ((execL_cons_normal e2).trans ((execL_cons_normal e3).trans (execL_nil _))), ?_⟩
  · constructor <;> frame_simp <;> first | exact h.iv | exact h.num | exact h.it | exact h.n | exact h.m | exact h.nexp


theorem exec_yInner (st0 : LState α) (A W V : List Int) (Y : List α) (r : α) (n : Nat) (hn : st0.n = n)
    (hA : A.length = n) (hW : W.length = n) (hV : V.length = n) (hY : Y.length = n) (hr : st0.num .r = some r)
    (hiu : st0.arr .iu = some A) (hiw : st0.arr .iw = some W) (hiv : st0.arr .iv = some V) (hy : st0.y = Y) :
    ∃ st', execS yInnerR st0 = .normal st' ∧
      st'.arr .iu = some (List.zipWith (· * ·) A W) ∧
      st'.arr .iw = some (List.zipWith (fun w v => w * (-v)) W V) ∧
      st'.arr .iv = some V ∧
      st'.y = List.zipWith (fun yi ui => yi + r * ofInt ui) Y (List.zipWith (· * ·) A W) ∧
      st'.num = st0.num ∧ st'.int .it = st0.int .it ∧ st'.n = st0.n ∧ st'.m = st0.m ∧ st'.nexp = st0.nexp := by
  have h0 : YInner st0 A W V Y r 0 st0 := by
    constructor <;> first | rfl | assumption
  obtain ⟨st', e, h⟩ := forLoop_inv (YInner st0 A W V Y r) (fun i s => execL yInnerBody (s.setInt .i i)) n 0 st0 h0
    (fun i st _ hi hP => yInner_step st0 A W V Y r n hA hW hV hY hr i st (by omega) hP)
  refine ⟨st', ?_, ?_, ?_, h.iv, ?_, h.num, h.it, h.n, h.m, h.nexp⟩
  · simp only [yInnerR, execS, collRange, hn, List.range_eq_range']
    exact e
  · have := h.iu
    rw [Nat.zero_add, ← hA, mixed_full _ _ (by simp [hA, hW])] at this
    exact this
  · have := h.iw
    rw [Nat.zero_add, ← hW, mixed_full _ _ (by simp [hW, hV])] at this
    exact this
  · have := h.y
    rw [Nat.zero_add, ← hY, mixed_full _ _ (by simp [hA, hW, hY])] at this
    exact this

theorem exec_node (st : LState α) (n d : Nat) (a b : List Int) (hn : st.n = n) (hd : st.iis = some d)
    (ha : st.arr .iu = some a) (hb : st.arr .iv = some b) (hla : a.length = n) (hlb : b.length = n) :
    execS (.node .l .iu .iv) st =
      .normal (((st.setInt .l (Ev.node n d).1).setArr .iu (Ev.node n d).2.1).setArr .iv (Ev.node n d).2.2) := by
  simp only [execS, execSimple, hd, ha, hb, hn, hla, hlb, ne_eq, reduceCtorEq, not_false_eq_true, and_self, ↓reduceIte]

/-! ### the carrier facts the ties need -/

/-- multiplying by the signs `±1` and adding / subtracting is exact: what the source (`y + r * iu[i]`) and the model
(`Ev.addSigned`: `y + r` or `y - r` by a sign test) need to agree on.  True in every field (`signMul_field`), and in IEEE doubles. -/
structure SignMul (α : Type) [Add α] [Sub α] [Mul α] [Neg α] [NatCast α] : Prop where
  add_pos : ∀ y r : α, y + r * ofInt 1 = y + r
  add_neg : ∀ y r : α, y + r * ofInt (-1) = y - r
  sub_pos : ∀ y r : α, y - r * ofInt 1 = y - r
  sub_neg : ∀ y r : α, y - r * ofInt (-1) = y + r

theorem SignMul.add_eq (sm : SignMul α) (y r : α) {u : Int} (hu : pm u) : y + r * ofInt u = Ev.addSigned y r u := by
  rcases hu with rfl | rfl
  · rw [sm.add_pos]; rfl
  · rw [sm.add_neg]; rfl

theorem SignMul.sub_eq (sm : SignMul α) (y r : α) {u : Int} (hu : pm u) : y - r * ofInt u = Ev.addSigned y r (-u) := by
  rcases hu with rfl | rfl
  · rw [sm.sub_pos]; rfl
  · rw [sm.sub_neg]; rfl

theorem zipWith_congr_right {β γ δ : Type} (f g : β → γ → δ) : ∀ (l1 : List β) (l2 : List γ),
    (∀ a, ∀ b ∈ l2, f a b = g a b) → List.zipWith f l1 l2 = List.zipWith g l1 l2
  | [], _, _ => by simp
  | _ :: _, [], _ => by simp
  | a :: l1, b :: l2, h => by
    simp only [List.zipWith_cons_cons]
    rw [h a b (by simp), zipWith_congr_right f g l1 l2 (fun a b hb => h a b (by simp [hb]))]

theorem zipWith_pm {f : Int → Int → Int} (hf : ∀ a b, pm a → pm b → pm (f a b)) {l1 l2 : List Int}
    (h1 : ∀ a ∈ l1, pm a) (h2 : ∀ a ∈ l2, pm a) : ∀ a ∈ List.zipWith f l1 l2, pm a := by
  intro a ha
  obtain ⟨i, hi, rfl⟩ := List.mem_iff_getElem.1 ha
  rw [List.getElem_zipWith]
  exact hf _ _ (h1 _ (List.getElem_mem _)) (h2 _ (List.getElem_mem _))

theorem length_swap0 (l : List Int) (it : Nat) : (Ev.swap0 l it).length = l.length := by
  simp [Ev.swap0]

theorem swap0_pm {l : List Int} (h : ∀ a ∈ l, pm a) {it : Nat} (hit : it < l.length) : ∀ a ∈ Ev.swap0 l it, pm a := by
  unfold Ev.swap0
  exact set_pm (set_pm h _ (getI_pm h hit)) _ (getI_pm h (by omega))

theorem relabel_lt {n l it : Nat} (hl : l < n) (hit : it < n) : Ev.relabel l it < n := by
  unfold Ev.relabel; split
  · exact hit
  · split
    · omega
    · exact hl

theorem step_eq (n : Nat) (s : Ev.St) (d : Nat) :
    Ev.step n s d = (⟨Ev.relabel (Ev.node n d).1 s.it,
        List.zipWith (fun w v => w * (-v)) s.iw (Ev.swap0 (Ev.node n d).2.2 s.it)⟩,
      List.zipWith (· * ·) (Ev.swap0 (Ev.node n d).2.1 s.it) s.iw) := rfl

/-! ### one level of `__GetYonX` -/

def yTailR : List RStmt := [relabelR, .setNum .r (.mul (.var .r) .half), .setInt .it (.var .l), yInnerR]

/-- the body of the level loop of `__GetYonX` -/
def yBodyR : List RStmt := digitR :: .node .l .iu .iv :: (swapR .iu ++ (swapR .iv ++ yTailR))

/-- the interpreter state at the head of the level loop of `__GetYonX` stands for the arguments `d r s y` of `Ev.yLoop` -/
structure YInv (n m : Nat) (x : α) (st : LState α) (d r : α) (s : Ev.St) (y : List α) : Prop where
  hn : st.n = n
  hm : st.m = m
  hnexp : st.nexp = Ev.nexp n
  hx : st.num .xArg = some x
  hd : st.num .d = some d
  hr : st.num .r = some r
  hit : st.int .it = some (s.it : Int)
  hiw : st.arr .iw = some s.iw
  hy : st.y = y
  hiu : ∃ a, st.arr .iu = some a ∧ a.length = n
  hiv : ∃ a, st.arr .iv = some a ∧ a.length = n
  itlt : s.it < n
  iwlen : s.iw.length = n
  iwpm : ∀ a ∈ s.iw, pm a
  ylen : y.length = n

theorem yBody_step (sm : SignMul α) {n m : Nat} (hn : 1 ≤ n) {x : α} {st : LState α} {d r : α} {s : Ev.St} {y : List α}
    (h : YInv n m x st d r s y) (j : Nat) :
    ∃ st', execL yBodyR (st.setInt .j j) = .normal st' ∧
      YInv n m x st' (digitOf n (decide (1 ≤ x)) d).2 (r * Ev.half) (Ev.step n s (digitOf n (decide (1 ≤ x)) d).1).1
        (List.zipWith (fun yi ui => Ev.addSigned yi (r * Ev.half) ui) y (Ev.step n s (digitOf n (decide (1 ≤ x)) d).1).2) := by
  obtain ⟨A0, hA0, hA0l⟩ := h.hiu
  obtain ⟨B0, hB0, hB0l⟩ := h.hiv
  obtain ⟨st1, e1, h1iis, h1d, h1num, h1int, h1arr, h1y, h1n, h1m, h1nexp⟩ :=
    exec_digit (st.setInt .j j) n x d h.hn h.hnexp h.hx h.hd
  generalize (digitOf n (decide (1 ≤ x)) d).1 = dg at *
  generalize (digitOf n (decide (1 ≤ x)) d).2 = d' at *
  obtain ⟨hLlt, hUl, hVl, hUpm, hVpm⟩ := node_facts hn dg
  rw [step_eq]
  generalize hL : (Ev.node n dg).1 = L at *
  generalize hU : (Ev.node n dg).2.1 = U at *
  generalize hV : (Ev.node n dg).2.2 = V at *
  have hit1 : st1.int .it = some (s.it : Int) := by rw [h1int]; frame_simp; exact h.hit
  have e2 := exec_node st1 n dg A0 B0 (h1n.trans h.hn) h1iis (by rw [h1arr]; exact hA0) (by rw [h1arr]; exact hB0) hA0l hB0l
  rw [hL, hU, hV] at e2
  have e3 := exec_swap .iu (((st1.setInt .l L).setArr .iu U).setArr .iv V) U s.it (by frame_simp) (by frame_simp; exact hit1)
    (by rw [hUl]; exact h.itlt)
  have e4 := exec_swap .iv (((((st1.setInt .l L).setArr .iu U).setArr .iv V).setInt .i (Ev.getI U 0)).setArr .iu (Ev.swap0 U s.it))
    V s.it (by frame_simp) (by frame_simp; exact hit1) (by rw [hVl]; exact h.itlt)
  have e5 := exec_relabel (((((((st1.setInt .l L).setArr .iu U).setArr .iv V).setInt .i (Ev.getI U 0)).setArr .iu
    (Ev.swap0 U s.it)).setInt .i (Ev.getI V 0)).setArr .iv (Ev.swap0 V s.it)) L s.it (by frame_simp) (by frame_simp; exact hit1)
  have hr1 : st1.num .r = some r := by rw [h1num _ (by decide)]; exact h.hr
  have e6 : execS (.setNum .r (.mul (.var .r) .half))
      ((((((((st1.setInt .l L).setArr .iu U).setArr .iv V).setInt .i (Ev.getI U 0)).setArr .iu
        (Ev.swap0 U s.it)).setInt .i (Ev.getI V 0)).setArr .iv (Ev.swap0 V s.it)).setInt .l ((Ev.relabel L s.it : Nat) : Int)) =
      .normal (((((((((st1.setInt .l L).setArr .iu U).setArr .iv V).setInt .i (Ev.getI U 0)).setArr .iu
        (Ev.swap0 U s.it)).setInt .i (Ev.getI V 0)).setArr .iv (Ev.swap0 V s.it)).setInt .l
          ((Ev.relabel L s.it : Nat) : Int)).setNum .r (r * Ev.half)) := by
    simp only [execS, execSimple, evalN, setInt_num, setArr_num, hr1]
  have e7 : execS (.setInt .it (.var .l))
      (((((((((st1.setInt .l L).setArr .iu U).setArr .iv V).setInt .i (Ev.getI U 0)).setArr .iu
        (Ev.swap0 U s.it)).setInt .i (Ev.getI V 0)).setArr .iv (Ev.swap0 V s.it)).setInt .l
          ((Ev.relabel L s.it : Nat) : Int)).setNum .r (r * Ev.half)) =
      .normal ((((((((((st1.setInt .l L).setArr .iu U).setArr .iv V).setInt .i (Ev.getI U 0)).setArr .iu
        (Ev.swap0 U s.it)).setInt .i (Ev.getI V 0)).setArr .iv (Ev.swap0 V s.it)).setInt .l
          ((Ev.relabel L s.it : Nat) : Int)).setNum .r (r * Ev.half)).setInt .it ((Ev.relabel L s.it : Nat) : Int)) := by
    simp only [execS, execSimple, evalI, setNum_int, setInt_int, ↓reduceIte]
  have hiw1 : st1.arr .iw = some s.iw := by rw [h1arr]; exact h.hiw
  obtain ⟨st8, e8, h8iu, h8iw, h8iv, h8y, h8num, h8it, h8n, h8m, h8nexp⟩ :=
    exec_yInner ((((((((((st1.setInt .l L).setArr .iu U).setArr .iv V).setInt .i (Ev.getI U 0)).setArr .iu
        (Ev.swap0 U s.it)).setInt .i (Ev.getI V 0)).setArr .iv (Ev.swap0 V s.it)).setInt .l
          ((Ev.relabel L s.it : Nat) : Int)).setNum .r (r * Ev.half)).setInt .it ((Ev.relabel L s.it : Nat) : Int))
      (Ev.swap0 U s.it) s.iw (Ev.swap0 V s.it) y (r * Ev.half) n (by frame_simp; exact h1n.trans h.hn)
      (by rw [length_swap0, hUl]) h.iwlen (by rw [length_swap0, hVl]) h.ylen (by frame_simp) (by frame_simp)
      (by frame_simp; exact hiw1) (by frame_simp) (by frame_simp; rw [h1y]; exact h.hy)
  have hU'pm : ∀ a ∈ List.zipWith (· * ·) (Ev.swap0 U s.it) s.iw, pm a :=
    zipWith_pm (fun _ _ => pm_mul) (swap0_pm hUpm (by rw [hUl]; exact h.itlt)) h.iwpm
  refine ⟨st8, ?_, ?_⟩
  · rw [yBodyR, execL_cons_normal e1, execL_cons_normal e2, execL_append_normal e3, execL_append_normal e4, yTailR,
      execL_cons_normal e5, execL_cons_normal e6, execL_cons_normal e7, execL_cons_normal e8, execL_nil]
  · constructor
    · rw [h8n]; frame_simp; exact h1n.trans h.hn
    · rw [h8m]; frame_simp; exact h1m.trans h.hm
    · rw [h8nexp]; frame_simp; exact h1nexp.trans h.hnexp
    · rw [h8num]; frame_simp; rw [h1num _ (by decide)]; exact h.hx
    · rw [h8num]; frame_simp; exact h1d
    · rw [h8num]; frame_simp
    · rw [h8it]; frame_simp
    · exact h8iw
    · rw [h8y]
      exact zipWith_congr_right _ _ _ _ (fun a b hb => sm.add_eq a _ (hU'pm b hb))
    · exact ⟨_, h8iu, by simp [length_swap0, hUl, h.iwlen]⟩
    · exact ⟨_, h8iv, by rw [length_swap0, hVl]⟩
    · exact relabel_lt hLlt h.itlt
    · simp [length_swap0, hVl, h.iwlen]
    · exact zipWith_pm (fun _ _ ha hb => pm_mul ha (pm_neg hb)) h.iwpm (swap0_pm hVpm (by rw [hVl]; exact h.itlt))
    · simp [length_swap0, hUl, h.iwlen, h.ylen]


/-- the level loop of `__GetYonX` from a state standing for `d r s y`: the scratch array ends as `Ev.yLoop … d r s y` -/
theorem yLoop_exec (sm : SignMul α) {n m : Nat} (hn : 1 ≤ n) {x : α} : ∀ (cnt k : Nat) (st : LState α) (d r : α) (s : Ev.St)
    (y : List α), YInv n m x st d r s y →
    ∃ st', forLoop (List.range' k cnt) (fun j s => execL yBodyR (s.setInt .j j)) st = .normal st' ∧
      st'.y = Ev.yLoop n (decide (1 ≤ x)) cnt d r s y := by
  intro cnt
  induction cnt with
  | zero => intro k st d r s y h; exact ⟨st, rfl, h.hy⟩
  | succ cnt ih =>
    intro k st d r s y h
    obtain ⟨st1, e1, h1⟩ := yBody_step sm hn h k
    obtain ⟨st2, e2, h2⟩ := ih (k+1) st1 _ _ _ _ h1
    refine ⟨st2, ?_, ?_⟩
    · simp only [List.range'_succ, forLoop, e1, e2]
    · rw [h2, yLoop_succ]

/-! ### `__GetYonX` -/

/-- the generated tree of `__GetYonX`, resolved -/
def getYonXR : List RStmt :=
  [.ite .nIsOne [.setY .zero (.sub (.var .xArg) .half), .ret .yRef] [],
   .setNum .d .zero, .setNum .d (.var .xArg), .setNum .r .half, .setInt .it (.lit 0),
   .ones .iw, .zerosY, .zerosInt .iu, .zerosInt .iv,
   .for .j .rangeM yBodyR,
   .ret .yCopy]

/-- every string of the generated tree of `__GetYonX` is in the table that its position asks for -/
theorem resolve_getYonX : resolveL getYonX = some getYonXR := by rfl

theorem bind_getYonX (st : LState α) (x : α) : bindParams getYonXParams [x] st = some (st.setNum .xArg x) := by rfl

/-- the state at the head of the level loop -/
def yInit (n m : Nat) (y0 : List α) (x : α) : LState α :=
  (((((((((({ n := n, m := m, nexp := Ev.nexp n, y := y0 } : LState α).setNum .xArg x).setNum .d 0).setNum .d x).setNum .r
    Ev.half).setInt .it 0).setArr .iw (List.replicate n 1)).setY (List.replicate n 0)).setArr .iu (List.replicate n 0)).setArr .iv
      (List.replicate n 0))

/-- **`__GetYonX`, source tree = model.**  For every `N ≥ 1`, every `m`, every `x`: the interpretation of the statement tree generated
from the source text of `Evolvent.__GetYonX`, run on an object with `numberOfFloatVariables = N`, `evolventDensity = m`,
`nexpExtended = Ev.nexp N` (what `__init__` leaves there: `init_src`) and any scratch array `y0` (with one entry when `N = 1`: that
branch writes `self.yValues[0]` in place), is never stuck; it leaves `Ev.imageCube N m x` in `self.yValues` and returns the scratch
array itself (`N = 1`) resp. a copy with the same content (`N ≥ 2`). -/
theorem getYonX_src (sm : SignMul α) (n m : Nat) (hn : 1 ≤ n) (x : α) (y0 : List α) (h1 : n = 1 → y0.length = 1) :
    run getYonXParams getYonX n m (Ev.nexp n) y0 [x] =
      some (Ev.imageCube n m x, if n = 1 then Out.yRef else Out.copy (Ev.imageCube n m x)) := by
  simp only [run, bind_getYonX, resolve_getYonX]
  by_cases hn1 : n = 1
  · subst hn1
    obtain ⟨a, rfl⟩ : ∃ a, y0 = [a] := by
      match y0, h1 rfl with
      | [a], _ => exact ⟨a, rfl⟩
    simp [getYonXR, execL, execS, execSimple, evalC, evalN, Ev.imageCube, LState.setY, LState.setNum]
  · have hb : (n == 1) = false := by simpa using hn1
    have h0 : YInv n m x (yInit n m y0 x) x Ev.half (Ev.St.init n) (List.replicate n 0) := by
      unfold yInit
      constructor
      any_goals (frame_simp <;> rfl)
      · exact ⟨List.replicate n 0, by frame_simp, by simp⟩
      · exact ⟨List.replicate n 0, by frame_simp, by simp⟩
      · exact hn
      · simp [Ev.St.init]
      · intro a ha; rw [List.eq_of_mem_replicate ha]; exact pm_one
      · simp
    obtain ⟨st', e, hy⟩ := yLoop_exec sm hn m 0 _ _ _ _ _ h0
    have e' : forLoop (List.range' 0 m) (fun j s => execL yBodyR (s.setInt .j j)) (yInit n m y0 x) = .normal st' := e
    unfold yInit at e'
    simp only [getYonXR, execL, execS, execSimple, evalC, hb, evalN, evalI, setNum_num, ↓reduceIte, setNum_n, setInt_n,
      setArr_n, setY_n, collRange, setNum_m, setInt_m, setArr_m, setY_m, List.range_eq_range', Ev.imageCube, hn1, reduceCtorEq, e', hy, Bool.false_eq_true]


theorem execS_ite {st : LState α} {c : Cond} {thn els : List RStmt} {b : Bool} (h : evalC st c = some b) :
    execS (.ite c thn els) st = if b then execL thn st else execL els st := by
  simp only [execS, h]
  cases b <;> rfl

/-! ### the two element-wise loops of `__GetXonY` -/

/-- `-1 if y < 0 else 1` -/
def sgn (yi : α) : Int := if yi < 0 then -1 else 1

theorem sgn_pm (yi : α) : pm (sgn yi) := by
  unfold sgn; split
  · exact pm_neg_one
  · exact pm_one

def xInner1Body : List RStmt := [
    .ite (.lt (.yElem (.var .i)) .zero) [.setElem .u (.var .i) (.lit (-1))] [.setElem .u (.var .i) (.lit 1)],
    .setY (.var .i) (.sub (.yElem (.var .i)) (.mul (.var .r) (.ofInt (.elem .u (.var .i))))),
    .setElem .u (.var .i) (.mul (.elem .u (.var .i)) (.elem .w (.var .i)))]

def xInner1R : RStmt := .for .i .rangeN xInner1Body

structure XInner1 (st0 : LState α) (U W : List Int) (Y : List α) (r : α) (k : Nat) (st : LState α) : Prop where
  hu : st.arr .u = some (mixed k (List.zipWith (· * ·) (Y.map sgn) W) U)
  hw : st.arr .w = some W
  hy : st.y = mixed k (List.zipWith (fun yi ui => yi - r * ofInt ui) Y (Y.map sgn)) Y
  hv : st.arr .v = st0.arr .v
  hnum : st.num = st0.num
  hit : st.int .it = st0.int .it
  hn : st.n = st0.n
  hm : st.m = st0.m
  hnexp : st.nexp = st0.nexp

theorem xInner1_step (st0 : LState α) (U W : List Int) (Y : List α) (r : α) (n : Nat)
    (hU : U.length = n) (hW : W.length = n) (hY : Y.length = n) (hr : st0.num .r = some r)
    (i : Nat) (st : LState α) (hi : i < n) (h : XInner1 st0 U W Y r i st) :
    ∃ st', execL xInner1Body (st.setInt .i i) = .normal st' ∧ XInner1 st0 U W Y r (i+1) st' := by
  have hU' : (List.zipWith (· * ·) (Y.map sgn) W).length = U.length := by simp [hU, hW, hY]
  have hY' : (List.zipWith (fun yi ui => yi - r * ofInt ui) Y (Y.map sgn)).length = Y.length := by simp
  have hiU : i < U.length := by omega
  have hiW : i < W.length := by omega
  have hiY : i < Y.length := by omega
  have hyi : (mixed i (List.zipWith (fun yi ui => yi - r * ofInt ui) Y (Y.map sgn)) Y)[i]? = some Y[i] := by
    rw [getElem?_mixed hY' hiY]; exact List.getElem?_eq_getElem hiY
  have hlen : i < (mixed i (List.zipWith (· * ·) (Y.map sgn) W) U).length := by rw [length_mixed hU' (by omega)]; exact hiU
  -- statement 1
  have idx1 : evalIdx (st.setInt .i i) (.var .i) = some i := evalIdx_var (by frame_simp)
  have e1 : execS (.ite (.lt (.yElem (.var .i)) .zero) [.setElem .u (.var .i) (.lit (-1))] [.setElem .u (.var .i) (.lit 1)])
      (st.setInt .i i) =
      .normal ((st.setInt .i i).setArr .u ((mixed i (List.zipWith (· * ·) (Y.map sgn) W) U).set i (sgn Y[i]))) := by
    have hc : evalC (st.setInt .i i) (.lt (.yElem (.var .i)) .zero) = some (decide (Y[i] < 0)) := by
      simp only [evalC, evalN, idx1, setInt_y, h.hy, hyi]
    have hs (c : Int) : execS (.setElem .u (.var .i) (.lit c)) (st.setInt .i i) =
        .normal ((st.setInt .i i).setArr .u ((mixed i (List.zipWith (· * ·) (Y.map sgn) W) U).set i c)) :=
      execS_setElem (by simp only [evalI]) (by frame_simp; exact h.hu) idx1 hlen
    rw [execS_ite hc]
    by_cases hlt : Y[i] < 0
    · simp only [hlt, decide_true, sgn, ↓reduceIte]
      rw [execL_cons_normal (hs _), execL_nil]
    · simp only [hlt, decide_false, sgn, ↓reduceIte, Bool.false_eq_true]
      rw [execL_cons_normal (hs _), execL_nil]
  -- statement 2
  have idx2 : evalIdx ((st.setInt .i i).setArr .u ((mixed i (List.zipWith (· * ·) (Y.map sgn) W) U).set i (sgn Y[i])))
      (.var .i) = some i := evalIdx_var (by frame_simp)
  have hui : evalI ((st.setInt .i i).setArr .u ((mixed i (List.zipWith (· * ·) (Y.map sgn) W) U).set i (sgn Y[i])))
      (.elem .u (.var .i)) = some (sgn Y[i]) :=
    evalI_elem (l := (mixed i (List.zipWith (· * ·) (Y.map sgn) W) U).set i (sgn Y[i])) (by frame_simp) idx2
      (List.getElem?_set_self hlen)
  have ev2 : evalN ((st.setInt .i i).setArr .u ((mixed i (List.zipWith (· * ·) (Y.map sgn) W) U).set i (sgn Y[i])))
      (.sub (.yElem (.var .i)) (.mul (.var .r) (.ofInt (.elem .u (.var .i))))) = some (Y[i] - r * ofInt (sgn Y[i])) := by
    simp only [evalN, idx2, hui, setArr_y, setInt_y, h.hy, hyi, setArr_num, setInt_num, h.hnum, hr]
  have e2 := execS_setY ev2 idx2 (by simp only [setArr_y, setInt_y, h.hy, length_mixed hY' (Nat.le_of_lt hiY)]; exact hiY)
  have s2 : (mixed i (List.zipWith (fun yi ui => yi - r * ofInt ui) Y (Y.map sgn)) Y).set i (Y[i] - r * ofInt (sgn Y[i])) =
      mixed (i+1) (List.zipWith (fun yi ui => yi - r * ofInt ui) Y (Y.map sgn)) Y := by
    rw [← set_mixed hY' hiY]; simp
  simp only [setArr_y, setInt_y, h.hy, s2] at e2
  -- statement 3
  have idx3 : evalIdx (((st.setInt .i i).setArr .u ((mixed i (List.zipWith (· * ·) (Y.map sgn) W) U).set i (sgn Y[i]))).setY
      (mixed (i+1) (List.zipWith (fun yi ui => yi - r * ofInt ui) Y (Y.map sgn)) Y)) (.var .i) = some i :=
    evalIdx_var (by frame_simp)
  have e3 := execS_setElem (st := ((st.setInt .i i).setArr .u ((mixed i (List.zipWith (· * ·) (Y.map sgn) W) U).set i
      (sgn Y[i]))).setY (mixed (i+1) (List.zipWith (fun yi ui => yi - r * ofInt ui) Y (Y.map sgn)) Y)) (a := .u) (i := .var .i)
    (evalI_mul
      (evalI_elem (a := .u) (i := .var .i) (l := (mixed i (List.zipWith (· * ·) (Y.map sgn) W) U).set i (sgn Y[i]))
        (by frame_simp) idx3 (List.getElem?_set_self hlen))
      (evalI_elem (a := .w) (i := .var .i) (by frame_simp; exact h.hw) idx3 (List.getElem?_eq_getElem hiW)))
    (l := (mixed i (List.zipWith (· * ·) (Y.map sgn) W) U).set i (sgn Y[i])) (by frame_simp) idx3
    (by rw [List.length_set]; exact hlen)
  have s3 : ((mixed i (List.zipWith (· * ·) (Y.map sgn) W) U).set i (sgn Y[i])).set i (sgn Y[i] * W[i]) =
      mixed (i+1) (List.zipWith (· * ·) (Y.map sgn) W) U := by
    rw [List.set_set, ← set_mixed hU' hiU]; simp
  rw [s3] at e3
  refine ⟨_, (execL_cons_normal e1).trans ((execL_cons_normal e2).trans ((execL_cons_normal e3).trans (execL_nil _))), ?_⟩
  constructor
  · frame_simp
  all_goals (frame_simp <;> first | exact h.hw | exact h.hv | exact h.hnum | exact h.hit | exact h.hn | exact h.hm | exact h.hnexp)


theorem exec_xInner1 (st0 : LState α) (U W : List Int) (Y : List α) (r : α) (n : Nat) (hn : st0.n = n)
    (hU : U.length = n) (hW : W.length = n) (hY : Y.length = n) (hr : st0.num .r = some r)
    (hu : st0.arr .u = some U) (hw : st0.arr .w = some W) (hy : st0.y = Y) :
    ∃ st', execS xInner1R st0 = .normal st' ∧
      st'.arr .u = some (List.zipWith (· * ·) (Y.map sgn) W) ∧
      st'.arr .w = some W ∧
      st'.y = List.zipWith (fun yi ui => yi - r * ofInt ui) Y (Y.map sgn) ∧
      st'.arr .v = st0.arr .v ∧ st'.num = st0.num ∧ st'.int .it = st0.int .it ∧ st'.n = st0.n ∧ st'.m = st0.m ∧
      st'.nexp = st0.nexp := by
  have h0 : XInner1 st0 U W Y r 0 st0 := by
    constructor <;> first | rfl | assumption
  obtain ⟨st', e, h⟩ := forLoop_inv (XInner1 st0 U W Y r) (fun i s => execL xInner1Body (s.setInt .i i)) n 0 st0 h0
    (fun i st _ hi hP => xInner1_step st0 U W Y r n hU hW hY hr i st (by omega) hP)
  refine ⟨st', ?_, ?_, h.hw, ?_, h.hv, h.hnum, h.hit, h.hn, h.hm, h.hnexp⟩
  · simp only [xInner1R, execS, collRange, hn, List.range_eq_range']
    exact e
  · have := h.hu
    rw [Nat.zero_add, ← hU, mixed_full _ _ (by simp [hU, hW, hY])] at this
    exact this
  · have := h.hy
    rw [Nat.zero_add, ← hY, mixed_full _ _ (by simp)] at this
    exact this

def xInner2Body : List RStmt := [.setElem .w (.var .i) (.mul (.elem .w (.var .i)) (.neg (.elem .v (.var .i))))]

def xInner2R : RStmt := .for .i .rangeN xInner2Body

structure XInner2 (st0 : LState α) (W V : List Int) (k : Nat) (st : LState α) : Prop where
  hw : st.arr .w = some (mixed k (List.zipWith (fun w v => w * (-v)) W V) W)
  hv : st.arr .v = some V
  hu : st.arr .u = st0.arr .u
  hy : st.y = st0.y
  hnum : st.num = st0.num
  hit : st.int .it = st0.int .it
  hl : st.int .l = st0.int .l
  hiis : st.iis = st0.iis
  hn : st.n = st0.n
  hm : st.m = st0.m
  hnexp : st.nexp = st0.nexp

theorem xInner2_step (st0 : LState α) (W V : List Int) (n : Nat) (hW : W.length = n) (hV : V.length = n)
    (i : Nat) (st : LState α) (hi : i < n) (h : XInner2 st0 W V i st) :
    ∃ st', execL xInner2Body (st.setInt .i i) = .normal st' ∧ XInner2 st0 W V (i+1) st' := by
  have hW' : (List.zipWith (fun w v => w * (-v)) W V).length = W.length := by simp [hW, hV]
  have hiW : i < W.length := by omega
  have hiV : i < V.length := by omega
  have idx1 : evalIdx (st.setInt .i i) (.var .i) = some i := evalIdx_var (by frame_simp)
  have e1 := execS_setElem (st := st.setInt .i i) (a := .w) (i := .var .i)
    (evalI_mul
      (evalI_elem (a := .w) (i := .var .i) (by frame_simp; exact h.hw) idx1
        (by rw [getElem?_mixed hW' hiW]; exact List.getElem?_eq_getElem hiW))
      (evalI_neg (evalI_elem (a := .v) (i := .var .i) (by frame_simp; exact h.hv) idx1 (List.getElem?_eq_getElem hiV))))
    (by frame_simp; exact h.hw) idx1 (by rw [length_mixed hW' (by omega)]; exact hiW)
  have s1 : (mixed i (List.zipWith (fun w v => w * (-v)) W V) W).set i (W[i] * -V[i]) =
      mixed (i+1) (List.zipWith (fun w v => w * (-v)) W V) W := by
    rw [← set_mixed hW' hiW]; simp
  rw [s1] at e1
  refine ⟨_, (execL_cons_normal e1).trans (execL_nil _), ?_⟩
  constructor
  · frame_simp
  all_goals
    (frame_simp; first
      | exact h.hv | exact h.hu | exact h.hy | exact h.hnum | exact h.hit | exact h.hl | exact h.hiis | exact h.hn
      | exact h.hm | exact h.hnexp)

theorem exec_xInner2 (st0 : LState α) (W V : List Int) (n : Nat) (hn : st0.n = n) (hW : W.length = n) (hV : V.length = n)
    (hw : st0.arr .w = some W) (hv : st0.arr .v = some V) :
    ∃ st', execS xInner2R st0 = .normal st' ∧
      st'.arr .w = some (List.zipWith (fun w v => w * (-v)) W V) ∧ st'.arr .v = some V ∧ st'.arr .u = st0.arr .u ∧
      st'.y = st0.y ∧ st'.num = st0.num ∧ st'.int .it = st0.int .it ∧ st'.int .l = st0.int .l ∧ st'.iis = st0.iis ∧
      st'.n = st0.n ∧ st'.m = st0.m ∧ st'.nexp = st0.nexp := by
  have h0 : XInner2 st0 W V 0 st0 := by
    constructor <;> first | rfl | assumption
  obtain ⟨st', e, h⟩ := forLoop_inv (XInner2 st0 W V) (fun i s => execL xInner2Body (s.setInt .i i)) n 0 st0 h0
    (fun i st _ hi hP => xInner2_step st0 W V n hW hV i st (by omega) hP)
  refine ⟨st', ?_, ?_, h.hv, h.hu, h.hy, h.hnum, h.hit, h.hl, h.hiis, h.hn, h.hm, h.hnexp⟩
  · simp only [xInner2R, execS, collRange, hn, List.range_eq_range']
    exact e
  · have := h.hw
    rw [Nat.zero_add, ← hW, mixed_full _ _ (by simp [hW, hV])] at this
    exact this

theorem exec_numbr (st : LState α) (n : Nat) (a b : List Int) (hn : st.n = n)
    (ha : st.arr .u = some a) (hb : st.arr .v = some b) (hla : a.length = n) (hlb : b.length = n) :
    execS (.numbr .l .u .v) st =
      .normal (((st.setDig (Ev.numbr n a).1).setInt .l (Ev.numbr n a).2.1).setArr .v (Ev.numbr n a).2.2) := by
  simp only [execS, execSimple, ha, hb, hn, hla, hlb, ne_eq, reduceCtorEq, not_false_eq_true, and_self, ↓reduceIte]


/-! ### one level of `__GetXonY` -/

def xTailR : List RStmt :=
  [xInner2R, relabelR, .setInt .it (.var .l), .setNum .r1 (.div (.var .r1) .nexp),
   .setNum .x (.add (.var .x) (.mul (.var .r1) .dig))]

/-- the body of the level loop of `__GetXonY` -/
def xBodyR : List RStmt :=
  .setNum .r (.mul (.var .r) .half) :: xInner1R :: (swapR .u ++ (.numbr .l .u .v :: (swapR .v ++ xTailR)))

theorem xLevel_eq (r : α) (y : List α) :
    Ev.xLevel r y = (y.map sgn, List.zipWith (fun yi ui => Ev.addSigned yi r (-ui)) y (y.map sgn)) := rfl

theorem invStep_eq (n : Nat) (s : Ev.St) (u0 : List Int) :
    Ev.invStep n s u0 =
      (⟨Ev.relabel (Ev.numbr n (Ev.swap0 (List.zipWith (· * ·) u0 s.iw) s.it)).2.1 s.it,
        List.zipWith (fun w v => w * (-v)) s.iw (Ev.swap0 (Ev.numbr n (Ev.swap0 (List.zipWith (· * ·) u0 s.iw) s.it)).2.2 s.it)⟩,
       (Ev.numbr n (Ev.swap0 (List.zipWith (· * ·) u0 s.iw) s.it)).1) := rfl

theorem xLoop_succ (n fuel : Nat) (r r1 x : α) (s : Ev.St) (y : List α) :
    Ev.xLoop n (fuel+1) r r1 x s y =
      Ev.xLoop n fuel (r * Ev.half) (r1 / Ev.nexp n)
        (x + r1 / Ev.nexp n * (((Ev.invStep n s (Ev.xLevel (r * Ev.half) y).1).2 : Nat) : α))
        (Ev.invStep n s (Ev.xLevel (r * Ev.half) y).1).1 (Ev.xLevel (r * Ev.half) y).2 := rfl

/-- the interpreter state at the head of the level loop of `__GetXonY` stands for the arguments `r r1 x s y` of `Ev.xLoop` -/
structure XInv (n m : Nat) (st : LState α) (r r1 x : α) (s : Ev.St) (y : List α) : Prop where
  hn : st.n = n
  hm : st.m = m
  hnexp : st.nexp = Ev.nexp n
  hr : st.num .r = some r
  hr1 : st.num .r1 = some r1
  hx : st.num .x = some x
  hit : st.int .it = some (s.it : Int)
  hw : st.arr .w = some s.iw
  hy : st.y = y
  hu : ∃ a, st.arr .u = some a ∧ a.length = n
  hv : ∃ a, st.arr .v = some a ∧ a.length = n
  itlt : s.it < n
  iwlen : s.iw.length = n
  ylen : y.length = n

theorem xBody_step (sm : SignMul α) {n m : Nat} (hn : 1 ≤ n) {st : LState α} {r r1 x : α} {s : Ev.St} {y : List α}
    (h : XInv n m st r r1 x s y) (j : Nat) :
    ∃ st', execL xBodyR (st.setInt .j j) = .normal st' ∧
      XInv n m st' (r * Ev.half) (r1 / Ev.nexp n)
        (x + r1 / Ev.nexp n * (((Ev.invStep n s (Ev.xLevel (r * Ev.half) y).1).2 : Nat) : α))
        (Ev.invStep n s (Ev.xLevel (r * Ev.half) y).1).1 (Ev.xLevel (r * Ev.half) y).2 := by
  obtain ⟨A0, hA0, hA0l⟩ := h.hu
  obtain ⟨B0, hB0, hB0l⟩ := h.hv
  rw [xLevel_eq, invStep_eq]
  -- r *= 0.5
  have e1 : execS (.setNum .r (.mul (.var .r) .half)) (st.setInt .j j) = .normal ((st.setInt .j j).setNum .r (r * Ev.half)) := by
    simp only [execS, execSimple, evalN, setInt_num, h.hr]
  -- the first element-wise loop
  obtain ⟨st2, e2, h2u, h2w, h2y, h2v, h2num, h2it, h2n, h2m, h2nexp⟩ :=
    exec_xInner1 ((st.setInt .j j).setNum .r (r * Ev.half)) A0 s.iw y (r * Ev.half) n (by frame_simp; exact h.hn) hA0l h.iwlen
      h.ylen (by frame_simp) (by frame_simp; exact hA0) (by frame_simp; exact h.hw) (by frame_simp; exact h.hy)
  have hU1l : (List.zipWith (· * ·) (y.map sgn) s.iw).length = n := by simp [h.ylen, h.iwlen]
  have hit2 : st2.int .it = some (s.it : Int) := by rw [h2it]; frame_simp; exact h.hit
  have hn2 : st2.n = n := by rw [h2n]; frame_simp; exact h.hn
  -- swap in `u`
  have e3 := exec_swap .u st2 _ s.it h2u hit2 (by rw [hU1l]; exact h.itlt)
  generalize hU1 : Ev.swap0 (List.zipWith (· * ·) (y.map sgn) s.iw) s.it = U1 at *
  have hU1len : U1.length = n := by rw [← hU1, length_swap0, hU1l]
  obtain ⟨hLlt, hVl⟩ := numbr_facts hn U1 hU1len
  -- __CalculateNumbr
  have e4 := exec_numbr ((st2.setInt .i (Ev.getI (List.zipWith (· * ·) (y.map sgn) s.iw) 0)).setArr .u U1) n U1 B0
    (by frame_simp; exact hn2) (by frame_simp) (by frame_simp; rw [h2v]; frame_simp; exact hB0) hU1len hB0l
  generalize hI : (Ev.numbr n U1).1 = I at *
  generalize hL : (Ev.numbr n U1).2.1 = L at *
  generalize hV : (Ev.numbr n U1).2.2 = V at *
  generalize hst3 : (st2.setInt .i (Ev.getI (List.zipWith (· * ·) (y.map sgn) s.iw) 0)).setArr .u U1 = st3 at *
  have h3it : st3.int .it = some (s.it : Int) := by rw [← hst3]; frame_simp; exact hit2
  have h3n : st3.n = n := by rw [← hst3]; frame_simp; exact hn2
  have h3num : st3.num = st2.num := by rw [← hst3]; rfl
  have h3w : st3.arr .w = some s.iw := by rw [← hst3]; frame_simp; exact h2w
  have h3y : st3.y = st2.y := by rw [← hst3]; rfl
  have h3m : st3.m = st2.m := by rw [← hst3]; rfl
  have h3nexp : st3.nexp = st2.nexp := by rw [← hst3]; rfl
  -- swap in `v`
  have e5 := exec_swap .v (((st3.setDig I).setInt .l L).setArr .v V) V s.it (by frame_simp) (by frame_simp; exact h3it)
    (by rw [hVl]; exact h.itlt)
  -- the second element-wise loop
  obtain ⟨st6, e6, h6w, h6v, h6u, h6y, h6num, h6it, h6l, h6iis, h6n, h6m, h6nexp⟩ :=
    exec_xInner2 (((((st3.setDig I).setInt .l L).setArr .v V).setInt .i (Ev.getI V 0)).setArr .v (Ev.swap0 V s.it))
      s.iw (Ev.swap0 V s.it) n (by frame_simp; exact h3n) h.iwlen (by rw [length_swap0, hVl]) (by frame_simp; exact h3w)
      (by frame_simp)
  have h6it' : st6.int .it = some (s.it : Int) := by rw [h6it]; frame_simp; exact h3it
  have h6l' : st6.int .l = some (L : Int) := by rw [h6l]; frame_simp
  have h6iis' : st6.iis = some I := by rw [h6iis]; frame_simp
  have h6num' : st6.num = (st.setNum .r (r * Ev.half)).num := by rw [h6num]; frame_simp; rw [h3num, h2num]; rfl
  have h6nexp' : st6.nexp = Ev.nexp n := by rw [h6nexp]; frame_simp; rw [h3nexp, h2nexp]; frame_simp; exact h.hnexp
  -- relabel, `it = l`, `r1 /= nexp`, `x += r1 * iis`
  have e7 := exec_relabel st6 L s.it h6l' h6it'
  have e8 : execS (.setInt .it (.var .l)) (st6.setInt .l ((Ev.relabel L s.it : Nat) : Int)) =
      .normal ((st6.setInt .l ((Ev.relabel L s.it : Nat) : Int)).setInt .it ((Ev.relabel L s.it : Nat) : Int)) := by
    simp only [execS, execSimple, evalI, setInt_int, ↓reduceIte]
  have e9 : execS (.setNum .r1 (.div (.var .r1) .nexp))
      ((st6.setInt .l ((Ev.relabel L s.it : Nat) : Int)).setInt .it ((Ev.relabel L s.it : Nat) : Int)) =
      .normal (((st6.setInt .l ((Ev.relabel L s.it : Nat) : Int)).setInt .it ((Ev.relabel L s.it : Nat) : Int)).setNum .r1
        (r1 / Ev.nexp n)) := by
    simp only [execS, execSimple, evalN, setInt_num, setInt_nexp, h6num', h6nexp', setNum_num, reduceCtorEq, ↓reduceIte, h.hr1]
  have e10 : execS (.setNum .x (.add (.var .x) (.mul (.var .r1) .dig)))
      (((st6.setInt .l ((Ev.relabel L s.it : Nat) : Int)).setInt .it ((Ev.relabel L s.it : Nat) : Int)).setNum .r1
        (r1 / Ev.nexp n)) =
      .normal ((((st6.setInt .l ((Ev.relabel L s.it : Nat) : Int)).setInt .it ((Ev.relabel L s.it : Nat) : Int)).setNum .r1
        (r1 / Ev.nexp n)).setNum .x (x + r1 / Ev.nexp n * ((I : Nat) : α))) := by
    simp only [execS, execSimple, evalN, setInt_num, setNum_num, setNum_iis, setInt_iis, h6iis', h6num', reduceCtorEq,
      ↓reduceIte, h.hx]
  refine ⟨(((st6.setInt .l ((Ev.relabel L s.it : Nat) : Int)).setInt .it ((Ev.relabel L s.it : Nat) : Int)).setNum .r1
    (r1 / Ev.nexp n)).setNum .x (x + r1 / Ev.nexp n * ((I : Nat) : α)), ?_, ?_⟩
  · rw [xBodyR, execL_cons_normal e1, execL_cons_normal e2, execL_append_normal e3, execL_cons_normal e4,
      execL_append_normal e5, xTailR, execL_cons_normal e6, execL_cons_normal e7, execL_cons_normal e8,
      execL_cons_normal e9, execL_cons_normal e10, execL_nil]
  · constructor
    · frame_simp; rw [h6n]; frame_simp; exact h3n
    · frame_simp; rw [h6m]; frame_simp; rw [h3m, h2m]; frame_simp; exact h.hm
    · frame_simp; exact h6nexp'
    · frame_simp; rw [h6num']; frame_simp
    · frame_simp
    · frame_simp
    · frame_simp
    · frame_simp; exact h6w
    · frame_simp; rw [h6y]; frame_simp; rw [h3y, h2y]
      exact zipWith_congr_right _ _ _ _ (fun a b hb => by
        obtain ⟨c, _, rfl⟩ := List.mem_map.1 hb
        exact sm.sub_eq a _ (sgn_pm c))
    · exact ⟨U1, by frame_simp; rw [h6u]; frame_simp; rw [← hst3]; frame_simp, hU1len⟩
    · exact ⟨_, by frame_simp; exact h6v, by rw [length_swap0, hVl]⟩
    · exact relabel_lt hLlt h.itlt
    · simp [length_swap0, hVl, h.iwlen]
    · simp [h.ylen]


/-- the level loop of `__GetXonY` from a state standing for `r r1 x s y`: the local `x` ends as `Ev.xLoop … r r1 x s y` -/
theorem xLoop_exec (sm : SignMul α) {n m : Nat} (hn : 1 ≤ n) : ∀ (cnt k : Nat) (st : LState α) (r r1 x : α) (s : Ev.St)
    (y : List α), XInv n m st r r1 x s y →
    ∃ st', forLoop (List.range' k cnt) (fun j s => execL xBodyR (s.setInt .j j)) st = .normal st' ∧
      st'.num .x = some (Ev.xLoop n cnt r r1 x s y) := by
  intro cnt
  induction cnt with
  | zero => intro k st r r1 x s y h; exact ⟨st, rfl, h.hx⟩
  | succ cnt ih =>
    intro k st r r1 x s y h
    obtain ⟨st1, e1, h1⟩ := xBody_step sm hn h k
    obtain ⟨st2, e2, h2⟩ := ih (k+1) st1 _ _ _ _ _ h1
    refine ⟨st2, ?_, ?_⟩
    · simp only [List.range'_succ, forLoop, e1, e2]
    · rw [h2, xLoop_succ]

/-! ### `__GetXonY` -/

/-- the generated tree of `__GetXonY`, resolved -/
def getXonYR : List RStmt :=
  [.ite .nIsOne [.setNum .x (.add (.yElem .zero) .half), .ret (.num .x)] [],
   .setNum .r .zero, .ones .w, .zerosInt .u, .zerosInt .v, .setNum .r .half, .setNum .r1 .one, .setNum .x .zero,
   .setInt .it (.lit 0),
   .for .j .rangeM xBodyR,
   .ret (.num .x)]

/-- every string of the generated tree of `__GetXonY` is in the table that its position asks for -/
theorem resolve_getXonY : resolveL getXonY = some getXonYR := by rfl

theorem bind_getXonY (st : LState α) : bindParams getXonYParams [] st = some st := by rfl

/-- the state at the head of the level loop -/
def xInit (n m : Nat) (y : List α) : LState α :=
  (((((((({ n := n, m := m, nexp := Ev.nexp n, y := y } : LState α).setNum .r 0).setArr .w (List.replicate n 1)).setArr .u
    (List.replicate n 0)).setArr .v (List.replicate n 0)).setNum .r Ev.half).setNum .r1 1).setNum .x 0).setInt .it 0

/-- **`__GetXonY`, source tree = model.**  For every `N ≥ 1`, every `m` and every scratch array `y` with `N` entries: the
interpretation of the statement tree generated from the source text of `Evolvent.__GetXonY`, run on an object with
`numberOfFloatVariables = N`, `evolventDensity = m`, `nexpExtended = Ev.nexp N` and `self.yValues` holding `y`, is never stuck and
returns the number `Ev.inverseCube N m y`.  (For `N ≥ 2` the scratch array is consumed in place; the residuals `yres` it is left with
are not part of the model.) -/
theorem getXonY_src (sm : SignMul α) (n m : Nat) (hn : 1 ≤ n) (y : List α) (hy : y.length = n) :
    ∃ yres, run getXonYParams getXonY n m (Ev.nexp n) y [] = some (yres, Out.num (Ev.inverseCube n m y)) := by
  simp only [run, bind_getXonY, resolve_getXonY]
  by_cases hn1 : n = 1
  · subst hn1
    obtain ⟨a, rfl⟩ : ∃ a, y = [a] := by
      match y, hy with
      | [a], _ => exact ⟨a, rfl⟩
    exact ⟨[a], by simp [getXonYR, execL, execS, execSimple, evalC, evalN, Ev.inverseCube, LState.setNum]⟩
  · have hb : (n == 1) = false := by simpa using hn1
    have h0 : XInv n m (xInit n m y) Ev.half 1 0 (Ev.St.init n) y := by
      unfold xInit
      constructor
      any_goals (frame_simp <;> rfl)
      · exact ⟨List.replicate n 0, by frame_simp, by simp⟩
      · exact ⟨List.replicate n 0, by frame_simp, by simp⟩
      · exact hn
      · simp [Ev.St.init]
      · exact hy
    obtain ⟨st', e, hx⟩ := xLoop_exec sm hn m 0 _ _ _ _ _ _ h0
    unfold xInit at e
    refine ⟨st'.y, ?_⟩
    simp only [getXonYR, execL, execS, execSimple, evalC, hb, evalN, evalI, ↓reduceIte, setNum_n,
      setArr_n, collRange, setNum_m, setInt_m, setArr_m, List.range_eq_range', Ev.inverseCube,
      e, hx, Bool.false_eq_true]

end EvLoop
end

/-! ## ordered fields -/
namespace EvLoop

/-- in a field, multiplying by `±1` is exact -/
theorem signMul_field {α : Type} [Field α] : SignMul α := by
  have e1 : (ofInt (1 : Int) : α) = 1 := by show ((1 : Nat) : α) = 1; exact Nat.cast_one
  have e2 : (ofInt (-1 : Int) : α) = -1 := by show -((0 + 1 : Nat) : α) = -1; simp
  constructor <;> intro y r
  · rw [e1, mul_one]
  · rw [e2]; ring
  · rw [e1, mul_one]
  · rw [e2]; ring

/-- **`__GetYonX`, source tree = model, over every ordered field** (with any `int(·)`). -/
theorem getYonX_src_field {α : Type} [Field α] [LinearOrder α] [IsStrictOrderedRing α] [TruncNat α]
    (n m : Nat) (hn : 1 ≤ n) (x : α) (y0 : List α) (h1 : n = 1 → y0.length = 1) :
    run getYonXParams getYonX n m (Ev.nexp n) y0 [x] =
      some (Ev.imageCube n m x, if n = 1 then Out.yRef else Out.copy (Ev.imageCube n m x)) :=
  getYonX_src signMul_field n m hn x y0 h1
/-- **`__GetXonY`, source tree = model, over every ordered field** (with any `int(·)`). -/
theorem getXonY_src_field {α : Type} [Field α] [LinearOrder α] [IsStrictOrderedRing α] [TruncNat α]
    (n m : Nat) (hn : 1 ≤ n) (y : List α) (hy : y.length = n) :
    ∃ yres, run getXonYParams getXonY n m (Ev.nexp n) y [] = some (yres, Out.num (Ev.inverseCube n m y)) :=
  getXonY_src signMul_field n m hn y hy

end EvLoop

/-! ## Non-vacuity, and what the ties exclude: concrete runs over `ℚ` (`TruncNat` = floor), checked by kernel evaluation -/

namespace EvLoop.Examples
open Gen.ProcSrc Gen.EvolventLoops

local instance : TruncNat Rat := ⟨fun x => x.floor.toNat⟩

/-! ### the interpreter RUN on the generated trees -/

/-- `__GetYonX`, `N = 2`, `m = 2`, `x = 1/3` (from ANY previous scratch array): `self.yValues` ends as `[-3/8, 3/8]`, a copy is
returned, and this is the model's `Ev.imageCube` -/
example : run getYonXParams getYonX 2 2 (Ev.nexp 2) [7, 7, 7] [(1/3 : Rat)] = some ([-3/8, 3/8], .copy [-3/8, 3/8]) ∧
    Ev.imageCube 2 2 (1/3 : Rat) = [-3/8, 3/8] := by decide +kernel

/-- `N = 3`, `m = 1`, at `x = 5/3 ≥ 1` (the branch `iis = self.nexpExtended - 1.0`) and at `x = 2/5` -/
example : run getYonXParams getYonX 3 1 (Ev.nexp 3) [] [(5/3 : Rat)] = some ([1/4, -1/4, -1/4], .copy [1/4, -1/4, -1/4]) ∧
    Ev.imageCube 3 1 (5/3 : Rat) = [1/4, -1/4, -1/4] ∧
    run getYonXParams getYonX 3 1 (Ev.nexp 3) [] [(2/5 : Rat)] = some (Ev.imageCube 3 1 (2/5 : Rat), .copy (Ev.imageCube 3 1 (2/5 : Rat))) := by
  decide +kernel

/-- `N = 1`: `self.yValues[0] = _x - 0.5` in place, the scratch array itself is returned -/
example : run getYonXParams getYonX 1 10 (Ev.nexp 1) [7] [(1/4 : Rat)] = some ([-1/4], .yRef) := by decide +kernel

/-- `__GetXonY`, `N = 2`, `m = 2`, on the cube point `[-3/8, -1/8]`: returns `3/16 = Ev.inverseCube`, the residuals stay in the
scratch array -/
example : run getXonYParams getXonY 2 2 (Ev.nexp 2) [(-3/8 : Rat), -1/8] [] = some ([0, 0], .num (3/16)) ∧
    Ev.inverseCube 2 2 [(-3/8 : Rat), -1/8] = 3/16 := by decide +kernel

/-- `N = 3`, `m = 1`; `N = 1` -/
example : run getXonYParams getXonY 3 1 (Ev.nexp 3) [(1/4 : Rat), -1/4, -1/4] [] =
      some ([0, 0, 0], .num (Ev.inverseCube 3 1 [(1/4 : Rat), -1/4, -1/4])) ∧
    run getXonYParams getXonY 1 10 (Ev.nexp 1) [(-1/4 : Rat)] [] = some ([-1/4], .num (1/4)) := by decide +kernel

/-- the tie theorems instantiated (their hypotheses hold) -/
example := getYonX_src_field (α := ℚ) 2 2 (by decide) (1/3) [7, 7, 7] (by decide)
example := getYonX_src_field (α := ℚ) 3 1 (by decide) (5/3) [] (by decide)
example := getYonX_src_field (α := ℚ) 1 10 (by decide) (1/4) [7] (by decide)
example := getXonY_src_field (α := ℚ) 2 2 (by decide) [-3/8, -1/8] (by decide)
example := getXonY_src_field (α := ℚ) 3 1 (by decide) [1/4, -1/4, -1/4] (by decide)


/-! ### the hypotheses of the ties are needed -/

/-- `N = 0` (with `m ≥ 1`): `iu[0]` does not exist, the source raises `IndexError` (stuck); the model returns `[]` -/
example : run getYonXParams getYonX 0 1 (Ev.nexp 0) [] [(1/3 : Rat)] = none ∧ Ev.imageCube 0 1 (1/3 : Rat) = [] := by
  decide +kernel

/-- `N = 1` with an empty scratch array: `self.yValues[0] = …` raises `IndexError` (stuck) -/
example : run getYonXParams getYonX 1 1 (Ev.nexp 1) [] [(1/3 : Rat)] = none := by decide +kernel

/-- `__GetXonY` on a scratch array with fewer than `N` entries: `IndexError` (stuck), while the model's `zipWith` truncates -/
example : run getXonYParams getXonY 2 2 (Ev.nexp 2) [(1/8 : Rat)] [] = none := by decide +kernel

/-! ### seeded edits of the source are stuck or NOT equal to the model -/

/-- apply `f` to the body of every `for j in …` of a statement list -/
def editJ (f : List Stmt → List Stmt) : List Stmt → List Stmt
  | [] => []
  | .forEach "j" c b :: rest => .forEach "j" c (f b) :: editJ f rest
  | s :: rest => s :: editJ f rest

/-- apply `f` to the body of every `for i in …` of a statement list -/
def editI (f : List Stmt → List Stmt) : List Stmt → List Stmt
  | [] => []
  | .forEach "i" c b :: rest => .forEach "i" c (f b) :: editI f rest
  | s :: rest => s :: editI f rest

/-- the level body of `__GetYonX` has 12 statements: 0 the digit, 1 `__CalculateNode`, 2–4 / 5–7 the two element swaps, 8 the
relabelling of `l`, 9 `r *= 0.5`, 10 `it = l`, 11 the element-wise loop; that of `__GetXonY` has 14: 0 `r *= 0.5`, 1 the first
element-wise loop, 2–4 the swap in `u`, 5 `__CalculateNumbr`, 6–8 the swap in `v`, 9 the second element-wise loop, 10 the relabelling,
11 `it = l`, 12 `r1 /= nexpExtended`, 13 `x += r1 * iis` -/
example : editJ (fun b => [.other (toString b.length)]) getYonX = getYonX.take 9 ++ [.forEach "j" "range(0, self.evolventDensity)"
      [.other "12"], .ret "np.copy(self.yValues)"] ∧
    editJ (fun b => [.other (toString b.length)]) getXonY = getXonY.take 9 ++ [.forEach "j" "range(0, self.evolventDensity)"
      [.other "14"], .ret "x"] := by
  constructor <;> rfl

/-- the relabelling of `l` AND `it = l` moved before the two element swaps (the swaps then use the NEW `it`) -/
def itFirst : List Stmt :=
  editJ (fun b => b.take 2 ++ [b[8]!, b[10]!] ++ (b.drop 2).take 6 ++ [b[9]!, b[11]!]) getYonX

/-- `iw[i] *= -iv[i]` before `iu[i] *= iw[i]` -/
def iwFirst : List Stmt := editJ (editI (fun b => [b[1]!, b[0]!, b[2]!])) getYonX

/-- no `r *= 0.5` -/
def noHalf : List Stmt := editJ (fun b => b.eraseIdx 9) getYonX

/-- only the relabelling of `l` moved before the swaps: a NEUTRAL edit (the swaps do not read `l`) -/
def relabelFirst : List Stmt := editJ (fun b => b.take 2 ++ [b[8]!] ++ (b.drop 2).take 6 ++ b.drop 9) getYonX

/-- **the tie of `__GetYonX` is sensitive to the order of the swaps and `it = l`, to the order `iu` / `iw` in the element-wise loop, and
to `r *= 0.5`**: on each edited tree the interpreter is not stuck and the scratch array is NOT `Ev.imageCube` (`N = 2`, `m = 2`,
`x = 1/5`: the model gives `[-3/8, -1/8]`) -/
theorem getYonX_edits_not_model :
    Ev.imageCube 2 2 (1/5 : Rat) = [-3/8, -1/8] ∧
    (run getYonXParams itFirst 2 2 (Ev.nexp 2) [] [(1/5 : Rat)]).map (·.1) = some [-1/8, -3/8] ∧
    (run getYonXParams iwFirst 2 2 (Ev.nexp 2) [] [(1/5 : Rat)]).map (·.1) = some [-1/8, -3/8] ∧
    (run getYonXParams noHalf 2 2 (Ev.nexp 2) [] [(1/5 : Rat)]).map (·.1) = some [-1, 0] := by decide +kernel

/-- moving only the relabelling of `l` before the swaps changes nothing, and the interpreter says so (it does not compare texts) -/
example : run getYonXParams relabelFirst 2 2 (Ev.nexp 2) [] [(1/5 : Rat)] =
    some (Ev.imageCube 2 2 (1/5 : Rat), .copy (Ev.imageCube 2 2 (1/5 : Rat))) := by decide +kernel

/-- `__GetXonY` without the swap in `u` -/
def noSwapU : List Stmt := editJ (fun b => b.take 2 ++ b.drop 5) getXonY

/-- `x += r1 * iis` before `r1 /= self.nexpExtended` -/
def xBeforeR1 : List Stmt := editJ (fun b => b.take 12 ++ [b[13]!, b[12]!]) getXonY

/-- `__GetXonY` without `r *= 0.5` -/
def noHalfX : List Stmt := editJ (fun b => b.drop 1) getXonY

/-- **the tie of `__GetXonY` is sensitive** to the swap in `u`, to the order of the last two updates, to `r *= 0.5`
(`N = 2`, `m = 2`, cube point `[-3/8, -1/8]`: the model gives `3/16`) -/
theorem getXonY_edits_not_model :
    Ev.inverseCube 2 2 [(-3/8 : Rat), -1/8] = 3/16 ∧
    (run getXonYParams noSwapU 2 2 (Ev.nexp 2) [(-3/8 : Rat), -1/8] []).map (·.2) = some (.num (1/16)) ∧
    (run getXonYParams xBeforeR1 2 2 (Ev.nexp 2) [(-3/8 : Rat), -1/8] []).map (·.2) = some (.num (3/4)) ∧
    (run getXonYParams noHalfX 2 2 (Ev.nexp 2) [(-3/8 : Rat), -1/8] []).map (·.2) ≠ some (.num (3/16)) := by decide +kernel

/-- statements outside the tables are stuck: an alias `iu = iv`, a literal that is not in the table (`r *= 0.25`), an integer array
stored into `self.yValues`, a `return` of a local array, an unclassified statement -/
example :
    run getYonXParams (editJ (fun b => .assign "iu" "iv" :: b) getYonX) 2 2 (Ev.nexp 2) [] [(1/5 : Rat)] = none ∧
    run getYonXParams (editJ (fun b => b.set 9 (.assign "r" "r * 0.25")) getYonX) 2 2 (Ev.nexp 2) [] [(1/5 : Rat)] = none ∧
    run getYonXParams (getYonX.set 6 (.call ["self.yValues"] "np.zeros" ["self.numberOfFloatVariables", "dtype=np.int32"]))
      2 2 (Ev.nexp 2) [] [(1/5 : Rat)] = none ∧
    run getYonXParams (getYonX.set 10 (.ret "iu")) 2 2 (Ev.nexp 2) [] [(1/5 : Rat)] = none ∧
    run getYonXParams (getYonX ++ [.other "pass"]) 2 2 (Ev.nexp 2) [] [(1/5 : Rat)] = none := by decide +kernel

/-- `__CalculateNode` called with the two arrays in the other order, or with the same array twice -/
example :
    (run getYonXParams (editJ (fun b => b.set 1
        (.call ["l"] "self.__CalculateNode" ["iis", "self.numberOfFloatVariables", "iv", "iu"])) getYonX)
      2 2 (Ev.nexp 2) [] [(1/5 : Rat)]).map (·.1) ≠ some (Ev.imageCube 2 2 (1/5 : Rat)) ∧
    run getYonXParams (editJ (fun b => b.set 1
        (.call ["l"] "self.__CalculateNode" ["iis", "self.numberOfFloatVariables", "iu", "iu"])) getYonX)
      2 2 (Ev.nexp 2) [] [(1/5 : Rat)] = none := by decide +kernel

end EvLoop.Examples
