import IOptProofs.HillDefs
/-! kernel-evaluated certificates (V), (G), (P), (L) of the Hill functions 580..599 (one block per file, identical template) -/
namespace Hill
set_option maxRecDepth 100000 in
theorem hill_block_29 : ∀ i ∈ List.range' 580 20, hillOK i = true := by decide +kernel
end Hill
