import IOptProofs.WorldLocal
import IOptProofs.WorldFrame
/-!
# C12 helpers at the level of schedules

* `AllClosed`: every solver's component is closed; invariant of `run repaired`.
* `runFrom_solver`: the component of solver `i` after ANY schedule is the fold of the LOCAL step over `i`'s own operations.
* `report_local`, `mem_reach_owner`: observations of a closed component look at that component only.
* `step_frame`: a step of solver `j` changes nothing outside region `j`, and inside only what it lists.
-/

namespace World
variable {V : Type}

/-! ### observations are local -/

def lreport (c : Comp V) (sol : Ref) : Option V := do
  let (l, _) ← Cell.sol? (lread c sol)
  let b ← Cell.head? (lread c l)
  let fl ← Cell.fv? (lread c b)
  let h ← Cell.head? (lread c fl)
  Cell.value? (lread c h)

theorem report_local (X : State V) {i : Nat} {c : Comp V} (hc : Closed i c) {sol : Ref} (hs : sol.owner = some i) :
    report (X.setComp i c) sol = lreport c sol := by
  unfold report lreport
  rw [read_local X i c hs]
  cases h1 : Cell.sol? (lread c sol) with
  | none => simp
  | some p =>
    have hl := hc.solRef h1
    simp only [Option.bind_eq_bind, Option.bind_some]
    rw [read_local X i c hl]
    cases h2 : Cell.head? (lread c p.1) with
    | none => simp
    | some b =>
      have hb := hc.head h2
      simp only [Option.bind_some]
      rw [read_local X i c hb]
      cases h3 : Cell.fv? (lread c b) with
      | none => simp
      | some fl =>
        have hfl := hc.fv h3
        simp only [Option.bind_some]
        rw [read_local X i c hfl]
        cases h4 : Cell.head? (lread c fl) with
        | none => simp
        | some h =>
          have hh := hc.head h4
          simp only [Option.bind_some]
          rw [read_local X i c hh]

theorem reportTrials_local (X : State V) {i : Nat} (c : Comp V) {sol : Ref} (hs : sol.owner = some i) :
    reportTrials (X.setComp i c) sol = (Cell.sol? (lread c sol)).map (·.2) := by
  unfold reportTrials
  rw [read_local X i c hs]

/-- two worlds that agree on solver `i`'s (closed) component give the same observations on `i`'s Solutions -/
theorem report_congr {w w' : State V} {i : Nat} (h : w.solver i = w'.solver i) (hc : Closed i (w.solver i))
    {sol : Ref} (hs : sol.owner = some i) :
    report w sol = report w' sol ∧ reportTrials w sol = reportTrials w' sol := by
  have e1 : w = w.setComp i (w.solver i) := (State.setComp_self w i).symm
  have e2 : w' = w'.setComp i (w.solver i) := by rw [h]; exact (State.setComp_self w' i).symm
  constructor
  · rw [e1, e2, report_local _ hc hs, report_local _ hc hs]
  · rw [e1, e2, reportTrials_local _ _ hs, reportTrials_local _ _ hs]

theorem itemRefs_owner (X : State V) {i : Nat} {c : Comp V} (hc : Closed i c) {n : Ref} (hn : n.owner = some i) :
    ∀ r ∈ itemRefs (X.setComp i c) n, r.owner = some i := by
  intro r hr
  unfold itemRefs at hr
  rw [read_local X i c hn] at hr
  cases h1 : Cell.fv? (lread c n) with
  | none => simp [h1] at hr; subst hr; exact hn
  | some fl =>
    have hfl := hc.fv h1
    simp only [h1, List.mem_cons] at hr
    rw [read_local X i c hfl] at hr
    rcases hr with rfl | rfl | hr
    · exact hn
    · exact hfl
    · cases h2 : Cell.head? (lread c fl) with
      | none => simp [h2] at hr
      | some h =>
        simp [h2] at hr; subst hr
        exact hc.head h2

/-- every object reachable from the fields of a closed component is owned by that solver -/
theorem mem_reach_owner (w : State V) {i : Nat} (hc : Closed i (w.solver i)) :
    ∀ r ∈ reach w i, r.owner = some i := by
  intro r hr
  have e1 : w = w.setComp i (w.solver i) := (State.setComp_self w i).symm
  unfold reach at hr
  cases hst : (w.solver i).st with
  | none => simp [hst] at hr
  | some s =>
    have hsol := hc.sol s hst
    simp only [hst, List.mem_append, List.mem_cons, List.mem_flatMap] at hr
    rcases hr with (hr | hr) | hr
    · rcases hr with rfl | hr
      · exact hsol
      · rw [e1, read_local _ i _ hsol] at hr
        cases h1 : Cell.sol? (lread (w.solver i) s.solution) with
        | none => simp [h1] at hr
        | some p =>
          have hl := hc.solRef h1
          simp only [h1, List.mem_cons] at hr
          rcases hr with rfl | hr
          · exact hl
          · rw [read_local _ i _ hl] at hr
            cases h2 : Cell.head? (lread (w.solver i) p.1) with
            | none => simp [h2] at hr
            | some b =>
              simp only [h2] at hr
              exact itemRefs_owner _ hc (hc.head h2) r hr
    · obtain ⟨n, hn, hr⟩ := hr
      rw [e1] at hr
      exact itemRefs_owner _ hc (hc.items s hst n hn) r hr
    · obtain ⟨n, hn, hr⟩ := hr
      rw [e1] at hr
      exact itemRefs_owner _ hc (hc.best s hst n (by simpa using hn)) r hr

section
variable [OfNat V 0]

/-! ### the invariant -/

def AllClosed (w : State V) : Prop := ∀ k, Closed k (w.solver k)

theorem allClosed_init : AllClosed (init repaired : State V) := fun k => closed_default k

/-- in a world of closed components the global step IS the local step of the acting solver's component -/
theorem step_eq {w : State V} (hw : AllClosed w) (j : Nat) (op : Op V) :
    step repaired w j op = (lstep j (w.solver j) op).map (fun p => (w.setComp j p.1, p.2)) := by
  have := step_local w (hw j) op
  rwa [State.setComp_self] at this

theorem stepW_eq {w : State V} (hw : AllClosed w) (a : Nat × Op V) :
    stepW repaired w a = w.setComp a.1 (lstepW a.1 (w.solver a.1) a.2) := by
  unfold stepW lstepW
  rw [step_eq hw]
  cases lstep a.1 (w.solver a.1) a.2 with
  | none => simp
  | some p => simp

theorem lstepW_closed {i : Nat} {c : Comp V} (hc : Closed i c) (op : Op V) : Closed i (lstepW i c op) := by
  unfold lstepW
  cases h : lstep i c op with
  | none => exact hc
  | some p => exact (lstep_closed hc (o := p.2) (c' := p.1) h).1

theorem allClosed_stepW {w : State V} (hw : AllClosed w) (a : Nat × Op V) : AllClosed (stepW repaired w a) := by
  intro k
  rw [stepW_eq hw]
  by_cases hk : k = a.1
  · subst hk; rw [State.setComp_solver_same]; exact lstepW_closed (hw _) _
  · rw [State.setComp_solver_other _ _ hk]; exact hw k

theorem allClosed_runFrom {w : State V} (hw : AllClosed w) (sched : List (Nat × Op V)) :
    AllClosed (runFrom repaired w sched) := by
  induction sched generalizing w with
  | nil => exact hw
  | cons a t ih => exact ih (allClosed_stepW hw a)

theorem allClosed_run (sched : List (Nat × Op V)) : AllClosed (run repaired sched) :=
  allClosed_runFrom allClosed_init sched

theorem runFrom_append (vr : Variant) (w : State V) (p q : List (Nat × Op V)) :
    runFrom vr w (p ++ q) = runFrom vr (runFrom vr w p) q := by
  simp [runFrom, List.foldl_append]

theorem run_append (vr : Variant) (p q : List (Nat × Op V)) : run vr (p ++ q) = runFrom vr (run vr p) q :=
  runFrom_append vr _ p q

/-! ### projection of a run onto one solver -/

/-- the local run of solver `i`: fold of the local step over its own operations -/
def lrun (i : Nat) (c : Comp V) (ops : List (Nat × Op V)) : Comp V := ops.foldl (fun c a => lstepW i c a.2) c

theorem runFrom_solver {w : State V} (hw : AllClosed w) (sched : List (Nat × Op V)) (i : Nat) :
    (runFrom repaired w sched).solver i = lrun i (w.solver i) (sched.filter (·.1 = i)) := by
  induction sched generalizing w with
  | nil => rfl
  | cons a t ih =>
    have hw' := allClosed_stepW hw a
    show (runFrom repaired (stepW repaired w a) t).solver i = _
    rw [ih hw', stepW_eq hw]
    by_cases ha : a.1 = i
    · subst ha
      simp [lrun]
    · have : i ≠ a.1 := fun h => ha h.symm
      simp [ha, State.setComp_solver_other _ _ this]

theorem runFrom_modHeap {w : State V} (hw : AllClosed w) (sched : List (Nat × Op V)) :
    (runFrom repaired w sched).modHeap = w.modHeap := by
  induction sched generalizing w with
  | nil => rfl
  | cons a t ih =>
    show (runFrom repaired (stepW repaired w a) t).modHeap = _
    rw [ih (allClosed_stepW hw a), stepW_eq hw]; rfl

theorem lstepW_handed (i : Nat) (c : Comp V) (op : Op V) : ∃ t, (lstepW i c op).handed = c.handed ++ t := by
  unfold lstepW
  cases h : lstep i c op with
  | none => exact ⟨[], by simp⟩
  | some p => exact (lstep_frame (c' := p.1) (o := p.2) h).handed

theorem lrun_handed (i : Nat) (c : Comp V) (ops : List (Nat × Op V)) : ∃ t, (lrun i c ops).handed = c.handed ++ t := by
  induction ops generalizing c with
  | nil => exact ⟨[], by simp [lrun]⟩
  | cons a t ih =>
    obtain ⟨t1, h1⟩ := lstepW_handed i c a.2
    obtain ⟨t2, h2⟩ := ih (lstepW i c a.2)
    refine ⟨t1 ++ t2, ?_⟩
    show (lrun i (lstepW i c a.2) t).handed = _
    rw [h2, h1, List.append_assoc]

/-- a Solution handed out during a prefix of the schedule is still in the list at the end -/
theorem handed_mono (pre post : List (Nat × Op V)) (i : Nat) :
    ∀ s ∈ ((run repaired pre).solver i).handed, s ∈ ((run repaired (pre ++ post)).solver i).handed := by
  intro s hs
  rw [run_append, runFrom_solver (allClosed_run pre)]
  obtain ⟨t, ht⟩ := lrun_handed i ((run repaired pre).solver i) (post.filter (·.1 = i))
  rw [ht]; exact List.mem_append_left _ hs

/-! ### frame of a global step -/

theorem step_frame {w w' : State V} (hw : AllClosed w) {j : Nat} {op : Op V} {o : Out}
    (h : step repaired w j op = some (w', o)) :
    (∀ i, i ≠ j → w'.solver i = w.solver i) ∧ w'.modHeap = w.modHeap ∧
    (∀ r ∈ o.wrote, r.owner = some j) ∧
    (∀ r ∈ o.allocated, r.owner = some j ∧ w.read r = none ∧ (w'.read r).isSome) ∧
    (∀ r, r.owner ≠ some j → w'.read r = w.read r) ∧
    (∀ r, r ∉ o.wrote → (w.read r).isSome → w'.read r = w.read r) := by
  rw [step_eq hw] at h
  cases hl : lstep j (w.solver j) op with
  | none => simp [hl] at h
  | some p =>
    obtain ⟨c', o'⟩ := p
    simp only [hl, Option.map_some, Option.some.injEq, Prod.mk.injEq] at h
    obtain ⟨rfl, rfl⟩ := h
    obtain ⟨-, hwr, hal, -⟩ := lstep_closed (hw j) hl
    have hf := lstep_frame hl
    have hother : ∀ r : Ref, r.owner ≠ some j → (w.setComp j c').read r = w.read r := by
      intro r hr
      unfold State.read
      cases ho : r.owner with
      | none => rfl
      | some k =>
        have : k ≠ j := fun e => hr (by rw [ho, e])
        simp [State.setComp_solver_other _ _ this]
    have hown : ∀ r : Ref, r.owner = some j →
        (w.setComp j c').read r = c'.heap[r.idx]? ∧ w.read r = (w.solver j).heap[r.idx]? := by
      intro r hr
      constructor
      · simp [State.read, hr]
      · simp [State.read, hr]
    refine ⟨fun i hi => State.setComp_solver_other _ _ hi, rfl, hwr, ?_, hother, ?_⟩
    · intro r hr
      have ho := hal r hr
      obtain ⟨h1, h2⟩ := hf.fresh r hr
      obtain ⟨e1, e2⟩ := hown r ho
      refine ⟨ho, ?_, ?_⟩
      · rw [e2]; exact List.getElem?_eq_none h1
      · rw [e1, List.getElem?_eq_getElem h2]; rfl
    · intro r hr hsome
      by_cases ho : r.owner = some j
      · obtain ⟨e1, e2⟩ := hown r ho
        rw [e1, e2]
        rw [e2] at hsome
        have hk : r.idx < (w.solver j).heap.length := by
          rcases Nat.lt_or_ge r.idx (w.solver j).heap.length with hk | hk
          · exact hk
          · rw [List.getElem?_eq_none hk] at hsome
            simp at hsome
        refine hf.frame.2 r.idx hk (fun r' hr' hidx => hr ?_)
        have : r' = r := by
          cases r'; cases r
          simp only [Ref.mk.injEq]
          exact ⟨by simpa using (hwr _ hr').trans ho.symm, hidx⟩
        exact this ▸ hr'
      · exact hother r ho

end
end World
