import IOptProofs.ShekelTabDefs
/-! kernel-evaluated C18 table certificates (min / max / Lipschitz tables) of the Shekel functions 720..739
(one block per file, identical template; four kernel evaluations of 5 rows each keep the memory near 1 GB) -/
namespace Shk
set_option maxRecDepth 100000 in
theorem shekel_tab_block_36_a : ∀ i ∈ List.range' 720 5, shekelTabOK i = true := by decide +kernel
set_option maxRecDepth 100000 in
theorem shekel_tab_block_36_b : ∀ i ∈ List.range' 725 5, shekelTabOK i = true := by decide +kernel
set_option maxRecDepth 100000 in
theorem shekel_tab_block_36_c : ∀ i ∈ List.range' 730 5, shekelTabOK i = true := by decide +kernel
set_option maxRecDepth 100000 in
theorem shekel_tab_block_36_d : ∀ i ∈ List.range' 735 5, shekelTabOK i = true := by decide +kernel
theorem shekel_tab_block_36 : ∀ i ∈ List.range' 720 20, shekelTabOK i = true := by
  intro i hi
  have hi' := List.mem_range'_1.1 hi
  if h1 : i < 725 then exact shekel_tab_block_36_a i (List.mem_range'_1.2 ⟨by omega, by omega⟩) else
  if h2 : i < 730 then exact shekel_tab_block_36_b i (List.mem_range'_1.2 ⟨by omega, by omega⟩) else
  if h3 : i < 735 then exact shekel_tab_block_36_c i (List.mem_range'_1.2 ⟨by omega, by omega⟩) else
  exact shekel_tab_block_36_d i (List.mem_range'_1.2 ⟨by omega, by omega⟩)
end Shk
