import IOptProofs.ShekelTabDefs
/-! kernel-evaluated C18 table certificates (min / max / Lipschitz tables) of the Shekel functions 680..699
(one block per file, identical template; four kernel evaluations of 5 rows each keep the memory near 1 GB) -/
namespace Shk
set_option maxRecDepth 100000 in
theorem shekel_tab_block_34_a : ∀ i ∈ List.range' 680 5, shekelTabOK i = true := by decide +kernel
set_option maxRecDepth 100000 in
theorem shekel_tab_block_34_b : ∀ i ∈ List.range' 685 5, shekelTabOK i = true := by decide +kernel
set_option maxRecDepth 100000 in
theorem shekel_tab_block_34_c : ∀ i ∈ List.range' 690 5, shekelTabOK i = true := by decide +kernel
set_option maxRecDepth 100000 in
theorem shekel_tab_block_34_d : ∀ i ∈ List.range' 695 5, shekelTabOK i = true := by decide +kernel
theorem shekel_tab_block_34 : ∀ i ∈ List.range' 680 20, shekelTabOK i = true := by
  intro i hi
  have hi' := List.mem_range'_1.1 hi
  if h1 : i < 685 then exact shekel_tab_block_34_a i (List.mem_range'_1.2 ⟨by omega, by omega⟩) else
  if h2 : i < 690 then exact shekel_tab_block_34_b i (List.mem_range'_1.2 ⟨by omega, by omega⟩) else
  if h3 : i < 695 then exact shekel_tab_block_34_c i (List.mem_range'_1.2 ⟨by omega, by omega⟩) else
  exact shekel_tab_block_34_d i (List.mem_range'_1.2 ⟨by omega, by omega⟩)
end Shk
