import IOptProofs.SDLinks
import IOptProofs.MethodLists
import Mathlib.Order.WithBot

/-!
# Container lemmas for the refinement `C06_links_refine`

The concrete run (`IOptProofs/RefineDefs.lean`) calls the pointer-level container with the key
order `AGP.keyLe` on `Option α`.  The helper lemmas of C19 about the QUEUE were proved for
`leB a b = decide (a ≤ b)` of a `LinearOrder κ`; the ones needed here (`insert` with a hint,
`refill`, a loop of `setGlobalR`) do not depend on any property of the comparison, so they are
restated for an ARBITRARY Boolean function `le` (route 2 of the task: cheaper than transporting
through `WithBot α`; `keyLe_eq_leB` below nevertheless shows that `keyLe` IS the Boolean `≤` of the
linear order `WithBot α`, so every C19 queue theorem applies to the concrete run as well).
Everything about the LINKS (`Rep`, `Rep_insTrials`, `Rep_setGlobalR`, `Rep_insertFirst`) is used
from `SDLinks.lean` as it is.
-/

namespace SD

variable {χ κ : Type}

/-! ## `insert` with a hint, any comparison functions -/

theorem insert_hint_eq (lt : χ → χ → Bool) (le : κ → κ → Bool) (s : State χ κ) (new : Item χ κ)
    (r l : Nat) (rit : Item χ κ) (hrit : s.trials[r]? = some rit) (hl : rit.left = some l) :
    insert lt le s new (some r) = .ok { s with
      trials := insTrials s.trials new l r
      gq := qinsert le s.maxlen rit.globalR r (qinsert le s.maxlen new.globalR s.trials.size s.gq)
      lq := if s.dual then
              qinsert le s.maxlen rit.localR r (qinsert le s.maxlen new.localR s.trials.size s.lq)
            else s.lq } := by
  simp only [insert, hrit, hl]
  cases s.dual <;> rfl

/-! ## `refill`, any comparison function -/

/-- one step of the `RefillQueue` loop -/
def refillStepAny (le : κ → κ → Bool) (acc : State χ κ) (i : Nat) : State χ κ :=
  match acc.trials[i]? with
  | some it => { acc with gq := qIns le acc acc.gq it.globalR i,
                          lq := if acc.dual then qIns le acc acc.lq it.localR i else acc.lq }
  | none => acc

theorem refill_def_any (le : κ → κ → Bool) (s : State χ κ) :
    refill le s = (traversal s).foldl (refillStepAny le) (clearQueue s) := rfl

theorem refill_fold_any (le : κ → κ → Bool) (t : List Nat) (acc : State χ κ)
    (hd : acc.dual = false) (hm : acc.maxlen = none) :
    t.foldl (refillStepAny le) acc =
    { acc with
      gq := List.foldl (fun q e => qinsertRaw le e.1 e.2 q) acc.gq (entriesOf Item.globalR acc.trials t) } := by
  induction t generalizing acc with
  | nil => rfl
  | cons i t ih =>
    rw [List.foldl_cons]
    cases hg : acc.trials[i]? with
    | none =>
      have hstep : refillStepAny le acc i = acc := by simp only [refillStepAny, hg]
      rw [hstep, ih acc hd hm]
      simp [entriesOf, hg]
    | some it =>
      have hstep : refillStepAny le acc i = { acc with gq := qinsertRaw le it.globalR i acc.gq } := by
        simp only [refillStepAny, hg, qIns, qinsert, hm, hd]
        rfl
      rw [hstep, ih { acc with gq := qinsertRaw le it.globalR i acc.gq } hd hm]
      simp [entriesOf, hg]

/-- `RefillQueue` of the single-queue, unbounded container: the queue is rebuilt by inserting the
entries `(globalR i, i)` in traversal order; nothing else changes. -/
theorem refill_any (le : κ → κ → Bool) (s : State χ κ) (hd : s.dual = false) (hm : s.maxlen = none) :
    refill le s = { s with
      gq := List.foldl (fun q e => qinsertRaw le e.1 e.2 q) [] (entriesOf Item.globalR s.trials (traversal s))
      lq := [] } := by
  rw [refill_def_any, refill_fold_any le (traversal s) (clearQueue s) hd hm]
  rfl

/-! ## a loop of characteristic updates -/

/-- A loop `for i in t: item_i.globalR = v(item_i.left, i)` (the value may depend on the `left`
pointer of the item): afterwards exactly the items of `t` carry the new value; nothing else is
touched. -/
theorem foldl_setGlobalR (v : Option Nat → Nat → κ) (t : List Nat) (s : State χ κ) :
    let s' := t.foldl (fun sd i => setGlobalR sd i (v (sd.trials[i]?.bind (·.left)) i)) s
    s'.first = s.first ∧ s'.gq = s.gq ∧ s'.lq = s.lq ∧ s'.maxlen = s.maxlen ∧ s'.dual = s.dual ∧
    s'.trials.size = s.trials.size ∧
    ∀ a, s'.trials[a]? = s.trials[a]?.map fun it =>
      if a ∈ t then { it with globalR := v it.left a } else it := by
  induction t generalizing s with
  | nil => simp
  | cons i t ih =>
    intro s'
    obtain ⟨h1, h2, h3, h4, h5, h6, h7⟩ := ih (setGlobalR s i (v (s.trials[i]?.bind (·.left)) i))
    refine ⟨h1, h2, h3, h4, h5, ?_, ?_⟩
    · show s'.trials.size = _
      rw [show s'.trials.size = _ from h6]
      simp [setGlobalR]
    · intro a
      show s'.trials[a]? = _
      rw [show s'.trials[a]? = _ from h7 a]
      simp only [setGlobalR, Array.getElem?_modify]
      by_cases hai : i = a
      · subst hai
        cases hg : s.trials[i]? with
        | none => simp
        | some it => by_cases hit : i ∈ t <;> simp [hit]
      · have hai' : ¬ a = i := fun h => hai h.symm
        cases hg : s.trials[a]? with
        | none => simp [hai]
        | some it => by_cases hat : a ∈ t <;> simp [hai, hai', hat]

end SD

/-! ## `keyLe` is the Boolean `≤` of the linear order `WithBot α` -/

namespace AGP

theorem keyLe_eq_leB {α : Type} [LinearOrder α] (a b : WithBot α) :
    keyLe (α := α) a b = SD.leB a b := by
  induction a using WithBot.recBotCoe with
  | bot =>
    induction b using WithBot.recBotCoe with
    | bot => show true = decide ((⊥ : WithBot α) ≤ ⊥); simp
    | coe b => show true = decide ((⊥ : WithBot α) ≤ (b : WithBot α)); simp
  | coe a =>
    induction b using WithBot.recBotCoe with
    | bot => show false = decide ((a : WithBot α) ≤ ⊥); simp
    | coe b => show decide (a ≤ b) = decide ((a : WithBot α) ≤ (b : WithBot α)); simp

/-- as functions -/
theorem keyLe_fun_eq_leB {α : Type} [LinearOrder α] :
    (keyLe : Option α → Option α → Bool) = @SD.leB (WithBot α) _ := by
  funext a b; exact keyLe_eq_leB a b

/-- the two notions of a sorted queue coincide -/
theorem qsorted_iff {α : Type} [LinearOrder α] (q : List (Option α × Nat)) :
    QSorted q ↔ SD.QSorted (κ := WithBot α) q := by
  unfold QSorted SD.QSorted
  refine ⟨fun h => h.imp ?_, fun h => h.imp ?_⟩
  · intro a b hab
    have := keyLe_eq_leB (α := α) b.1 a.1
    rw [hab] at this
    simpa using this.symm
  · intro a b hab
    have := keyLe_eq_leB (α := α) b.1 a.1
    exact this.trans (by simpa using hab)

end AGP
