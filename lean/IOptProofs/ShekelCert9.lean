import IOptProofs.BenchShekelDefs
/-! kernel-evaluated C10 certificates of the Shekel functions 450..499 (one block per file, identical template) -/
namespace Shk
set_option maxRecDepth 100000 in
theorem shekel_block_9 : ∀ i ∈ List.range' 450 50, shekelOK i = true := by decide +kernel
end Shk
