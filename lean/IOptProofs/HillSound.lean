import IOptProofs.HillSoundD
/-!
# Hill certificate: soundness of `Hill.rowOK` / `Hill.hillOK`

`rowOK a b vmin pmin vmax pmax lip = true` (a kernel-evaluable Boolean, `HillDefs.lean`) implies the table
claims `HillClaims` over `ℝ` for the model function `Prob.hill (a.map dyR) (b.map dyR)`.
-/

namespace Hill
open Encl

/-- the Hill function of a table row, over `ℝ` (the model function `Prob.hill` on the exact values of the
doubles) -/
noncomputable def hillF (a b : List Dy) : ℝ → ℝ := Prob.hill (a.map dyR) (b.map dyR)

/-- its derivative `f'(x) = Σ 2πi (a_i cos 2πix - b_i sin 2πix)` -/
noncomputable def hillF' (a b : List Dy) : ℝ → ℝ := hf1 (List.zip (a.map dyR) (b.map dyR))

theorem hillF_eq (a b : List Dy) : hillF a b = hf (rl a b) := funext fun x => hill_eq_hf _ _ x

/-- **the table claims of one Hill row** (`vmin, pmin` = tabulated minimum value / point, `vmax, pmax` =
tabulated maximum, `lip` = tabulated Lipschitz constant), for `f = hillF a b` on `[0,1]` -/
structure HillClaims (a b : List Dy) (vmin pmin vmax pmax lip : Dy) : Prop where
  /-- the tabulated points lie in `[0,1]`, the Lipschitz constant is non-negative -/
  pmin_mem : 0 ≤ dyR pmin ∧ dyR pmin ≤ 1
  pmax_mem : 0 ≤ dyR pmax ∧ dyR pmax ≤ 1
  lip_nonneg : 0 ≤ dyR lip
  /-- (V) the values at the tabulated points agree with the tabulated values within `1e-6` -/
  value_min : |hillF a b (dyR pmin) - dyR vmin| ≤ 1e-6
  value_max : |hillF a b (dyR pmax) - dyR vmax| ≤ 1e-6
  /-- (G) `vmin - 1e-4 ≤ f ≤ vmax + 1e-4` on `[0,1]` -/
  global : ∀ x, 0 ≤ x → x ≤ 1 → dyR vmin - 1e-4 ≤ hillF a b x ∧ hillF a b x ≤ dyR vmax + 1e-4
  /-- (P, C10 form) points with value within `1e-4` of the extremum lie within `1/200` of the tabulated point -/
  loc10_min : ∀ x, 0 ≤ x → x ≤ 1 → hillF a b x ≤ dyR vmin + 1e-4 → |x - dyR pmin| ≤ 1 / 200
  loc10_max : ∀ x, 0 ≤ x → x ≤ 1 → dyR vmax - 1e-4 ≤ hillF a b x → |x - dyR pmax| ≤ 1 / 200
  /-- (P, C18 form) points with value within `1e-6` of the extremum lie within `1e-4` of the tabulated point -/
  loc18_min : ∀ x, 0 ≤ x → x ≤ 1 → hillF a b x ≤ dyR vmin + 1e-6 → |x - dyR pmin| ≤ 1e-4
  loc18_max : ∀ x, 0 ≤ x → x ≤ 1 → dyR vmax - 1e-6 ≤ hillF a b x → |x - dyR pmax| ≤ 1e-4
  /-- (L) `hillF'` is the derivative; `|f'| ≤ 1.001·lip` on `[0,1]`, and `|f'|` reaches `0.999·lip` there -/
  deriv : ∀ x, HasDerivAt (hillF a b) (hillF' a b x) x
  lip_upper : ∀ x, 0 ≤ x → x ≤ 1 → |hillF' a b x| ≤ 1.001 * dyR lip
  lip_lower : ∃ w, 0 ≤ w ∧ w ≤ 1 ∧ 0.999 * dyR lip ≤ |hillF' a b w|

/-- `valueOK` at a dyadic point of `[0,1]`: the value agrees with the tabulated one within `1e-6` -/
theorem valueOK_sound {a b : List Dy} (H : RowHyp a b) (vmin pmin vmax pmax lip : Dy) {pN pK : ℕ}
    (hp : pN ≤ 2 ^ pK) (d : Dy) (hd : Nat.ble TOL4 (encLo d) = true)
    (h : valueOK (mkCtx a b vmin pmin vmax pmax lip) pN pK (encLo d) = true) :
    |hf (rl a b) ((pN : ℝ) / 2 ^ pK) - dyR d| ≤ 1 / 10 ^ 6 := by
  unfold valueOK at h
  rw [ev_eq, Bool.and_eq_true] at h
  obtain ⟨h1, h2⟩ := h
  have h1 := ble_cast h1
  have h2 := ble_cast h2
  simp only [cast_nat_add, Nat.cast_one] at h1 h2
  obtain ⟨E1, _⟩ := ev_spec H vmin pmin vmax pmax lip hp
  have E1 := abs_le.mp E1
  obtain ⟨v1, v2⟩ := encLo_spec d hd
  obtain ⟨t1, t2⟩ := TOL6_spec
  have hU : (0 : ℝ) < U := by positivity
  rw [abs_le]
  constructor
  · have : (-(1 / 10 ^ 6)) * U ≤ (hf (rl a b) ((pN : ℝ) / 2 ^ pK) - dyR d) * U := by
      rw [sub_mul, neg_mul]; linarith [E1.1, E1.2]
    exact le_of_mul_le_mul_right this hU
  · have : (hf (rl a b) ((pN : ℝ) / 2 ^ pK) - dyR d) * U ≤ (1 / 10 ^ 6) * U := by
      rw [sub_mul]; linarith [E1.1, E1.2]
    exact le_of_mul_le_mul_right this hU

/-- the witness test: `0.999·lip ≤ |f'(c)|` -/
theorem witness_sound {lip : Dy} (h0 : 0 ≤ lip.1) {w : ℕ} (h : witnessOK lip w = true) {y : ℝ}
    (hw : (w : ℝ) ≤ y / (2 * Real.pi) * U) : 999 / 1000 * dyR lip ≤ y := by
  unfold witnessOK at h
  have h := ble_cast h
  have hn : ((999 * lip.1.toNat * 2 ^ 206 : ℕ) : ℝ) = 999 * (lip.1.toNat : ℝ) * 2 ^ 206 := by
    rw [Nat.cast_mul, Nat.cast_mul, Nat.cast_pow]; norm_num
  have hd : ((w * TWOPI_LO * 1000 * 2 ^ lip.2 : ℕ) : ℝ) = (w : ℝ) * 28976077832308491369 * 1000 * 2 ^ lip.2 := by
    rw [Nat.cast_mul, Nat.cast_mul, Nat.cast_mul, Nat.cast_pow, TWOPI_LO_cast]; norm_num
  rw [hn, hd] at h
  rw [point_spec lip h0]
  have hk : (0 : ℝ) < 2 ^ lip.2 := by positivity
  have hU : (0 : ℝ) < U := by positivity
  have hpi : 0 < 2 * Real.pi := by positivity
  have hw0 : (0 : ℝ) ≤ w := Nat.cast_nonneg _
  -- `0.999·lip·U ≤ w·TWOPI_LO/2^62 ≤ w·2π ≤ y·U`
  have s1 : 999 / 1000 * ((lip.1.toNat : ℝ) / 2 ^ lip.2) * U ≤ (w : ℝ) * (28976077832308491369 / 2 ^ 62) := by
    have e1 : 999 / 1000 * ((lip.1.toNat : ℝ) / 2 ^ lip.2) * U
        = 999 * (lip.1.toNat : ℝ) * 2 ^ 206 / (1000 * 2 ^ lip.2 * 2 ^ 62) := by
      show _ * (2:ℝ) ^ 144 = _; field_simp
    have e2 : (w : ℝ) * (28976077832308491369 / 2 ^ 62)
        = (w : ℝ) * 28976077832308491369 * 1000 * 2 ^ lip.2 / (1000 * 2 ^ lip.2 * 2 ^ 62) := by
      field_simp
    rw [e1, e2, div_le_div_iff_of_pos_right (by positivity)]
    exact h
  have s2 : (w : ℝ) * (28976077832308491369 / 2 ^ 62) ≤ (w : ℝ) * (2 * Real.pi) :=
    mul_le_mul_of_nonneg_left le_two_pi hw0
  have s3 : (w : ℝ) * (2 * Real.pi) ≤ y * U := by
    have := mul_le_mul_of_nonneg_right hw hpi.le
    have e : y / (2 * Real.pi) * U * (2 * Real.pi) = y * U := by field_simp
    rwa [e] at this
  exact le_of_mul_le_mul_right (s1.trans (s2.trans s3)) hU

theorem leaf_root {x : ℝ} (h0 : 0 ≤ x) (h1 : x ≤ 1) : Leaf 0 0 x := by
  unfold Leaf; norm_num; exact ⟨h0, h1⟩

theorem of_leaf_root {x : ℝ} (h : Leaf 0 0 x) : 0 ≤ x ∧ x ≤ 1 := by
  unfold Leaf at h; norm_num at h; exact h

theorem point_mem (p : Dy) (h0 : 0 ≤ p.1) (h1 : Nat.ble p.1.toNat (2 ^ p.2) = true) :
    0 ≤ dyR p ∧ dyR p ≤ 1 := by
  rw [point_spec p h0]
  have hk : (0 : ℝ) < 2 ^ p.2 := by positivity
  have := ble_cast h1
  push_cast at this
  exact ⟨by positivity, by rw [div_le_one hk]; exact this⟩

/-- **soundness of the row check** -/
theorem rowOK_sound (a b : List Dy) (vmin pmin vmax pmax lip : Dy)
    (h : rowOK a b vmin pmin vmax pmax lip = true) : HillClaims a b vmin pmin vmax pmax lip := by
  unfold rowOK at h
  rw [Bool.and_eq_true] at h; obtain ⟨h, hrest⟩ := h
  rw [Bool.and_eq_true] at h; obtain ⟨h, hvmax⟩ := h
  rw [Bool.and_eq_true] at h; obtain ⟨h, hvmin⟩ := h
  rw [Bool.and_eq_true] at h; obtain ⟨h, hpmax1⟩ := h
  rw [Bool.and_eq_true] at h; obtain ⟨h, hpmin1⟩ := h
  rw [Bool.and_eq_true] at h; obtain ⟨h, hlip0⟩ := h
  rw [Bool.and_eq_true] at h; obtain ⟨h, hpmax0⟩ := h
  rw [Bool.and_eq_true] at h; obtain ⟨h, hpmin0⟩ := h
  rw [Bool.and_eq_true] at h; obtain ⟨h, hokb⟩ := h
  rw [Bool.and_eq_true] at h; obtain ⟨h, hoka⟩ := h
  rw [Bool.and_eq_true] at h; obtain ⟨hlen, hle⟩ := h
  have H : RowHyp a b := ⟨by simpa using hlen, by simpa using hle, hoka, hokb⟩
  have T : TabHyp vmin pmin vmax pmax lip :=
    ⟨by simpa using hpmin0, by simpa using hpmax0, by simpa using hlip0, hpmin1, hpmax1, hvmin, hvmax⟩
  -- the three computed parts
  have hrest' : valueOK (mkCtx a b vmin pmin vmax pmax lip) pmin.1.toNat pmin.2 (encLo vmin) = true ∧
      valueOK (mkCtx a b vmin pmin vmax pmax lip) pmax.1.toNat pmax.2 (encLo vmax) = true ∧
      ∃ w, bnb (mkCtx a b vmin pmin vmax pmax lip) 32 0 0 = some w ∧ witnessOK lip w = true := by
    have h3 : (valueOK (mkCtx a b vmin pmin vmax pmax lip) pmin.1.toNat pmin.2 (encLo vmin) &&
        valueOK (mkCtx a b vmin pmin vmax pmax lip) pmax.1.toNat pmax.2 (encLo vmax) &&
        match bnb (mkCtx a b vmin pmin vmax pmax lip) 32 0 0 with
        | some w => witnessOK lip w
        | none => false) = true := hrest
    generalize bnb (mkCtx a b vmin pmin vmax pmax lip) 32 0 0 = o at h3
    rw [Bool.and_eq_true, Bool.and_eq_true] at h3
    refine ⟨h3.1.1, h3.1.2, ?_⟩
    cases o with
    | none => exact absurd h3.2 (by simp)
    | some w => exact ⟨w, rfl, h3.2⟩
  obtain ⟨hv1, hv2, w, hbnb, hwit⟩ := hrest'
  have tree := bnb_sound H T 32 0 0 w (by norm_num) hbnb
  have hF := hillF_eq a b
  have c6 : (1e-6 : ℝ) = 1 / 10 ^ 6 := by norm_num
  have c4 : (1e-4 : ℝ) = 1 / 10 ^ 4 := by norm_num
  have cl : (1.001 : ℝ) = 1001 / 1000 := by norm_num
  have cw : (0.999 : ℝ) = 999 / 1000 := by norm_num
  refine
    { pmin_mem := point_mem pmin T.pmin0 T.pmin1
      pmax_mem := point_mem pmax T.pmax0 T.pmax1
      lip_nonneg := ?_
      value_min := ?_
      value_max := ?_
      global := fun x h0 h1 => ?_
      loc10_min := fun x h0 h1 => ?_
      loc10_max := fun x h0 h1 => ?_
      loc18_min := fun x h0 h1 => ?_
      loc18_max := fun x h0 h1 => ?_
      deriv := fun x => ?_
      lip_upper := fun x h0 h1 => ?_
      lip_lower := ?_ }
  · rw [point_spec lip T.lip0]; positivity
  · rw [hF, c6, point_spec pmin T.pmin0]
    exact valueOK_sound H vmin pmin vmax pmax lip (Nat.le_of_ble_eq_true T.pmin1) vmin T.vminOK hv1
  · rw [hF, c6, point_spec pmax T.pmax0]
    exact valueOK_sound H vmin pmin vmax pmax lip (Nat.le_of_ble_eq_true T.pmax1) vmax T.vmaxOK hv2
  · rw [hF, c4]; exact ⟨(tree.1 x (leaf_root h0 h1)).lower, (tree.1 x (leaf_root h0 h1)).upper⟩
  · rw [hF, c4]; exact (tree.1 x (leaf_root h0 h1)).minLoc10
  · rw [hF, c4]; exact (tree.1 x (leaf_root h0 h1)).maxLoc10
  · rw [hF, c6, c4]; exact (tree.1 x (leaf_root h0 h1)).minLoc18
  · rw [hF, c6, c4]; exact (tree.1 x (leaf_root h0 h1)).maxLoc18
  · rw [hF]; exact hasDerivAt_hf _ x
  · rw [cl]; exact (tree.1 x (leaf_root h0 h1)).deriv
  · obtain ⟨c, hc, hcw⟩ := tree.2
    obtain ⟨c0, c1⟩ := of_leaf_root hc
    refine ⟨c, c0, c1, ?_⟩
    rw [cw]
    exact witness_sound T.lip0 hwit hcw

/-- **soundness of `hillOK`**: the table claims of row `i` -/
theorem hillOK_sound (i : ℕ) (h : hillOK i = true) :
    HillClaims (Gen.hillA i) (Gen.hillB i) (Gen.hillMinValue i) (Gen.hillMinPoint i)
      (Gen.hillMaxValue i) (Gen.hillMaxPoint i) (Gen.hillLip i) :=
  rowOK_sound _ _ _ _ _ _ _ h

end Hill
