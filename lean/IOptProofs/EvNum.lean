import IOptProofs.EvInv
import Mathlib.Algebra.Order.Floor.Semifield
import Mathlib.Algebra.Order.Field.Basic
import Mathlib.Tactic.Ring
import Mathlib.Tactic.Linarith
import Mathlib.Tactic.FieldSimp
import Mathlib.Tactic.Positivity
/-!
# Numeric layer of the evolvent over a linearly ordered field: basics and the affine maps (worker a2)

`Ev.Num.floorTrunc` is the `TruncNat` instance used for all field-level statements
(`int(d)` = natural floor); files stating theorems about `imageCube` activate it with
`attribute [local instance] Ev.Num.floorTrunc`.
-/

set_option linter.unusedSectionVars false
namespace Ev.Num
variable {α : Type} [Field α] [LinearOrder α] [IsStrictOrderedRing α] [FloorSemiring α]

/-- `int(d)` at a linearly ordered field: the natural floor. -/
@[reducible] def floorTrunc : TruncNat α := ⟨fun x => ⌊x⌋₊⟩
attribute [local instance] floorTrunc

theorem nexp_eq (n : Nat) : (nexp n : α) = 2^n := by
  induction n with
  | zero => simp [nexp]
  | succ k ih => simp only [nexp, ih]; ring

theorem half_eq : (half : α) = 1/2 := rfl

theorem addSigned_pm (y r : α) (s : Int) (hs : s = 1 ∨ s = -1) :
    addSigned y r s = y + (s : α) * r := by
  rcases hs with rfl | rfl
  · simp [addSigned]
  · simp [addSigned]; ring

/-! ### The affine maps `p2d`, `d2p` -/

theorem zipWith_zipWith_cancel {β γ : Type} (f g : β → γ → β) :
    ∀ (y : List β) (z : List γ), y.length = z.length → (∀ a, ∀ b ∈ z, f (g a b) b = a) →
      List.zipWith f (List.zipWith g y z) z = y
  | [], [], _, _ => rfl
  | a :: y, b :: z, hl, h => by
    simp only [List.zipWith_cons_cons, List.cons.injEq]
    exact ⟨h a b (by simp), zipWith_zipWith_cancel f g y z (by simpa using hl)
      (fun a b hb => h a b (by simp [hb]))⟩

theorem mem_zip_ne {lower upper : List α}
    (hne : ∀ i (h1 : i < lower.length) (h2 : i < upper.length), lower[i] ≠ upper[i]) :
    ∀ lu ∈ lower.zip upper, lu.2 - lu.1 ≠ 0 := by
  intro lu hlu
  obtain ⟨i, hi, rfl⟩ := List.mem_iff_getElem.1 hlu
  simp only [List.length_zip, Nat.lt_min] at hi
  simp only [List.getElem_zip]
  exact sub_ne_zero.2 (hne i hi.1 hi.2).symm

theorem d2p_p2d (lower upper y : List α) (hl : lower.length = y.length)
    (hu : upper.length = y.length)
    (hne : ∀ i (h1 : i < lower.length) (h2 : i < upper.length), lower[i] ≠ upper[i]) :
    d2p lower upper (p2d lower upper y) = y := by
  unfold d2p p2d
  apply zipWith_zipWith_cancel
  · simp [hl, hu]
  · intro a lu hlu
    have := mem_zip_ne hne lu hlu
    field_simp
    ring

theorem p2d_d2p (lower upper y : List α) (hl : lower.length = y.length)
    (hu : upper.length = y.length)
    (hne : ∀ i (h1 : i < lower.length) (h2 : i < upper.length), lower[i] ≠ upper[i]) :
    p2d lower upper (d2p lower upper y) = y := by
  unfold d2p p2d
  apply zipWith_zipWith_cancel
  · simp [hl, hu]
  · intro a lu hlu
    have := mem_zip_ne hne lu hlu
    field_simp
    ring

theorem length_p2d (lower upper y : List α) :
    (p2d lower upper y).length = min y.length (min lower.length upper.length) := by
  simp [p2d]

theorem getElem_p2d (lower upper y : List α) (i : Nat) (h : i < (p2d lower upper y).length)
    (hy : i < y.length) (hl : i < lower.length) (hu : i < upper.length) :
    (p2d lower upper y)[i] = y[i] * (upper[i] - lower[i]) + (upper[i] + lower[i]) / 2 := by
  simp [p2d]

/-- a point with `|y| < 1/2` is mapped strictly inside `(l, u)` -/
theorem p2d_coord_in (l u y : α) (hlu : l < u) (hy : |y| < 1/2) :
    l < y * (u - l) + (u + l) / 2 ∧ y * (u - l) + (u + l) / 2 < u := by
  have h := abs_lt.1 hy
  have hd : 0 < u - l := sub_pos.2 hlu
  constructor
  · nlinarith [h.1, h.2]
  · nlinarith [h.1, h.2]

theorem abs_grid_lt_half (Y : Int) (m : Nat) (hY : |Y| ≤ 2^m - 1) :
    |(Y : α) / 2^(m+1)| < 1/2 := by
  have h2 : (0 : α) < 2^(m+1) := by positivity
  rw [abs_div, abs_of_pos h2, div_lt_iff₀ h2]
  have : ((|Y| : Int) : α) ≤ 2^m - 1 := by exact_mod_cast hY
  rw [← Int.cast_abs]
  have h3 : (0:α) < 2^m := by positivity
  rw [pow_succ]; linarith

end Ev.Num
