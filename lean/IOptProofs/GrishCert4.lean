import IOptProofs.GrishDefs
/-! kernel-evaluated certificates (V), (G), (P) of the Grishagin functions 21..25 (one block per file, identical template;
one theorem per function so that the kernel's reduction cache is released between functions) -/
namespace Grish
set_option maxRecDepth 100000
theorem grish_ok_21 : grishOK 21 = true := by decide +kernel
theorem grish_ok_22 : grishOK 22 = true := by decide +kernel
theorem grish_ok_23 : grishOK 23 = true := by decide +kernel
theorem grish_ok_24 : grishOK 24 = true := by decide +kernel
theorem grish_ok_25 : grishOK 25 = true := by decide +kernel
theorem grish_block_4 : ∀ k ∈ List.range' 21 5, grishOK k = true := by
  intro k hk
  simp only [List.mem_range'_1] at hk
  obtain ⟨h1, h2⟩ := hk
  have : k = 21 ∨ k = 22 ∨ k = 23 ∨ k = 24 ∨ k = 25 := by omega
  rcases this with rfl | rfl | rfl | rfl | rfl
  · exact grish_ok_21
  · exact grish_ok_22
  · exact grish_ok_23
  · exact grish_ok_24
  · exact grish_ok_25
end Grish
