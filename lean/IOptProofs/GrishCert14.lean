import IOptProofs.GrishDefs
/-! kernel-evaluated certificates (V), (G), (P) of the Grishagin functions 71..75 (one block per file, identical template;
one theorem per function so that the kernel's reduction cache is released between functions) -/
namespace Grish
set_option maxRecDepth 100000
theorem grish_ok_71 : grishOK 71 = true := by decide +kernel
theorem grish_ok_72 : grishOK 72 = true := by decide +kernel
theorem grish_ok_73 : grishOK 73 = true := by decide +kernel
theorem grish_ok_74 : grishOK 74 = true := by decide +kernel
theorem grish_ok_75 : grishOK 75 = true := by decide +kernel
theorem grish_block_14 : ∀ k ∈ List.range' 71 5, grishOK k = true := by
  intro k hk
  simp only [List.mem_range'_1] at hk
  obtain ⟨h1, h2⟩ := hk
  have : k = 71 ∨ k = 72 ∨ k = 73 ∨ k = 74 ∨ k = 75 := by omega
  rcases this with rfl | rfl | rfl | rfl | rfl
  · exact grish_ok_71
  · exact grish_ok_72
  · exact grish_ok_73
  · exact grish_ok_74
  · exact grish_ok_75
end Grish
