import IOptProofs.HillSoundA
/-!
# Hill certificate, soundness part B: the sums computed by `ev` against the real function
-/

namespace Hill
open Encl

/-- the unit of the sum format -/
noncomputable abbrev U : ℝ := 2 ^ 144

theorem natsub_cast (M S : ℕ) : ((Nat.sub M S : ℕ) : ℝ) = max ((M : ℝ) - S) 0 := by
  rcases le_total S M with h | h
  · have : ((Nat.sub M S : ℕ) : ℝ) = (M : ℝ) - S := Nat.cast_sub h
    rw [this, max_eq_left]
    have : (S : ℝ) ≤ M := by exact_mod_cast h
    linarith
  · have : Nat.sub M S = 0 := Nat.sub_eq_zero_of_le h
    rw [this, max_eq_right]
    · simp
    · have : (M : ℝ) ≤ S := by exact_mod_cast h
      linarith

theorem colSum_cast (f g : Coef → ℕ) : ∀ cs : List Coef, ((colSum f g cs : ℕ) : ℝ) = colSumR f g cs
  | [] => by simp [colSum, colSumR]
  | c :: l => by simp only [colSum, colSumR]; push_cast; rw [colSum_cast f g l]

theorem colSum_comm (f g : Coef → ℕ) : ∀ cs : List Coef, colSum f g cs = colSum g f cs
  | [] => rfl
  | c :: l => by simp only [colSum]; rw [colSum_comm f g l, Nat.add_comm (f c)]

/-- the four explicit outputs of `ev` -/
def evF (ctx : Ctx) (num k : ℕ) : ℕ :=
  Nat.sub (Nat.add (evAcc ctx.coefs num k).f ctx.kF) (Nat.add ctx.c0 (Nat.shiftLeft (evAcc ctx.coefs num k).sc 89))
def evP1 (ctx : Ctx) (num k : ℕ) : ℕ :=
  Nat.sub (Nat.add (evAcc ctx.coefs num k).g1 ctx.kG) (Nat.add ctx.c1 (Nat.shiftLeft (evAcc ctx.coefs num k).sc 89))
def evN1 (ctx : Ctx) (num k : ℕ) : ℕ :=
  Nat.sub (Nat.add ctx.c1 (Nat.shiftLeft (evAcc ctx.coefs num k).sc 89)) (Nat.add (evAcc ctx.coefs num k).g1 ctx.kG)
def evP2 (ctx : Ctx) (num k : ℕ) : ℕ :=
  Nat.sub (Nat.add (evAcc ctx.coefs num k).g2 ctx.kG) (Nat.add ctx.c2 (Nat.shiftLeft (evAcc ctx.coefs num k).sc 89))
def evN2 (ctx : Ctx) (num k : ℕ) : ℕ :=
  Nat.sub (Nat.add ctx.c2 (Nat.shiftLeft (evAcc ctx.coefs num k).sc 89)) (Nat.add (evAcc ctx.coefs num k).g2 ctx.kG)

theorem ev_eq {α : Type} (ctx : Ctx) (num k : ℕ) (cont : ℕ → ℕ → ℕ → ℕ → ℕ → α) :
    ev ctx num k cont = cont (evF ctx num k) (evP1 ctx num k) (evN1 ctx num k) (evP2 ctx num k) (evN2 ctx num k) :=
  rfl

/-- one column pair: the biased accumulator minus the bias terms is the exact fixed-point sum -/
theorem col_spec (pa pb : Coef → ℕ) (cs : List Coef) (X U Y V : ℕ) :
    (((Nat.add (goF pa pb cs X U Y V 0) (Nat.shiftLeft (2 * cs.length) 154) : ℕ) : ℝ)
      - ((Nat.add (Nat.shiftLeft (colSum pa pb cs) 65) (Nat.shiftLeft (goSC cs X U Y V 0) 89) : ℕ) : ℝ))
      = fixSum pa pb BA cs X U Y V := by
  have e1 : ∀ x y : ℕ, ((Nat.add x y : ℕ) : ℝ) = (x : ℝ) + y := fun x y => Nat.cast_add x y
  rw [e1, e1, shl_cast, shl_cast, shl_cast, goF_cast pa pb (BA : ℝ), colSum_cast, BA_cast, B_cast]
  push_cast
  ring

theorem natsub_max (M S : ℕ) (r : ℝ) (h : (M : ℝ) - S = r) :
    ((Nat.sub M S : ℕ) : ℝ) = max r 0 ∧ ((Nat.sub S M : ℕ) : ℝ) = max (-r) 0 := by
  rw [natsub_cast, natsub_cast, h, show (S : ℝ) - M = -r by linarith]
  exact ⟨rfl, rfl⟩

theorem scale_err (x fx S : ℝ) (h : |x - fx / 2 ^ 144| ≤ 16777216 / 2 ^ 64 * (S / 2 ^ 80)) :
    |x * U - fx| ≤ S * 16777216 := by
  have hU : (0 : ℝ) < U := by positivity
  have e : x * U - fx = U * (x - fx / 2 ^ 144) := by
    show x * 2 ^ 144 - fx = 2 ^ 144 * (x - fx / 2 ^ 144); field_simp
  rw [e, abs_mul, abs_of_pos hU]
  calc U * |x - fx / 2 ^ 144| ≤ U * (16777216 / 2 ^ 64 * (S / 2 ^ 80)) :=
        mul_le_mul_of_nonneg_left h hU.le
    _ = S * 16777216 := by show (2:ℝ) ^ 144 * _ = _; field_simp

theorem part1 (G fx e P N c : ℝ) (hc : 0 < c) (hP : P = max fx 0) (hN : N = max (-fx) 0)
    (he : |G * U - fx| ≤ e) :
    |c * G| / c * U ≤ P + N + e ∧ P + N - e ≤ |c * G| / c * U := by
  have hU : (0 : ℝ) < U := by positivity
  have e1 : |c * G| / c * U = |G * U| := by
    rw [abs_mul, abs_mul, abs_of_pos hc, abs_of_pos hU]; field_simp
  have e2 : P + N = |fx| := by
    rw [hP, hN]
    rcases le_total 0 fx with h | h
    · rw [max_eq_left h, max_eq_right (by linarith), abs_of_nonneg h]; ring
    · rw [max_eq_right h, max_eq_left (by linarith), abs_of_nonpos h]; ring
  rw [e1, e2]
  have := abs_le.mp ((abs_abs_sub_abs_le_abs_sub (G * U) fx).trans he)
  constructor <;> linarith [this.1, this.2]

theorem part2 (G fx e P N c : ℝ) (hc : 0 < c) (hP : P = max fx 0) (hN : N = max (-fx) 0)
    (he : |-G * U - fx| ≤ e) :
    max (-(c * G)) 0 / c * U ≤ P + e ∧ max (c * G) 0 / c * U ≤ N + e ∧ |c * G| / c * U ≤ P + N + e := by
  have hU : (0 : ℝ) < U := by positivity
  have he' := abs_le.mp he
  have he0 : 0 ≤ e := (abs_nonneg _).trans he
  have m1 : max (-(c * G)) 0 / c * U = max (-G * U) 0 := by
    rw [← max_div_div_right hc.le, max_mul_of_nonneg _ _ hU.le]
    congr 1
    · field_simp
    · simp
  have m2 : max (c * G) 0 / c * U = max (G * U) 0 := by
    rw [← max_div_div_right hc.le, max_mul_of_nonneg _ _ hU.le]
    congr 1
    · field_simp
    · simp
  have m3 : |c * G| / c * U = |G * U| := by
    rw [abs_mul, abs_mul, abs_of_pos hc, abs_of_pos hU]; field_simp
  have p0 : 0 ≤ P := hP ▸ le_max_right _ _
  have n0 : 0 ≤ N := hN ▸ le_max_right _ _
  have p1 : fx ≤ P := hP ▸ le_max_left _ _
  have n1 : -fx ≤ N := hN ▸ le_max_left _ _
  rw [m1, m2, m3]
  refine ⟨max_le (by linarith [he'.2]) (by linarith), max_le (by linarith [he'.1]) (by linarith), ?_⟩
  rw [abs_le]
  constructor <;> linarith [he'.1, he'.2]

/-- the structural checks of `rowOK` on the coefficient lists -/
structure RowHyp (a b : List Dy) : Prop where
  len : a.length = b.length
  le16 : a.length ≤ 16
  oka : allOK a = true
  okb : allOK b = true

theorem sumAbs0_le : ∀ (a b : List Dy) (i : ℕ), allOK a = true → allOK b = true →
    (sumAbs 0 i a b : ℝ) ≤ a.length * 2 ^ 82
  | [], _, _, _, _ => by simp [sumAbs]
  | _ :: _, [], _, _, _ => by simp only [sumAbs, Nat.cast_zero]; positivity
  | a :: as, b :: bs, i, ha, hb => by
    simp only [allOK, Bool.and_eq_true] at ha hb
    have ih := sumAbs0_le as bs (i + 1) ha.2 hb.2
    obtain ⟨_, h1⟩ := coefOK_spec a ha.1
    obtain ⟨_, h2⟩ := coefOK_spec b hb.1
    simp only [sumAbs, pow_zero, one_mul, List.length_cons]
    push_cast
    rw [natAbs_cast, natAbs_cast]
    linarith

theorem cast_nat_add (x y : ℕ) : ((Nat.add x y : ℕ) : ℝ) = (x : ℝ) + y := Nat.cast_add x y

/-- **the outputs of `ev` at the dyadic point `t = num/2^k ∈ [0,1]`** against the real function `hf (rl a b)`
and its derivatives (unit `U = 2^144`) -/
theorem ev_spec {a b : List Dy} (H : RowHyp a b) (vmin pmin vmax pmax lip : Dy) {num k : ℕ}
    (h : num ≤ 2 ^ k) :
    let ctx := mkCtx a b vmin pmin vmax pmax lip
    let t : ℝ := (num : ℝ) / 2 ^ k
    |hf (rl a b) t * U - ((evF ctx num k : ℝ) - BF)| ≤ ctx.e0 ∧
    |hf1 (rl a b) t| / (2 * Real.pi) * U ≤ (evP1 ctx num k : ℝ) + evN1 ctx num k + ctx.e1 ∧
    (evP1 ctx num k : ℝ) + evN1 ctx num k - ctx.e1 ≤ |hf1 (rl a b) t| / (2 * Real.pi) * U ∧
    max (-hf2 (rl a b) t) 0 / (2 * Real.pi) ^ 2 * U ≤ (evP2 ctx num k : ℝ) + ctx.e2 ∧
    max (hf2 (rl a b) t) 0 / (2 * Real.pi) ^ 2 * U ≤ (evN2 ctx num k : ℝ) + ctx.e2 ∧
    |hf2 (rl a b) t| / (2 * Real.pi) ^ 2 * U ≤ (evP2 ctx num k : ℝ) + evN2 ctx num k + ctx.e2 := by
  intro ctx t
  set cs := mkCoefs 0 a b with hcs
  have hl : cs.length = a.length := mkCoefs_length a b 0 H.len
  have hlen : cs.length ≤ 16 := hl ▸ H.le16
  set θ : ℝ := 2 * Real.pi * ((num : ℝ) / 2 ^ k) with hθ
  obtain ⟨i0, i1, i2, a0, a1, a2, _⟩ := mkCoefs_spec θ a b 0 (by have := H.le16; omega) H.oka H.okb
  obtain ⟨hf', hg1, hg2, hsc⟩ := evAcc_eq cs num k
  have hpi : 0 < 2 * Real.pi := by positivity
  have hU : (0 : ℝ) < U := by positivity
  -- column 0
  obtain ⟨s0, m0⟩ := sums_spec Coef.a0 Coef.b0 (BA : ℝ) cs h hlen
  obtain ⟨s1, _⟩ := sums_spec Coef.b1 Coef.a1 (BA : ℝ) cs h hlen
  obtain ⟨s2, _⟩ := sums_spec Coef.a2 Coef.b2 (BA : ℝ) cs h hlen
  rw [← hθ] at s0 s1 s2
  rw [i0, a0] at s0
  rw [i1, a1] at s1
  rw [i2, a2] at s2
  rw [a0] at m0
  set fx0 := fixSum Coef.a0 Coef.b0 (BA : ℝ) cs (Nat.add ONE B) B (trigC num k) (trigS num k) with hfx0
  set fx1 := fixSum Coef.b1 Coef.a1 (BA : ℝ) cs (Nat.add ONE B) B (trigC num k) (trigS num k) with hfx1
  set fx2 := fixSum Coef.a2 Coef.b2 (BA : ℝ) cs (Nat.add ONE B) B (trigC num k) (trigS num k) with hfx2
  have c0 := col_spec Coef.a0 Coef.b0 cs (Nat.add ONE B) B (trigC num k) (trigS num k)
  have c1 := col_spec Coef.b1 Coef.a1 cs (Nat.add ONE B) B (trigC num k) (trigS num k)
  have c2 := col_spec Coef.a2 Coef.b2 cs (Nat.add ONE B) B (trigC num k) (trigS num k)
  rw [← hfx0, hl, ← hf', ← hsc] at c0
  rw [← hfx1, hl, ← hg1, ← hsc] at c1
  rw [← hfx2, hl, ← hg2, ← hsc] at c2
  simp only [cast_nat_add] at c0 c1 c2
  -- the outputs
  have hcoefs : ctx.coefs = cs := rfl
  have hkF : ctx.kF = BF + Nat.shiftLeft (2 * a.length) 154 := rfl
  have hkG : ctx.kG = Nat.shiftLeft (2 * a.length) 154 := rfl
  have hc0 : ctx.c0 = Nat.shiftLeft (colSum Coef.a0 Coef.b0 cs) 65 := rfl
  have hc1 : ctx.c1 = Nat.shiftLeft (colSum Coef.b1 Coef.a1 cs) 65 := by
    rw [colSum_comm]; rfl
  have hc2 : ctx.c2 = Nat.shiftLeft (colSum Coef.a2 Coef.b2 cs) 65 := rfl
  have eF : (evF ctx num k : ℝ) = max ((BF : ℝ) + fx0) 0 := by
    unfold evF
    rw [hcoefs, hkF, hc0]
    refine (natsub_max _ _ _ ?_).1
    simp only [cast_nat_add]
    push_cast
    linarith
  obtain ⟨eP1, eN1⟩ : (evP1 ctx num k : ℝ) = max fx1 0 ∧ (evN1 ctx num k : ℝ) = max (-fx1) 0 := by
    unfold evP1 evN1
    rw [hcoefs, hkG, hc1]
    refine natsub_max _ _ _ ?_
    simp only [cast_nat_add]
    linarith
  obtain ⟨eP2, eN2⟩ : (evP2 ctx num k : ℝ) = max fx2 0 ∧ (evN2 ctx num k : ℝ) = max (-fx2) 0 := by
    unfold evP2 evN2
    rw [hcoefs, hkG, hc2]
    refine natsub_max _ _ _ ?_
    simp only [cast_nat_add]
    linarith
  have he0 : (ctx.e0 : ℝ) = (sumAbs 0 0 a b : ℝ) * 16777216 := by
    show ((sumAbs 0 0 a b * EMAX : ℕ) : ℝ) = _
    push_cast; norm_num [EMAX]
  have he1 : (ctx.e1 : ℝ) = (sumAbs 1 0 a b : ℝ) * 16777216 := by
    show ((sumAbs 1 0 a b * EMAX : ℕ) : ℝ) = _
    push_cast; norm_num [EMAX]
  have he2 : (ctx.e2 : ℝ) = (sumAbs 2 0 a b : ℝ) * 16777216 := by
    show ((sumAbs 2 0 a b * EMAX : ℕ) : ℝ) = _
    push_cast; norm_num [EMAX]
  have r0 := scale_err _ _ _ s0
  have r1 := scale_err _ _ _ s1
  have r2 := scale_err _ _ _ s2
  rw [← he0] at r0
  rw [← he1] at r1
  rw [← he2] at r2
  have hh0 : hf (rl a b) t = tsum (rl a b) 0 θ := rfl
  have hh1 : hf1 (rl a b) t = 2 * Real.pi * tsum (dcoef (rl a b) 0) 0 θ := rfl
  have hh2 : hf2 (rl a b) t = (2 * Real.pi) ^ 2 * tsum (dcoef (dcoef (rl a b) 0) 0) 0 θ := rfl
  -- no truncation in `F`
  have hS : (sumAbs 0 0 a b : ℝ) ≤ 16 * 2 ^ 82 := by
    refine (sumAbs0_le a b 0 H.oka H.okb).trans ?_
    have : (a.length : ℝ) ≤ 16 := by exact_mod_cast H.le16
    gcongr
  have hm : |fx0| ≤ 2 ^ 159 := by
    refine m0.trans ?_
    calc (5 : ℝ) / 4 * 2 ^ 64 * (sumAbs 0 0 a b : ℝ) ≤ 5 / 4 * 2 ^ 64 * (16 * 2 ^ 82) := by gcongr
      _ ≤ 2 ^ 159 := by norm_num
  have eF' : (evF ctx num k : ℝ) - BF = fx0 := by
    rw [eF, max_eq_left, add_sub_cancel_left]
    rw [BF_cast]
    have := (abs_le.mp hm).1
    have : (2:ℝ) ^ 159 ≤ 2 ^ 160 := by norm_num
    linarith
  rw [eF', hh0, hh1, hh2]
  have q1 := part1 _ _ _ _ _ _ hpi eP1 eN1 r1
  have q2 := part2 _ _ _ _ _ ((2 * Real.pi) ^ 2) (by positivity) eP2 eN2 r2
  exact ⟨r0, q1.1, q1.2, q2.1, q2.2.1, q2.2.2⟩

end Hill
