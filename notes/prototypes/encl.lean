/-! scratch: fixed-point (scale 2^64) interval sin/cos, to measure kernel evaluation cost -/
namespace E
def S : Nat := 64
def one : Int := (2:Int)^S
structure I where (lo hi : Int) deriving Repr
def fdiv (a : Int) (k : Nat) : Int := a / (2:Int)^k              -- floor
def cdiv (a : Int) (k : Nat) : Int := -((-a) / (2:Int)^k)        -- ceil
def add (a b : I) : I := ⟨a.lo + b.lo, a.hi + b.hi⟩
def sub (a b : I) : I := ⟨a.lo - b.hi, a.hi - b.lo⟩
def mulc (a b : I) : I :=
  let p1 := a.lo*b.lo; let p2 := a.lo*b.hi; let p3 := a.hi*b.lo; let p4 := a.hi*b.hi
  ⟨fdiv (min (min p1 p2) (min p3 p4)) S, cdiv (max (max p1 p2) (max p3 p4)) S⟩
def scale (a : I) (num : Int) (den : Nat) : I :=   -- multiply by num/den, num>0
  ⟨(a.lo*num) / den, -((-(a.hi*num)) / den)⟩
def ofInt (n : Int) : I := ⟨n*one, n*one⟩
/-- sin,cos of x (|x| ≤ 1/4 after halving): Taylor deg 5/4 with crude remainder slack -/
def sincosSmall (x : I) : I × I :=
  let x2 := mulc x x
  let x3 := mulc x2 x
  let x4 := mulc x2 x2
  let x5 := mulc x4 x
  let s := add (sub x (scale x3 1 6)) (scale x5 1 120)
  let c := add (sub (ofInt 1) (scale x2 1 2)) (scale x4 1 24)
  let slack : Int := one / (2:Int)^20
  (⟨s.lo - slack, s.hi + slack⟩, ⟨c.lo - slack, c.hi + slack⟩)
def dbl (sc : I × I) : I × I :=
  let s := sc.1; let c := sc.2
  let s2 := scale (mulc s c) 2 1
  let c2 := sub (scale (mulc c c) 2 1) (ofInt 1)
  (s2, c2)
def sincos (x : I) (k : Nat) : I × I :=
  let xs : I := ⟨fdiv x.lo k, cdiv x.hi k⟩
  (List.range k).foldl (fun acc _ => dbl acc) (sincosSmall xs)
def piI : I := ⟨(3141592653589793238 * one) / 1000000000000000000, (3141592653589793239 * one) / 1000000000000000000 + 1⟩
/-- Hill-like sum: Σ_{i<14} a_i sin(2 i π x) + b_i cos(2 i π x), coefficients as fixed-point ints -/
def hill (a b : List Int) (x : I) : I :=
  (List.range 14).foldl (fun acc (i : Nat) =>
    let th := mulc (scale piI (2*(i:Int)) 1) x
    let sc := sincos th 9
    let ai : I := ⟨a.getD i 0, a.getD i 0⟩; let bi : I := ⟨b.getD i 0, b.getD i 0⟩
    add acc (add (mulc ai sc.1) (mulc bi sc.2))) ⟨0,0⟩
def coeffs : List Int := (List.range 14).map fun (i : Nat) => ((i:Int) * 7919 % 2000 - 1000) * one / 1000
def xpt : I := ⟨one * 3 / 10, one * 3 / 10⟩
def val : I := hill coeffs coeffs xpt
#eval (val.lo, val.hi, (val.hi - val.lo))
theorem t1 : decide (val.lo ≤ val.hi) = true := by decide +kernel
/-- 64 point evaluations -/
def many : Bool := (List.range 64).all fun (j : Nat) =>
  let x : I := ⟨one * ((j:Int)+1) / 100, one * ((j:Int)+1) / 100⟩
  let v := hill coeffs coeffs x
  decide (v.lo ≤ v.hi)
theorem t64 : many = true := by decide +kernel
end E
