import sys; sys.path.insert(0,'/tmp/scratch/iopt'); sys.path.insert(0,'/tmp/scratch')
import numpy as np, time
from evmodel import step
from iOpt.evolvent.evolvent import Evolvent
def model_image(idx, n, m):
    st=(0,tuple([1]*n)); Y=[0]*n
    for j in range(m):
        d=(idx>>(n*(m-1-j)))&(2**n-1)
        st,s=step(st,d,n)
        for i in range(n): Y[i]+=s[i]*2**(m-1-j)
    return Y   # units 2^-(m+1)
t=time.time(); cnt=0
for n,m in [(2,6),(3,4),(4,3),(5,2),(2,10),(3,10)]:
    e=Evolvent([-0.5]*n,[0.5]*n,n,m)
    tot=2**(n*m)
    idxs=range(tot) if tot<=2**13 else np.random.default_rng(0).integers(0,tot,3000)
    for idx in idxs:
        idx=int(idx)
        x=(idx+0.37)/tot
        y=e.GetImage(x)
        Y=model_image(idx,n,m)
        assert all(y[i]==Y[i]/2**(m+1) for i in range(n)),(n,m,idx,y,Y)
        xi=e.GetInverseImage(y)
        assert xi==idx/tot,(xi,idx/tot)
        cnt+=1
print('ok',cnt,time.time()-t)
