# integer model of iOpt evolvent (N>=2)
import itertools, sys
def node(iis, n):
    u=[0]*n; v=[0]*n
    nexp=2**n
    iq=1; n1=n-1; l=0
    if iis==0:
        l=n1; u=[-1]*n; v=[-1]*n
    elif iis==nexp-1:
        l=n1; u=[1]+[-1]*(n-1); v=[1]+[-1]*(n-1); v[n1]=1
    else:
        iff=nexp; k1=-1
        for i in range(n):
            iff//=2
            if iis>=iff:
                if iis==iff and iis!=1:
                    l=i; iq=-1
                iis-=iff; k2=1
            else:
                k2=-1
                if iis==iff-1 and iis!=0:
                    l=i; iq=1
            j=-k1*k2
            v[i]=j; u[i]=j; k1=k2
        v[l]=v[l]*iq
        v[n1]=-v[n1]
    return l,u,v
def step(state, d, n):
    it, iw = state
    iw=list(iw)
    l,iu,iv=node(d,n)
    iu[0],iu[it]=iu[it],iu[0]
    iv[0],iv[it]=iv[it],iv[0]
    if l==0: l=it
    elif l==it: l=0
    it=l
    s=[]
    for i in range(n):
        iu[i]*=iw[i]
        iw[i]*=-iv[i]
        s.append(iu[i])
    return (it,tuple(iw)), tuple(s)
def reach(n):
    init=(0,tuple([1]*n)); seen={init}; fr=[init]
    while fr:
        st=fr.pop()
        for d in range(2**n):
            st2,_=step(st,d,n)
            if st2 not in seen: seen.add(st2); fr.append(st2)
    return seen
for n in range(2,6):
    R=reach(n)
    allst=[(it,iw) for it in range(n) for iw in itertools.product([1,-1],repeat=n)]
    # bijectivity for all states
    bij=all(len({step(st,d,n)[1] for d in range(2**n)})==2**n for st in allst)
    last=2**n-1
    def checks(S):
        ok_entry=all(step(step(st,0,n)[0],0,n)[1]==step(st,0,n)[1] for st in S)
        ok_exit=all(step(step(st,last,n)[0],last,n)[1]==step(st,last,n)[1] for st in S)
        ok_adj=True
        for st in S:
            for d in range(last):
                a_st,a=step(st,d,n); b_st,b=step(st,d+1,n)
                diff=[i for i in range(n) if a[i]!=b[i]]
                if len(diff)!=1: ok_adj=False; continue
                c=diff[0]
                X=step(a_st,last,n)[1]; E=step(b_st,0,n)[1]
                for i in range(n):
                    if i!=c and X[i]!=E[i]: ok_adj=False
                if X[c]!=b[c] or E[c]!=a[c]: ok_adj=False
        return ok_entry,ok_exit,ok_adj
    print(n,len(R),len(allst),bij,'reach:',checks(R),'all:',checks(allst))
