/-! scratch: evolvent integer model -/
namespace Ev
abbrev Vec := List Int

def setAt (l : List Int) (i : Nat) (v : Int) : List Int := l.set i v
def getAt (l : List Int) (i : Nat) : Int := l.getD i 0
def swap0 (l : List Int) (i : Nat) : List Int :=
  let a := getAt l 0; let b := getAt l i
  (l.set 0 b).set i a

/-- the general branch loop of __CalculateNode -/
def nodeLoop (n : Nat) : (i : Nat) → (fuel : Nat) → (iis iff : Nat) → (k1 : Int) → (l : Nat) → (iq : Int) → (acc : List Int) → (Nat × Int × List Int)
  | _, 0, _, _, _, l, iq, acc => (l, iq, acc.reverse)
  | i, fuel+1, iis, iff, k1, l, iq, acc =>
    let iff := iff / 2
    if iis ≥ iff then
      let (l, iq) := if iis == iff && iis != 1 then (i, (-1 : Int)) else (l, iq)
      let j := -k1 * 1
      nodeLoop n (i+1) fuel (iis - iff) iff 1 l iq (j :: acc)
    else
      let (l, iq) := if iis + 1 == iff && iis != 0 then (i, (1:Int)) else (l, iq)
      let j := -k1 * (-1)
      nodeLoop n (i+1) fuel iis iff (-1) l iq (j :: acc)

def node (n iis : Nat) : Nat × List Int × List Int :=
  let nexp := 2^n
  if iis == 0 then (n-1, List.replicate n (-1), List.replicate n (-1))
  else if iis == nexp - 1 then
    let u := (1 : Int) :: List.replicate (n-1) (-1)
    (n-1, u, u.set (n-1) 1)
  else
    let (l, iq, u) := nodeLoop n 0 n iis nexp (-1) 0 1 []
    let v := u.set l (getAt u l * iq)
    let v := v.set (n-1) (- getAt v (n-1))
    (l, u, v)

structure St where
  it : Nat
  iw : List Int
deriving DecidableEq, Repr

def step (n : Nat) (s : St) (d : Nat) : St × List Int :=
  let (l, iu, iv) := node n d
  let iu := swap0 iu s.it
  let iv := swap0 iv s.it
  let l := if l == 0 then s.it else if l == s.it then 0 else l
  let iu' := List.zipWith (· * ·) iu s.iw
  let iw' := List.zipWith (fun w v => w * (-v)) s.iw iv
  (⟨l, iw'⟩, iu')

def signVecs : Nat → List (List Int)
  | 0 => [[]]
  | n+1 => (signVecs n).flatMap (fun v => [1 :: v, (-1) :: v])

def allStates (n : Nat) : List St :=
  (List.range n).flatMap fun it => (signVecs n).map fun w => ⟨it, w⟩

def bijOK (n : Nat) : Bool :=
  (allStates n).all fun s =>
    let imgs := (List.range (2^n)).map fun d => (step n s d).2
    imgs.Nodup && imgs.all (fun v => v ∈ signVecs n)

def adjOK (n : Nat) : Bool :=
  let last := 2^n - 1
  (allStates n).all fun s =>
    (step n (step n s 0).1 0).2 == (step n s 0).2 &&
    (step n (step n s last).1 last).2 == (step n s last).2 &&
    (List.range last).all fun d =>
      let (sa, a) := step n s d
      let (sb, b) := step n s (d+1)
      let X := (step n sa last).2
      let E := (step n sb 0).2
      let diff := (List.range n).filter fun i => getAt a i != getAt b i
      match diff with
      | [c] => (List.range n).all fun i =>
          if i == c then getAt X c == getAt b c && getAt E c == getAt a c else getAt X i == getAt E i
      | _ => false

def closedOK (n : Nat) : Bool :=
  (allStates n).all fun s => (List.range (2^n)).all fun d => (step n s d).1 ∈ allStates n

def encVec (v : List Int) : Nat := v.foldl (fun acc x => 2*acc + (if x == 1 then 1 else 0)) 0
def wfSt (n : Nat) (s : St) : Bool := decide (s.it < n) && s.iw.length == n && s.iw.all (fun x => x == 1 || x == -1)
def popc (n x : Nat) : Nat := (List.range n).foldl (fun a i => a + (x >>> i) % 2) 0
/-- all per-state facts, offsets compared as Nat codes -/
def stOK (n : Nat) (s : St) : Bool :=
  let last := 2^n - 1
  let row := (List.range (2^n)).map fun d => step n s d          -- each step evaluated once per row
  let offs := row.map fun p => encVec p.2
  let firstC := row.map fun p => encVec (step n p.1 0).2         -- entry corner of each child
  let lastC := row.map fun p => encVec (step n p.1 last).2       -- exit corner of each child
  offs.Nodup && offs.all (· < 2^n) && row.all (fun p => wfSt n p.1) &&
  firstC.head? == offs.head? && lastC.getLast? == offs.getLast? &&
  (List.range last).all fun d =>
    let a := offs.getD d 0; let b := offs.getD (d+1) 0
    let X := lastC.getD d 0; let E := firstC.getD (d+1) 0
    let df := a ^^^ b
    popc n df == 1 && (X ^^^ E) == df && (X &&& df) == (b &&& df) && (E &&& df) == (a &&& df)
def chunk (n k : Nat) : Bool := (((allStates n).drop (16*k)).take 16).all (stOK n)
#eval (List.range 10).all (chunk 5)
theorem c0 : chunk 5 0 = true := by decide +kernel
end Ev
