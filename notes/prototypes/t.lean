def parseHexFloat (s : String) : Float := 
  -- input: decimal uint64 bits
  Float.ofBits (s.toNat!.toUInt64)
partial def loop (h : IO.FS.Stream) : IO Unit := do
  let line ← h.getLine
  if line.isEmpty then return ()
  match (line.trimAscii.toString.splitOn " ") with
  | [a, b] =>
    let x := parseHexFloat a
    let y := parseHexFloat b
    IO.println s!"{(Float.pow x y).toBits} {(x / y).toBits} {(Float.sqrt x).toBits} {(Float.exp (-x)).toBits} {(Float.sin (x*100)).toBits} {(Float.cos (x*100)).toBits}"
  | _ => IO.println "bad"
  loop h
def main : IO Unit := do loop (← IO.getStdin)
